"""C05 — direct samples follow the distribution's own density and the given random stream.

Tie: the `rng` handed to `sample(N, rng=…)` is a scripted recorder (a `RandomState` subclass whose
generator methods return chosen arrays and record `(method, args)`).  For Gaussian / GMRF /
Lognormal the draws are `0, e_1, …, e_m`, so one call returns offset and linear part of the affine
map `xi -> sample`, which is compared with the executable Lean model (exact rational solve with the
solver selection of the code).  For the univariate families the recorded generator call is compared
with the model's plumbing record.

Oracle (implementation only): the log-density of the *same object* is probed by exact second
differences (quadratic densities: Hessian = precision, stationary point = mean) and compared with the
read-off affine map (`B Bᵀ · H = I`, gradient zero at the offset); for the univariate families the
law of the recorded generator call pushed through the (monotone) map `draw -> sample` is compared
with the integral of `exp(logpdf)`; wrapping (type / shape / geometry), refusal of conditional
distributions, determinism under a given generator and untouched global random state are checked
on every call.
"""
import math
import numpy as np
from fractions import Fraction
from harness.core import import_cuqi, quiet, q, qv, qm, pq, pv, pm, close, vclose, mclose

TOL = 1e-9


# ----------------------------------------------------------------------------- scripted generator
class Script(np.random.RandomState):
    """RandomState whose generator methods return scripted values and record the calls.
    `plan(method, shape)` must return an array of that shape (or None -> default grid)."""

    def __init__(self, plan=None):
        super().__init__(12345)
        self.calls = []
        self.plan = plan

    def _out(self, method, args, size):
        if size is None:
            shape = ()
        elif isinstance(size, (int, np.integer)):
            shape = (int(size),)
        else:
            shape = tuple(int(s) for s in size)
        self.calls.append((method, args, shape))
        v = self.plan(method, shape, len(self.calls) - 1) if self.plan is not None else None
        if v is None:
            n = int(np.prod(shape)) if shape else 1
            v = ((np.arange(n) + 1.0) / (n + 1.0)).reshape(shape)
        v = np.asarray(v, dtype=float)
        if shape == ():
            return float(v.reshape(-1)[0])
        return v.reshape(shape).copy()

    def randn(self, *shape):
        return self._out("randn", (), tuple(shape) if shape else None)

    def standard_normal(self, size=None):
        return self._out("standard_normal", (), size)

    def normal(self, loc=0.0, scale=1.0, size=None):
        return self._out("normal", (loc, scale), size)

    def gamma(self, shape, scale=1.0, size=None):
        return self._out("gamma", (shape, scale), size)

    def standard_gamma(self, shape, size=None):
        return self._out("standard_gamma", (shape,), size)

    def beta(self, a, b, size=None):
        return self._out("beta", (a, b), size)

    def laplace(self, loc=0.0, scale=1.0, size=None):
        return self._out("laplace", (loc, scale), size)

    def uniform(self, low=0.0, high=1.0, size=None):
        return self._out("uniform", (low, high), size)

    def random_sample(self, size=None):
        return self._out("random_sample", (), size)

    def rand(self, *shape):
        return self._out("rand", (), tuple(shape) if shape else None)

    def standard_cauchy(self, size=None):
        return self._out("standard_cauchy", (), size)

    def standard_exponential(self, size=None):
        return self._out("standard_exponential", (), size)

    def exponential(self, scale=1.0, size=None):
        return self._out("exponential", (scale,), size)

    # every other continuous generator a (new) fast path might decide to call is recorded as well
    def lognormal(self, mean=0.0, sigma=1.0, size=None):
        return self._out("lognormal", (mean, sigma), size)

    def chisquare(self, df, size=None):
        return self._out("chisquare", (df,), size)

    def standard_t(self, df, size=None):
        return self._out("standard_t", (df,), size)

    def logistic(self, loc=0.0, scale=1.0, size=None):
        return self._out("logistic", (loc, scale), size)

    def gumbel(self, loc=0.0, scale=1.0, size=None):
        return self._out("gumbel", (loc, scale), size)

    def rayleigh(self, scale=1.0, size=None):
        return self._out("rayleigh", (scale,), size)

    def weibull(self, a, size=None):
        return self._out("weibull", (a,), size)

    def pareto(self, a, size=None):
        return self._out("pareto", (a,), size)

    def power(self, a, size=None):
        return self._out("power", (a,), size)

    def wald(self, mean, scale, size=None):
        return self._out("wald", (mean, scale), size)

    def triangular(self, left, mode, right, size=None):
        return self._out("triangular", (left, mode, right), size)

    def multivariate_normal(self, mean, cov, size=None, *a, **k):
        n = len(np.atleast_1d(mean))
        sz = () if size is None else ((int(size),) if np.isscalar(size) else tuple(size))
        return self._out("multivariate_normal", (mean, cov), sz + (n,))

    def random(self, size=None):
        return self._out("random_sample", (), size)

    ranf = sample = random

    def leaked(self):
        """True when the underlying (real) generator was consumed: a generator method that is not scripted was used"""
        st = np.random.RandomState.get_state(self)
        ref = np.random.RandomState(12345).get_state()
        return not (np.array_equal(st[1], ref[1]) and st[2] == ref[2])


def unit_plan(rows):
    """draws [0 | I]: column 0 is the zero vector, column k the k-th unit vector"""
    def plan(method, shape, k):
        assert len(shape) == 2 and shape[0] == rows and shape[1] == rows + 1, (method, shape, rows)
        return np.hstack([np.zeros((rows, 1)), np.eye(rows)])
    return plan


def dense(M):
    return np.asarray(M.todense()) if hasattr(M, "todense") else np.asarray(M)


def global_state_fingerprint():
    s = np.random.get_state()
    return (s[0], s[1].tobytes(), s[2], s[3], s[4])


class Sampled:
    """result of one guarded `dist.sample(N, rng=…)` call"""
    pass


RETAINED = []       # (returned object, copy of its numbers, description): re-verified at the end of the run (G8)
MUTATIONS = []      # (class name, attribute, N) for every stored array whose bytes changed during a sample() call


def snapshot(obj, depth=0):
    """bytes of every ndarray / sparse matrix / scalar stored on the object (and on cuqi objects it holds)"""
    import scipy.sparse as sp
    out = {}
    try:
        items = list(vars(obj).items())
    except TypeError:
        return out
    for k, v in items:
        try:
            if isinstance(v, np.ndarray):
                if v.dtype != object:
                    out[k] = (v.shape, v.dtype.str, v.tobytes())
            elif sp.issparse(v):
                if v.shape[0] * v.shape[1] <= 40000:
                    out[k] = (v.shape, np.asarray(v.toarray()).tobytes())
            elif isinstance(v, (int, float, np.number, str, bool)) or v is None:
                out[k] = v
            elif depth < 1 and type(v).__module__.startswith("cuqi") and hasattr(v, "__dict__") and "geometry" not in k.lower():
                for kk, vv in snapshot(v, depth + 1).items():
                    out[k + "." + kk] = vv
        except Exception:
            pass
    return out


def call_sample(dist, N, rng):
    """run dist.sample(N, rng=rng); returns (value or None, error-class or None, global-state-unchanged).
    Side check on EVERY call: no stored array / scalar of the object changes during sampling."""
    try:
        with quiet():
            _ = dist.dim          # lets lazily synchronised helpers (Lognormal._normal) settle before the snapshot
    except Exception:
        pass
    snap0 = snapshot(dist)
    before = global_state_fingerprint()
    try:
        with quiet():
            s = dist.sample(N, rng=rng)
        err = None
    except Exception as e:  # noqa
        s, err = None, type(e).__name__ + ": " + str(e)[:100]
    after = global_state_fingerprint()
    if s is not None:
        try:
            RETAINED.append((s, np.array(values(s), copy=True), type(dist).__name__ + f" N={N}"))
        except Exception:
            pass
    snap1 = snapshot(dist)
    for k, v in snap0.items():
        if k in snap1 and v is not None and not (snap1[k] == v or (v != v and snap1[k] != snap1[k])):   # None -> value: a lazily filled cache
            MUTATIONS.append((type(dist).__name__, k, N, repr(dist)[:80]))
    return s, err, before == after


def shape_token(cuqi, s):
    """canonical description of what sample() returned, in the vocabulary of the model"""
    from cuqi.samples import Samples
    from cuqi.array import CUQIarray
    if isinstance(s, Samples):
        a = np.asarray(s.samples)
        if a.ndim == 1:
            return f"samples1 {a.shape[0]}"
        if a.ndim == 2:
            return f"samples2 {a.shape[0]} {a.shape[1]}"
        return f"samples-nd {a.shape}"
    if isinstance(s, CUQIarray):
        if s.ndim == 0:
            return "scalar"
        if s.ndim == 1:
            return f"array {s.shape[0]}"
        return f"array-nd {s.shape}"
    return "other " + type(s).__name__


def wrap_oracle(cuqi, dist, N, s):
    """property: one draw -> array with the distribution's geometry (dim entries); several draws ->
    sample collection with one column per draw.  Returns a list of (demanded, got) failures."""
    from cuqi.samples import Samples
    from cuqi.array import CUQIarray
    out = []
    dim = int(dist.dim)
    if N == 1:
        if not isinstance(s, CUQIarray):
            out.append(("CUQIarray for N=1", type(s).__name__))
        else:
            if int(np.asarray(s).size) != dim:
                out.append((f"{dim} entries (the distribution's dimension)", f"{int(np.asarray(s).size)} entries"))
            if s.geometry is not dist.geometry and s.geometry != dist.geometry:
                out.append(("the distribution's geometry", repr(s.geometry)))
            if s.is_par is not True:
                out.append(("parameter array", "is_par False"))
    else:
        if not isinstance(s, Samples):
            out.append(("Samples for N>1", type(s).__name__))
        else:
            a = np.asarray(s.samples)
            if s.Ns != N or a.shape[-1] != N:
                out.append((f"{N} columns", f"shape {a.shape}"))
            elif int(np.prod(a.shape[:-1])) != dim:
                out.append((f"{dim} parameters per column", f"shape {a.shape}"))
            if s.geometry is not dist.geometry and s.geometry != dist.geometry:
                out.append(("the distribution's geometry", repr(s.geometry)))
    return out


def values(s, dim=None):
    """(dim, N) float array of the numbers returned"""
    a = np.asarray(s.samples if hasattr(s, "samples") else s, dtype=float)
    if a.ndim == 0:
        return a.reshape(1, 1)
    if a.ndim == 1:
        if hasattr(s, "samples"):
            return a.reshape(1, -1)
        return a.reshape(-1, 1)
    return a


# ----------------------------------------------------------------------------- density probes (oracle)
def logpdf1(dist, x):
    with quiet():
        try:
            v = dist.logpdf(np.asarray(x, dtype=float))
        except NotImplementedError:
            # sparse full matrices without cholmod: only the un-normalised log-density is reported
            v = dist._logupdf(np.asarray(x, dtype=float))
    return float(np.asarray(v, dtype=float).ravel()[0])


def hessian_from_logpdf(dist, center, h=1.0):
    """-Hessian of logpdf by exact second differences (exact for quadratic log-densities)"""
    n = len(center)
    c = np.asarray(center, dtype=float)
    f0 = logpdf1(dist, c)
    fi = []
    E = np.eye(n) * h
    for i in range(n):
        fi.append(logpdf1(dist, c + E[i]))
    H = np.zeros((n, n))
    fm = [logpdf1(dist, c - E[i]) for i in range(n)]
    for i in range(n):
        H[i, i] = -(fi[i] - 2 * f0 + fm[i]) / h ** 2
        for j in range(i):
            fij = logpdf1(dist, c + E[i] + E[j])
            H[i, j] = H[j, i] = -(fij - fi[i] - fi[j] + f0) / h ** 2
    grad = np.array([(fi[i] - fm[i]) / (2 * h) for i in range(n)])
    return H, grad


def affinity_check(dist, offset, B, key, desc, ctx, tol):
    """a draw must be an AFFINE function of the normal block: for random non-integer dyadic xi (several columns, one
    call) the draws must be offset + B xi, with (offset, B) read off from xi = 0, e_1, …"""
    target = getattr(dist, "L", dist)          # _LogVar wraps a Lognormal: compare in log space
    logspace = hasattr(dist, "L")
    rsx = np.random.RandomState(B.shape[1] * 7919 + 13)
    blocks = []

    def plan(method, shape, k):
        if method not in ("randn", "standard_normal") or len(shape) != 2:
            return None
        z = (2 * rsx.randint(-12, 12, size=shape) + 1) / 8.0      # odd multiples of 1/8: never integers
        blocks.append(z)
        return z
    rng = Script(plan)
    s, err, _ = call_sample(target, 3, rng)
    if err is not None or not blocks or rng.leaked():
        return 0
    Z = np.vstack(blocks)
    if Z.shape != (B.shape[1], 3):
        return 0
    X = values(s)
    if logspace:
        if not np.all(X > 0):
            return 0
        X = np.log(X)
    pred = offset[:, None] + B @ Z
    if X.shape != pred.shape or not np.allclose(X, pred, rtol=tol, atol=tol * max(1.0, float(np.abs(pred).max()))):
        ctx.fail(key, desc, "draws are an affine function of the normal block: sample(xi) = sample(0) + B xi for non-integer xi",
                 {"xi": Z.tolist()[:6], "draws": X.tolist()[:6], "affine_prediction": pred.tolist()[:6]},
                 "the normal block is altered (truncated / cast / partly ignored) before it is used")
        return 1
    return 0


def affine_oracle(dist, offset, B, key, desc, ctx, singular=False, tol=1e-7, Hfallback=None, h=1.0):
    """the affine map xi -> offset + B xi has mean `offset` and covariance B Bᵀ; the log-density of the
    same object is quadratic with Hessian -H and stationary point m: demand grad logpdf(offset) = 0 and
    (B Bᵀ) H = I  (singular H: H (B Bᵀ) H = H)."""
    n = len(offset)
    H, g = hessian_from_logpdf(dist, offset, h)
    fails = affinity_check(dist, offset, B, key, desc, ctx, max(tol, 1e-9) if not singular else 1e-6)
    if not np.all(np.isfinite(H)) and hasattr(dist, "_logupdf"):
        # e.g. DIA-stored sqrtprec with bands: the normalising constant is computed from the raw DIA data (padding
        # zeros -> log 0); the un-normalised log-density is still what the object reports for the shape of the law
        class _U:
            def __init__(self, d): self.d = d
            def logpdf(self, x): return self.d._logupdf(x)
        H, g = hessian_from_logpdf(_U(dist), offset, h)
        ctx.extra_cov["oracle_used_unnormalised_density"] = ctx.extra_cov.get("oracle_used_unnormalised_density", 0) + 1
    if not np.all(np.isfinite(H)):
        if Hfallback is None:
            ctx.note(f"log-density not finite around the offset at {desc}; covariance oracle skipped")
            return 0
        H = Hfallback
        g = np.zeros(n)
        ctx.extra_cov.setdefault("oracle_density_nonfinite", 0)
        ctx.extra_cov["oracle_density_nonfinite"] += 1
    # work in units of the probing step (h = 1 unless the matrix was scaled): H h², C / h², g h are dimensionless
    H, g, B = H * h * h, g * h, B / h
    scale = max(1.0, float(np.abs(H).max()))
    if np.abs(g).max() > tol * scale * max(1.0, float(np.abs(offset / h).max())):
        ctx.fail(key, desc, "gradient of the object's log-density vanishes at the mean of the draws (draw at xi = 0)",
                 {"offset": offset.tolist()[:8], "grad_logpdf_at_offset": g.tolist()[:8]},
                 "mean of the draws is not the mean implied by the log-density")
        fails += 1
    C = B @ B.T
    if singular:
        lhs, rhs = H @ C @ H, H
    else:
        lhs, rhs = C @ H, np.eye(n)
    err = float(np.abs(lhs - rhs).max())
    if err > tol * max(1.0, float(np.abs(rhs).max()), float(np.abs(lhs).max())):
        ctx.fail(key, desc, "cov(draws) = inverse of the precision implied by the log-density" + (" (on the range of the precision)" if singular else ""),
                 {"max_abs_error": err, "cov_draws_diag": np.diag(C).tolist()[:8],
                  "cov_density_diag": (np.diag(np.linalg.pinv(H)).tolist()[:8])},
                 "covariance of the draws differs from the covariance implied by the log-density")
        fails += 1
    return fails


# ----------------------------------------------------------------------------- Gaussian generators
def rint(rs, lo, hi, size=None):
    return rs.randint(lo, hi + 1, size=size)


def gen_matrix(rs, kind, n):
    """small-integer / dyadic square-root matrices with non-zero diagonal"""
    d = rs.choice([1.0, 2.0, 4.0, 0.5, -1.0, -2.0], size=n)
    if kind == "diag":
        return np.diag(d)
    off = rint(rs, -2, 2, size=(n, n)).astype(float)
    if kind == "lower":
        M = np.tril(off, -1) + np.diag(d)
        if n >= 2 and not np.any(np.tril(M, -1)):
            M[n - 1, 0] = 1.0
        return M
    if kind == "upper":
        M = np.triu(off, 1) + np.diag(d)
        if n >= 2 and not np.any(np.triu(M, 1)):
            M[0, n - 1] = 1.0
        return M
    if kind == "lowerbi":
        M = np.diag(d)
        for i in range(1, n):
            M[i, i - 1] = float(rs.choice([-1.0, 1.0, 0.5]))
        return M
    if kind == "upperbi":
        M = np.diag(d)
        for i in range(n - 1):
            M[i, i + 1] = float(rs.choice([-1.0, 1.0, 0.5]))
        return M
    if kind == "tridiag":
        M = np.diag(4.0 * np.sign(d))
        for i in range(n - 1):
            M[i, i + 1] = float(rs.choice([-1.0, 1.0, 0.5]))
            M[i + 1, i] = float(rs.choice([-1.0, 1.0, 0.5, 2.0]))
        return M
    # full non-symmetric, diagonally dominant (invertible)
    M = off.copy()
    for i in range(n):
        M[i, i] = (np.abs(off[i]).sum() + 1.0) * (1.0 if rs.rand() < 0.7 else -1.0)
    if n >= 2 and np.allclose(M, M.T):
        M[0, 1] += 1.0
    return M


def to_model_R(ctx, R):
    return qm(dense(R).tolist())


def run_gaussian(ctx, cuqi, thorough):
    import scipy.sparse as sp
    from cuqi.distribution import Gaussian, Lognormal
    rs = np.random.RandomState(ctx.seed + 501)
    cases = []
    ncase = (110 if ctx.scale == 1 else 160 * ctx.scale)
    kinds_full = ["lower", "upper", "full", "lowerbi", "upperbi"]
    for k in range(ncase):
        r = rs.rand()
        if r < 0.05:
            n = int(rs.choice([74, 75, 76, 77, 80]))          # across the dense/sparse switch (MIN_DIM_SPARSE = 75)
        elif r < 0.2:
            n = 1
        else:
            n = int(rint(rs, 2, 7))
        form = ["cov", "prec", "sqrtcov", "sqrtprec"][k % 4]
        shape_kind = rs.choice(["scalar", "vector", "diag2d", "full", "full", "full"]) if n > 1 else rs.choice(["scalar", "vector", "diag2d"])
        sparse_in = bool(rs.rand() < 0.3) and shape_kind in ("diag2d", "full")
        mkind = rs.choice(["scalar", "vector", "zero"])
        cases.append((n, form, str(shape_kind), sparse_in, str(mkind), None))
    # DESIGN §5 #9 (repaired in /repo): lower-triangular non-diagonal sqrtprec, always present, dense
    for n in (2, 3, 5, 8):
        for _ in range(3):
            cases.append((n, "sqrtprec", "lower!", False, "vector", None))
    cases.append((76, "sqrtprec", "lowerbi!", False, "vector", None))
    cases.append((76, "sqrtprec", "lowerbi!", True, "vector", None))
    # sparse square roots / covariances / precisions in EVERY scipy storage format, with off-diagonal bands,
    # on both sides of the dense/sparse switch (the docstring example `diags([1,-1],[0,1])` is DIA + upper bidiagonal)
    SPARSE_FORMATS = ["dia", "csr", "csc", "coo", "bsr", "lil", "dok"]
    bands = ["upperbi", "lowerbi", "tridiag", "full"]
    for fmt in SPARSE_FORMATS:
        cases.append((int(rint(rs, 3, 6)), "sqrtprec", "upperbi!", True, "vector", fmt))
        if thorough or fmt in ("dia", "csr", "coo"):
            cases.append((int(rs.choice([74, 76, 78])), "sqrtprec", str(rs.choice(["upperbi", "tridiag"])) + "!", True, "vector", fmt))
        for _ in range(3 * ctx.scale):
            cases.append((int(rint(rs, 2, 6)), str(rs.choice(["sqrtprec", "sqrtcov", "cov", "prec"])),
                          str(rs.choice(bands)) + "!", True, str(rs.choice(["vector", "scalar"])), fmt))
        if thorough:
            for form_ in ("sqrtcov", "cov", "prec"):
                cases.append((int(rs.choice([74, 76])), form_, "lowerbi!", True, "vector", fmt))

    lines, metas = [], []
    for (n, form, shape_kind, sparse_in, mkind, fmt_forced) in cases:
        big = n > 20
        squares = [0.25, 1.0, 4.0, 16.0, 0.0625]
        if mkind == "scalar":
            mean = float(rint(rs, -3, 3))
        elif mkind == "zero":
            mean = np.zeros(n)
        else:
            mean = rint(rs, -3, 3, size=n).astype(float)
        sub = None
        if shape_kind == "scalar":
            val = float(rs.choice(squares)) if form in ("cov", "prec") else float(rs.choice([0.5, 1.0, 2.0, 4.0, -2.0]))
            param = val
        elif shape_kind in ("vector", "diag2d"):
            v = rs.choice(squares, size=n) if form in ("cov", "prec") else rs.choice([0.5, 1.0, 2.0, 4.0, -2.0], size=n)
            if n == 1 and shape_kind == "vector":
                param = np.array([float(v[0])])
            else:
                param = np.array(v, dtype=float) if shape_kind == "vector" else np.diag(np.array(v, dtype=float))
            val = np.array(v, dtype=float)
        else:
            if shape_kind.endswith("!"):
                sub = shape_kind[:-1]
            elif big:
                sub = str(rs.choice(["lowerbi", "upperbi"]))
            else:
                sub = str(rs.choice(kinds_full))
            M = gen_matrix(rs, sub, n)
            if form in ("cov", "prec"):
                # symmetric positive definite with small integer entries
                param = M @ M.T
            else:
                param = M
            val = None
        if sparse_in and not np.isscalar(param) and np.ndim(param) == 2:
            fmt = fmt_forced or (rs.choice(["csr", "csc", "dia"]) if shape_kind == "diag2d" else rs.choice(["csr", "csc", "dia", "coo"]))
            param_obj = sp.csr_matrix(param).asformat(str(fmt))
        else:
            param_obj = param
            sparse_in = False
            fmt = None
        desc = {"family": "Gaussian", "dim": n, "form": form, "value": shape_kind if sub is None else f"full:{sub}",
                "sparse_input": (str(fmt) if sparse_in else False), "mean": mkind,
                "param": (np.asarray(param).tolist() if n <= 8 else "…"), "mean_value": (np.asarray(mean).tolist() if n <= 8 else "…")}
        key = f"Gaussian:{form}:{shape_kind.rstrip('!') if sub is None else sub}:{('sparse-' + str(fmt)) if sparse_in else 'dense-in'}"
        try:
            with quiet():
                G = Gaussian(mean, **{form: param_obj})
                n_dim = int(G.dim)
        except Exception as e:  # constructor refuses: a refusal is not a wrong sample
            ctx.note(f"Gaussian constructor refused {key} dim {n}: {type(e).__name__}")
            ctx.case("gaussian-refused", desc, nontrivial=False)
            continue
        dim_mismatch = False
        if n_dim != n and np.ndim(param) == 2:
            # the matrix parameter fixes the dimension; the object reports another one (DOK storage: len() is nnz)
            dim_mismatch = True
            ctx.fail(f"Gaussian:{fmt}-input:dim", desc, f"dim = {n} (rows of the {n}x{n} matrix parameter); draws carry the distribution's geometry",
                     f"dim = {n_dim}", "dimension / geometry of the distribution is not that of its matrix parameter")
        elif n_dim != n:
            # scalar parameters and scalar mean: dim is 1
            n = n_dim
            desc["dim"] = n
        R_impl = G.sqrtprec
        is_sparse = bool(sp.issparse(R_impl))
        Rd = dense(R_impl)
        # read-off call
        rng = Script(unit_plan(n))
        s, err, untouched = call_sample(G, n + 1, rng)
        meta = dict(key=key, desc=desc, G=G, n=n, form=form, shape_kind=shape_kind, sub=sub, val=val, param=param,
                    Rd=Rd, is_sparse=is_sparse, s=s, err=err, untouched=untouched, calls=rng.calls, mean=mean, dim_mismatch=dim_mismatch)
        # model lines: 1) diagonal forms: the stored sqrtprec from the parameter; 2) the draw itself
        if val is not None:
            lines.append(f"dform {form} {n} {qv(np.atleast_1d(val).tolist())}")
        else:
            lines.append("noop")
        cols = np.hstack([np.zeros((n, 1)), np.eye(n)]).T
        colsel = list(range(n + 1)) if n <= 20 else [0, 1, n // 2, n]   # model evaluated on these columns of the same call
        meta["colsel"] = colsel
        cols = cols[colsel]
        meta["leaf_R"] = val is None and form != "sqrtprec"
        meta["cert_only"] = meta["leaf_R"] and n > 20     # float-valued dense 76x76 factor: exact elimination too slow
        if meta["cert_only"]:
            lines.append("noop")
        else:
            lines.append(f"gauss {1 if is_sparse else 0} {qv(np.atleast_1d(np.asarray(mean, dtype=float)).tolist())} {qm(Rd.tolist())} {qm(cols.tolist())}")
        metas.append(meta)
    outs = ctx.lean.drive(lines)
    solver_hist = {}
    for i, m in enumerate(metas):
        o_form, o_gauss = outs[2 * i], outs[2 * i + 1]
        key, desc, G, n = m["key"], m["desc"], m["G"], m["n"]
        ctx.case("gaussian-affine", desc)
        bad = False
        if not m["untouched"]:
            ctx.fail(key + ":global-state", desc, "global numpy random state untouched when rng is given", "changed")
        # (1) stored sqrtprec of diagonal forms
        if m["val"] is not None:
            if o_form in ("irr", "err-shape", "bad-op"):
                ctx.note(f"dform not exact for {desc}: {o_form}")
            else:
                r_model = [float(x) for x in pv(o_form.split()[0])]
                p_model = np.array([float(x) for x in pv(o_form.split()[1])])
                if not (np.count_nonzero(m["Rd"] - np.diag(np.diag(m["Rd"]))) == 0 and vclose(np.diag(m["Rd"]), r_model, 1e-12)):
                    ctx.disagree(key, desc, r_model[:8], np.diag(m["Rd"]).tolist()[:8], "stored sqrtprec of a scalar/vector/diagonal parameter")
                    bad = True
        # (2) the draws
        if m["cert_only"] and m["err"] is None:
            Si = values(m["s"])
            offset = Si[:, 0].copy(); B = Si[:, 1:] - offset[:, None]
            mu = np.broadcast_to(np.atleast_1d(np.asarray(m["mean"], dtype=float)), (n,))
            if not (vclose(offset, mu, 1e-9) and mclose((m["Rd"] @ B).tolist(), np.eye(n).tolist(), 1e-7)):
                ctx.disagree(key, desc, "mean + p with sqrtprec p = e", "differs", "defining relation of the perturbation (large dense factor)")
            affine_oracle(G, offset, B, key, desc, ctx)
            ctx.extra_cov["gaussian_cert_only"] = ctx.extra_cov.get("gaussian_cert_only", 0) + 1
            continue
        if m["err"] is not None or o_gauss.startswith("err") or o_gauss == "bad-op":
            if (m["err"] is not None) != (o_gauss == "err"):
                ctx.disagree(key, desc, o_gauss[:80], m["err"], "refusal differs")
                if m["err"] is not None:
                    ctx.fail(key, desc, "a sample", m["err"], "sampling raises for a valid parameterisation")
            continue
        solver, S = o_gauss.split(" ", 1)
        solver_hist[solver] = solver_hist.get(solver, 0) + 1
        Sm = np.array([[float(x) for x in row] for row in pm(S)]).T      # (n, n+1)
        Si = values(m["s"])
        Sm_full = Sm
        calls_ok = len(m["calls"]) == 1 and m["calls"][0][0] == "randn" and m["calls"][0][2] == (n, n + 1)
        if not calls_ok:
            ctx.disagree(key, desc, f"one call randn({n},{n + 1})", str(m["calls"])[:200], "generator calls")
            bad = True
        if Si.shape != (n, n + 1) or not mclose(Si[:, m["colsel"]].tolist(), Sm.tolist(), 1e-9):
            ctx.disagree(key, desc, Sm.tolist() if n <= 8 else "…", Si.tolist() if n <= 8 else "…", "draws for xi = 0, e_1..e_n")
            bad = True
        # oracle on the implementation alone
        if Si.shape == (n, n + 1):
            offset = Si[:, 0].copy()
            B = Si[:, 1:] - offset[:, None]
            nf = affine_oracle(G, offset, B, key, desc, ctx) if (n <= 8 or i % 3 == 0 or bad) else 0
            if bad and nf == 0:
                # look near the case: same object, other draws
                pass
        for d, g in ([] if m["dim_mismatch"] else wrap_oracle(cuqi, G, n + 1, m["s"])):
            ctx.fail(key + ":wrap", desc, d, g, "wrapping of several draws")
    ctx.extra_cov["gaussian_solver_hist"] = solver_hist


# ----------------------------------------------------------------------------- entry point
def run(ctx):
    cuqi = import_cuqi()
    thorough = ctx.tier == "thorough"
    ctx.trusted += ["numpy/scipy generator laws (documented densities of RandomState.normal/gamma/beta/laplace/uniform/standard_cauchy)",
                    "scipy.linalg.solve / solve_triangular / spsolve enter through the relation R p = e (checked exactly on the model side)"]
    ctx.assumptions += ["IEEE arithmetic modelled by exact rationals; float results compared to 1e-9 (relative+absolute)",
                        "quadratic log-densities are probed by second differences at integer offsets (exact up to rounding)"]
    run_gaussian(ctx, cuqi, thorough)


# ============================================================================= part 2
import struct


def fl(tok):
    """decode a driver value token (`q:n/d` exact or `f:<bits>` double)"""
    if tok in ("-inf", "inf", "nan"):
        return float(tok)
    if tok.startswith("q:"):
        return float(Fraction(tok[2:]))
    if tok.startswith("f:"):
        return struct.unpack("<d", struct.pack("<Q", int(tok[2:])))[0]
    raise ValueError(tok)


# ----------------------------------------------------------------------------- GMRF
def run_gmrf(ctx, cuqi, thorough):
    from cuqi.distribution import GMRF
    from cuqi.geometry import Image2D
    from scipy.linalg import dft
    rs = np.random.RandomState(ctx.seed + 502)
    cfgs = []
    n1 = range(2, 13) if thorough else range(2, 9)
    for order in (0, 1, 2):
        for bc in ("zero", "neumann", "periodic"):
            for n in n1:
                cfgs.append((1, order, bc, n))
            if bc != "periodic":
                for n in ((2, 3, 4) if thorough else (2, 3)):
                    cfgs.append((2, order, bc, n))
    cfgs.append((2, 1, "periodic", 3))
    lines, metas = [], []
    for (pd, order, bc, n) in cfgs:
        dim = n if pd == 1 else n * n
        prec = float(rs.choice([0.25, 1.0, 4.0, 16.0]))
        mean = rint(rs, -3, 3, size=dim).astype(float)
        desc = {"family": "GMRF", "physical_dim": pd, "order": order, "bc": bc, "n": n, "prec": prec, "mean": mean.tolist()}
        key = f"GMRF:{bc}:{pd}D:order{order}"
        try:
            with quiet():
                G = GMRF(mean, prec, bc_type=bc, order=order, **({} if pd == 1 else {"geometry": Image2D((n, n))}))
        except Exception as e:
            ctx.case("gmrf-refused", desc, nontrivial=False)
            ctx.note(f"GMRF constructor refused {key} n={n}: {type(e).__name__}")
            continue
        c = 1.0 / np.sqrt(prec)
        rows = int(G._diff_op.shape[0]) if bc == "neumann" else dim
        if rows == 0:
            ctx.case("gmrf-degenerate", desc, nontrivial=False)   # difference operator without rows (n too small for the order)
            continue
        if bc == "periodic":
            def plan(method, shape, k, rows=rows):
                Z = np.zeros((rows, 2 * rows + 1))
                if k == 0:
                    Z[:, 1:rows + 1] = np.eye(rows)
                else:
                    Z[:, rows + 1:] = np.eye(rows)
                return Z
            N = 2 * rows + 1
        else:
            plan = unit_plan(rows)
            N = rows + 1
        rng = Script(plan)
        s, err, untouched = call_sample(G, N, rng)
        m = dict(key=key, desc=desc, G=G, dim=dim, rows=rows, N=N, s=s, err=err, untouched=untouched, calls=rng.calls, bc=bc,
                 pd=pd, order=order, n=n, prec=prec, mean=mean, c=c)
        if err is not None:
            lines.append("noop")
        elif bc == "zero":
            U = dense(G._chol.T)
            cols = np.hstack([np.zeros((rows, 1)), np.eye(rows)]).T
            lines.append(f"gmrfz {qv(mean.tolist())} {q(c)} {qm(U.tolist())} {order} {n} {pd} {qm(cols.tolist())}")
        elif bc == "neumann":
            cols = np.hstack([np.zeros((rows, 1)), np.eye(rows)]).T
            lines.append(f"gmrfn {qv(mean.tolist())} {q(c)} {order} {n} {pd} {qm(cols.tolist())}")
        else:
            F = dft(dim, scale="sqrtn")
            eigv = np.hstack([G._L_eigval, G._L_eigval[-1]])
            sq = np.sqrt(eigv)
            A = np.hstack([np.zeros((rows, 1)), np.eye(rows), np.zeros((rows, rows))]).T
            Bc = np.hstack([np.zeros((rows, 1)), np.zeros((rows, rows)), np.eye(rows)]).T
            lines.append(f"gmrfp {qv(mean.tolist())} {q(c)} {qm(F.real.tolist())} {qm(F.imag.tolist())} {qv(sq.tolist())} {qm(A.tolist())} {qm(Bc.tolist())}")
        lines.append(f"gmrfP {order} {bc} {n} {pd}")
        metas.append(m)
    outs = ctx.lean.drive(lines)
    for i, m in enumerate(metas):
        out, outP = outs[2 * i], outs[2 * i + 1]
        key, desc, G, dim, rows, N = m["key"], m["desc"], m["G"], m["dim"], m["rows"], m["N"]
        ctx.case("gmrf-affine", desc)
        if not m["untouched"]:
            ctx.fail(key + ":global-state", desc, "global numpy random state untouched when rng is given", "changed")
        if m["err"] is not None:
            if m["bc"] == "periodic" and m["pd"] == 2 and "NotImplementedError" in m["err"]:
                ctx.case("gmrf-periodic2d-refuses", desc, nontrivial=False)   # explicit refusal, not a wrong draw
            else:
                ctx.disagree(key, desc, "a sample", m["err"], "sampling raises")
                ctx.fail(key, desc, "a sample", m["err"], "sampling raises for a supported boundary condition")
            continue
        Si = values(m["s"])
        bad = False
        want_calls = 2 if m["bc"] == "periodic" else 1
        if len(m["calls"]) != want_calls or any(c[0] != "standard_normal" or c[2] != (rows, N) for c in m["calls"]):
            ctx.disagree(key, desc, f"{want_calls} x standard_normal(({rows},{N}))", str(m["calls"])[:200], "generator calls")
            bad = True
        if m["bc"] == "neumann" and out not in ("err", "bad-op", "err-shape"):
            r, out = out.split(" ", 1)
            if int(r) != rows:
                ctx.disagree(key, desc, int(r), rows, "number of rows of the difference operator")
                bad = True
        if out in ("err", "bad-op", "err-shape", "cert-fail"):
            ctx.disagree(key, desc, out, "a sample", "model refuses / certificate UᵀU = P fails")
            bad = True
            Sm = None
        else:
            Sm = np.array([[float(x) for x in row] for row in pm(out)]).T
            tol = 1e-9 if m["bc"] != "neumann" else 1e-6
            if Si.shape != Sm.shape or not mclose(Si.tolist(), Sm.tolist(), tol):
                ctx.disagree(key, desc, Sm.tolist() if dim <= 9 else "…", Si.tolist() if dim <= 9 else "…", "draws for unit normal vectors")
                bad = True
        # oracle: covariance of the draws vs the log-density of the same object
        if Si.shape == (dim, N):
            offset = Si[:, 0].copy()
            B = Si[:, 1:] - offset[:, None]
            P = np.array([[float(x) for x in row] for row in pm(outP)])
            singular = m["bc"] != "zero"
            okey = key if m["bc"] != "periodic" else key + ":cov"
            nf = affine_oracle(G, offset, B, okey, desc, ctx, singular=singular, tol=1e-6 if singular else 1e-7,
                               Hfallback=m["prec"] * P)
            if bad and nf == 0 and m["bc"] == "periodic":
                ctx.fail(key, desc, "model = implementation", "differs", "periodic construction changed")
        for d, g in wrap_oracle(cuqi, G, N, m["s"]):
            ctx.fail(key + ":wrap", desc, d, g, "wrapping of several draws")


# ----------------------------------------------------------------------------- wrapping / refusal / determinism
def family_zoo(cuqi, rs):
    """(model family name, constructor thunk, dim) for every samplable family, small dims"""
    from cuqi.distribution import (Gaussian, Lognormal, Normal, Gamma, InverseGamma, Beta, Laplace, Uniform, Cauchy,
                                   ModifiedHalfNormal, GMRF)
    from cuqi.geometry import Continuous1D, Discrete
    out = []
    for dim in (1, 2, 3, 5):
        vec = lambda lo=1, hi=4: rint(rs, lo, hi, size=dim).astype(float)  # noqa
        out.append(("gaussian", lambda v=vec(), d=dim: Gaussian(np.zeros(d), cov=v), dim))
        out.append(("gaussian", lambda d=dim: Gaussian(np.arange(d, dtype=float), sqrtprec=gen_matrix(rs, "lower" if d > 1 else "diag", d),
                                                     geometry=Continuous1D(d)), dim))
        out.append(("lognormal", lambda v=vec(), d=dim: Lognormal(np.zeros(d), v), dim))
        out.append(("normal", lambda v=vec(), d=dim: Normal(np.arange(d, dtype=float) if d > 1 else 1.0, v if d > 1 else 2.0), dim))
        out.append(("gamma", lambda v=vec(), d=dim: Gamma(v if d > 1 else 2.0, 2.0), dim))
        out.append(("invgamma", lambda v=vec(2, 5), d=dim: InverseGamma(v if d > 1 else 3.0, 0.0, 2.0), dim))
        out.append(("beta", lambda v=vec(), d=dim: Beta(v if d > 1 else 2.0, 3.0), dim))
        out.append(("laplace", lambda v=vec(), d=dim: Laplace(np.arange(d, dtype=float) if d > 1 else 1.0, 2.0), dim))
        out.append(("uniform", lambda v=vec(), d=dim: Uniform(np.zeros(d) if d > 1 else 0.0, v if d > 1 else 2.0), dim))
        out.append(("cauchy", lambda v=vec(), d=dim: Cauchy(np.arange(d, dtype=float) if d > 1 else 1.0, v if d > 1 else 2.0), dim))
        if dim > 1:
            for bc, fam in (("zero", "gmrfZero"), ("neumann", "gmrfNeumann"), ("periodic", "gmrfPeriodic")):
                for order in (1, 2):
                    if order == 2 and dim < 3:
                        continue
                    out.append((fam, lambda d=dim, bc=bc, o=order: GMRF(np.zeros(d), 4.0, bc_type=bc, order=o), dim))
    out.append(("mhn", lambda: ModifiedHalfNormal(2.0, 3.0, 1.0), 1))
    out.append(("mhn", lambda: ModifiedHalfNormal(0.5, 1.0, -1.0), 1))
    return out


def generator_clause(ctx, fam, D, N, desc):
    """the other kind of numpy generator object, `np.random.Generator` (default_rng): where a family accepts it, the
    draws must be a deterministic function of ITS state, consume it, and leave the global state untouched; a family
    that cannot use it must refuse (raise), never fall back silently to another stream."""
    g1, g2, g3 = np.random.default_rng(2024), np.random.default_rng(2024), np.random.default_rng(7)
    st0 = g1.bit_generator.state
    a, ea, ua = call_sample(D, N, g1)
    b, eb, ub = call_sample(D, N, g2)
    c, ec, uc = call_sample(D, N, g3)
    ctx.case("generator-object", {**desc, "rng": "np.random.default_rng"}, nontrivial=False)
    if ea is not None:
        return                                   # refusal (e.g. Gaussian: Generator has no randn)
    key = f"rng:{fam}:Generator"
    d2 = {**desc, "rng": "np.random.default_rng(2024)"}
    if not (ua and ub and uc):
        ctx.fail(key, d2, "global numpy random state untouched when a Generator is given", "changed", "the given Generator is silently replaced by the global stream")
    if eb is not None or not np.array_equal(values(a), values(b)):
        ctx.fail(key, d2, "identically seeded Generators give identical draws", {"first": values(a).tolist()[:3], "second": (values(b).tolist()[:3] if eb is None else eb)},
                 "draws are not a function of the given Generator's state")
    if ec is None and np.array_equal(values(a), values(c)):
        ctx.fail(key, d2, "differently seeded Generators give different draws", "identical", "the given Generator is not used")
    if g1.bit_generator.state == st0:
        ctx.fail(key, d2, "the given Generator is advanced", "state unchanged", "the given Generator is not used")


def run_wrap(ctx, cuqi, thorough):
    rs = np.random.RandomState(ctx.seed + 503)
    zoo = family_zoo(cuqi, rs)
    lines, metas = [], []
    Ns = [1, 2, 3] if not thorough else [1, 2, 3, 4, 7, 10, 25]
    for fam, mk, dim in zoo:
        try:
            with quiet():
                D = mk()
        except Exception as e:
            ctx.note(f"zoo constructor refused {fam} dim {dim}: {type(e).__name__}: {str(e)[:60]}")
            continue
        for N in Ns:
            # a real generator: determinism (same state -> same draws), global state untouched
            seed = int(rs.randint(0, 2 ** 31 - 1))
            s1, e1, u1 = call_sample(D, N, np.random.RandomState(seed))
            s2, e2, u2 = call_sample(D, N, np.random.RandomState(seed))
            s3, e3, u3 = call_sample(D, N, np.random.RandomState(seed + 1))
            lines.append(f"shape {fam} 0 {dim} {N}")
            metas.append(dict(fam=fam, D=D, dim=dim, N=N, s=(s1, s2, s3), e=(e1, e2, e3), u=(u1 and u2 and u3)))
    outs = ctx.lean.drive(lines)
    for m, out in zip(metas, outs):
        fam, D, dim, N = m["fam"], m["D"], m["dim"], m["N"]
        desc = {"family": fam, "dim": dim, "N": N, "object": repr(D)[:80]}
        key = f"wrap:{fam}:{'N1' if N == 1 else 'N>1'}"
        ctx.case("wrap", desc)
        s1, s2, s3 = m["s"]
        if m["e"][0] is not None:
            ctx.disagree(key, desc, out, m["e"][0], "sampling raises")
            ctx.fail(key, desc, "a sample", m["e"][0], "sampling raises")
            continue
        tok = shape_token(cuqi, s1)
        if tok != out:
            ctx.disagree(key, desc, out, tok, "type/shape of what sample() returns")
        for d, g in wrap_oracle(cuqi, D, N, s1):
            ctx.fail(key, desc, d, g, "one draw must be an array with the distribution's geometry, several draws one column per draw")
        if not m["u"]:
            ctx.fail(f"rng:{fam}:global-state", desc, "global numpy random state untouched when rng is given", "changed")
        v1, v2, v3 = values(s1), values(s2), values(s3)
        if v1.shape != v2.shape or not np.array_equal(v1, v2):
            ctx.fail(f"rng:{fam}:deterministic", desc, "same generator state -> same draws", "draws differ")
        if v1.shape == v3.shape and np.array_equal(v1, v3):
            ctx.fail(f"rng:{fam}:uses-rng", desc, "different generator state -> different draws", "identical draws (the given generator is not used)")
        generator_clause(ctx, fam, D, N, desc)
    # global-stream path: rng=None must consume the global generator (sanity, restores the state)
    st = np.random.get_state()
    try:
        for fam, mk, dim in zoo[:12]:
            with quiet():
                D = mk()
                np.random.seed(7); a = values(D.sample(2))
                np.random.seed(7); b = values(D.sample(2))
            ctx.case("global-stream", {"family": fam, "dim": dim}, nontrivial=False)
            if not np.array_equal(a, b):
                ctx.fail(f"rng:{fam}:global-deterministic", {"family": fam}, "same global seed -> same draws", "differ")
    finally:
        np.random.set_state(st)


def run_cond(ctx, cuqi, thorough):
    from cuqi.distribution import Gaussian, Normal, Gamma, Laplace, Uniform, Cauchy, Beta, InverseGamma, Lognormal, GMRF
    mk = [
        ("gaussian", lambda: Gaussian(lambda z: z * np.ones(2), 1.0, geometry=2), {"z": 1.0}),
        ("gaussian", lambda: Gaussian(np.zeros(2), cov=lambda s: s, geometry=2), {"s": 4.0}),
        ("gaussian", lambda: Gaussian(np.zeros(2), prec=lambda d: d, geometry=2), {"d": 4.0}),
        ("gaussian", lambda: Gaussian(lambda a, b: (a + b) * np.ones(2), 1.0, geometry=2), {"a": 1.0, "b": 2.0}),
        ("normal", lambda: Normal(lambda m: m, 1.0), {"m": 2.0}),
        ("normal", lambda: Normal(0.0, lambda s: s), {"s": 2.0}),
        ("gamma", lambda: Gamma(2.0, lambda r: r), {"r": 2.0}),
        ("laplace", lambda: Laplace(lambda l: l, 1.0), {"l": 2.0}),
        ("uniform", lambda: Uniform(0.0, lambda h: h), {"h": 2.0}),
        ("cauchy", lambda: Cauchy(lambda l: l, 1.0), {"l": 2.0}),
        ("beta", lambda: Beta(lambda a: a, 2.0), {"a": 2.0}),
        ("invgamma", lambda: InverseGamma(lambda a: a, 0.0, 1.0), {"a": 3.0}),
        ("gmrfZero", lambda: GMRF(np.zeros(4), lambda d: d, geometry=4), {"d": 4.0}),
    ]
    lines, metas = [], []
    for fam, f, kw in mk:
        try:
            with quiet():
                D = f()
        except Exception as e:
            ctx.note(f"conditional constructor refused {fam}: {type(e).__name__}")
            continue
        names = list(kw)
        stages = [("none", D)]
        if len(names) > 1:
            with quiet():
                stages.append(("partial", D(**{names[0]: kw[names[0]]})))
        with quiet():
            stages.append(("all", D(**kw)))
        for st, obj in stages:
            for N in (1, 3):
                with quiet():
                    cond = bool(obj.is_cond)
                s, err, unt = call_sample(obj, N, np.random.RandomState(3))
                try:
                    dim = int(obj.dim)
                except Exception:
                    dim = 2
                lines.append(f"shape {fam} {1 if st != 'all' else 0} {dim} {N}")
                metas.append((fam, st, N, s, err, cond, dim))
    outs = ctx.lean.drive(lines)
    for (fam, st, N, s, err, cond, dim), out in zip(metas, outs):
        desc = {"family": fam, "conditioning_given": st, "N": N}
        key = f"cond:{fam}:{st}"
        ctx.case("conditional", desc)
        impl = "refused" if (err is not None and err.startswith("ValueError") and "conditional" in err.lower()) else ("error " + err if err else shape_token(cuqi, s))
        if impl != out:
            ctx.disagree(key, desc, out, impl, "refusal / result of sample() on a (partly) conditional distribution")
        if st != "all" and not impl == "refused":
            ctx.fail(key, desc, "refusal (ValueError naming the missing conditioning variables)", impl,
                     "a conditional distribution must refuse to sample until all conditioning variables are given")
        if st == "all" and err is not None:
            ctx.fail(key, desc, "a sample once all conditioning variables are given", err, "fully conditioned distribution does not sample")


# ----------------------------------------------------------------------------- iid families: plumbing + law
def gen_law(method, args):
    """documented law of a RandomState method (frozen scipy.stats object) — trusted"""
    import scipy.stats as st
    a = [float(np.asarray(x).ravel()[0]) for x in args]
    if method == "normal":
        return st.norm(a[0], a[1])
    if method in ("randn", "standard_normal"):
        return st.norm(0, 1)
    if method == "gamma":
        return st.gamma(a[0], scale=a[1])
    if method == "standard_gamma":
        return st.gamma(a[0])
    if method == "beta":
        return st.beta(a[0], a[1])
    if method == "laplace":
        return st.laplace(a[0], a[1])
    if method == "uniform":
        return st.uniform(a[0], a[1] - a[0])
    if method in ("random_sample", "rand"):
        return st.uniform(0, 1)
    if method == "standard_cauchy":
        return st.cauchy()
    if method == "standard_exponential":
        return st.expon()
    if method == "exponential":
        return st.expon(scale=a[0])
    if method == "lognormal":
        return st.lognorm(s=a[1], scale=math.exp(a[0]))
    if method == "chisquare":
        return st.chi2(a[0])
    if method == "standard_t":
        return st.t(a[0])
    if method == "logistic":
        return st.logistic(a[0], a[1])
    if method == "gumbel":
        return st.gumbel_r(a[0], a[1])
    if method == "rayleigh":
        return st.rayleigh(scale=a[0])
    if method == "weibull":
        return st.weibull_min(a[0])
    if method == "pareto":
        return st.lomax(a[0])
    if method == "power":
        return st.powerlaw(a[0])
    if method == "wald":
        return st.invgauss(mu=a[0] / a[1], scale=a[1])
    if method == "triangular":
        return st.triang(c=(a[1] - a[0]) / (a[2] - a[0]), loc=a[0], scale=a[2] - a[0])
    return None


def law_oracle(ctx, D, key, desc, K=9):
    """Recorded law vs reported density, any dimension (independent components).
    Whatever generator method the code calls is recorded with its arguments; a quantile grid of the *documented law
    of that call* (per component: argument arrays are broadcast) is returned, pushed through sample(), and the
    probability of every quantile cell is compared with the integral of exp(logpdf) of the same object over the
    cell (other coordinates held at their median draw; dim 1: absolute masses 1/K, dim > 1: all cells and both
    tails must carry the same share of the section's total mass)."""
    from scipy.integrate import quad
    us = (np.arange(K) + 0.5) / K
    with quiet():
        dim = int(D.dim)
    assert K != dim
    rec = {"calls": [], "unknown": []}

    def comp_args(args, j):
        out = []
        for x in args:
            v = np.asarray(x, dtype=float).ravel()
            out.append(float(v[j]) if v.size == dim else float(v[0]))
        return out

    class S2(Script):
        def _out(self, method, args, size):
            rec["cur"] = args
            return super()._out(method, args, size)

    def plan(method, shape, k):
        args = rec["cur"]
        rec["calls"].append((method, args, shape))
        if shape == (K, dim):
            comp_axis = 1
        elif shape == (dim, K):
            comp_axis = 0
        else:
            rec["unknown"].append((method, shape)); return None
        out = np.zeros(shape)
        for j in range(dim):
            law = gen_law(method, comp_args(args, j))
            if law is None:
                rec["unknown"].append((method, shape)); return None
            col = law.ppf(us)
            if comp_axis == 1:
                out[:, j] = col
            else:
                out[j, :] = col
        return out
    rng = S2(plan)
    s, err, unt = call_sample(D, K, rng)
    if err is not None:
        ctx.fail(key, desc, "a sample", err, "sampling raises")
        return
    if rng.leaked() or rec["unknown"] or len(rec["calls"]) != 1:
        ctx.disagree(key, desc, "one scripted generator call of a known law", {"calls": [str(c[:1]) + str(c[2]) for c in rec["calls"]], "unscripted_generator_used": rng.leaked()},
                     "generator use cannot be attributed to a documented law (recorded law vs density not decidable)")
        return
    X = values(s)
    if X.shape != (dim, K) or not np.all(np.isfinite(X)):
        ctx.fail(key, desc, f"({dim},{K}) finite draws", str(X)[:120], "draws not finite / wrong shape")
        return
    mid = X[:, K // 2].copy()
    for j in range(dim):
        x = X[j]
        dx = np.diff(x)
        if not (np.all(dx > 0) or np.all(dx < 0)):
            ctx.note(f"law oracle: map draw->sample not monotone in component {j} at {desc}")
            continue
        xs_ = np.sort(x)

        def f(t, j=j):
            p = mid.copy(); p[j] = t
            v = logpdf1(D, p)
            return math.exp(v) if v == v else 0.0
        cells = [quad(f, xs_[i], xs_[i + 1], epsabs=1e-13, epsrel=1e-10)[0] for i in range(K - 1)]
        if dim == 1:
            unit = 1.0 / K
        else:
            unit = float(np.median(cells))
        worst = max(abs(c - unit) for c in cells) / unit if unit > 0 else float("inf")
        # tails: half a cell each (checked more loosely: improper integrals)
        w = xs_[-1] - xs_[0]
        lo = quad(f, xs_[0] - 60 * w, xs_[0], epsabs=1e-13, epsrel=1e-9, limit=200)[0]
        hi = quad(f, xs_[-1], xs_[-1] + 60 * w, epsabs=1e-13, epsrel=1e-9, limit=200)[0]
        tail_bad = (lo > 0.5 * unit * 1.001 or hi > 0.5 * unit * 1.001)   # truncated tails can only be too small
        if worst > 1e-6 or tail_bad:
            ctx.fail(key, desc, f"every quantile cell of the recorded generator law carries the same mass ({'1/K' if dim == 1 else 'share of the section'}) under exp(logpdf)",
                     {"component": j, "max_rel_cell_error": worst, "cell_masses": cells, "tails": [lo, hi], "unit": unit,
                      "draws": x.tolist(), "generator_call": [str(rec["calls"][0][0]), str(rec["calls"][0][1])]},
                     "law of the recorded generator call differs from the density the object reports")
            return


def run_iid(ctx, cuqi, thorough):
    import scipy.stats as sps
    from cuqi.distribution import Normal, Gamma, InverseGamma, Beta, Laplace, Uniform, Cauchy, Lognormal, Gaussian
    rs = np.random.RandomState(ctx.seed + 504)
    dy = [0.25, 0.5, 2.0, 4.0]          # scale-like parameters never 1: std-vs-variance / rate-vs-scale slips are visible
    fams = {
        "normal": (Normal, lambda n: [rint(rs, -3, 3, size=n).astype(float), rs.choice(dy, size=n)]),
        "gamma": (Gamma, lambda n: [rs.choice([0.5, 1.0, 2.0, 3.0, 4.5], size=n), rs.choice(dy, size=n)]),
        "invgamma": (InverseGamma, lambda n: [rs.choice([2.0, 3.0, 4.5], size=n), rint(rs, -1, 2, size=n).astype(float), rs.choice(dy, size=n)]),
        "beta": (Beta, lambda n: [rs.choice([0.5, 1.0, 2.0, 3.0], size=n), rs.choice([0.5, 1.0, 2.0, 3.0], size=n)]),
        "laplace": (Laplace, lambda n: [rint(rs, -3, 3, size=n).astype(float), rs.choice(dy, size=n)]),
        "uniform": (Uniform, lambda n: (lambda lo: [lo, lo + rs.choice(dy, size=n)])(rint(rs, -3, 3, size=n).astype(float))),
        "cauchy": (Cauchy, lambda n: [rint(rs, -3, 3, size=n).astype(float), rs.choice(dy, size=n)]),
    }
    scipy_boundary = {"invgamma": sps.invgamma, "beta": sps.beta, "cauchy": sps.cauchy}
    lines, metas = [], []
    reps = 6 * ctx.scale
    for fam, (cls, gen) in fams.items():
        for rep in range(reps):
            dim = int(rs.choice([1, 1, 2, 3, 5]))
            N = int(rs.choice([1, 2, 4, 6]))
            if N == dim:
                N += 1
            pars = gen(dim)
            # scalar-vs-vector mixing: some parameters given as python scalars
            given = []
            for j, p in enumerate(pars):
                if dim == 1 or (j > 0 and rs.rand() < 0.4 and fam not in ("laplace", "uniform")) or (fam == "laplace" and j == 1):
                    pars[j] = np.full(dim, p[0]) if dim > 1 else p
                    given.append(float(p[0]))
                else:
                    given.append(p.copy())
            if fam == "uniform" and dim > 1 and any(np.isscalar(g) for g in given):
                given = [pars[0].copy(), pars[1].copy()]
            try:
                with quiet():
                    D = cls(*given)
                    ddim = int(D.dim)
            except Exception as e:
                ctx.note(f"{fam} constructor refused: {type(e).__name__}")
                continue
            if ddim != dim:
                ctx.note(f"{fam}: dim {ddim} for parameters of length {dim}")
                continue
            Gm = (rint(rs, 1, 64, size=(N, dim)) / 64.0)
            desc = {"family": fam, "dim": dim, "N": N, "params": [np.asarray(g).tolist() for g in given]}
            key = f"iid:{fam}:plumbing"
            rec = {}
            if fam in scipy_boundary:
                law = scipy_boundary[fam]
                orig = law.rvs

                def fake(*a, _rec=rec, _G=Gm, **kw):
                    _rec["a"], _rec["kw"] = a, kw
                    return _G.copy()
                law.rvs = fake
                rng = Script()
                try:
                    s, err, unt = call_sample(D, N, rng)
                finally:
                    del law.rvs
                assert law.rvs.__func__ is type(law).rvs or True
            else:
                rng = Script(lambda method, shape, k, _G=Gm: _G.copy() if shape == _G.shape else None)
                s, err, unt = call_sample(D, N, rng)
            pl = " ".join(qv(np.atleast_1d(np.asarray(g, dtype=float)).tolist()) for g in given)
            lines.append(f"plumb {fam} {N} {dim} {pl} {qm(Gm.tolist())}")
            metas.append(dict(fam=fam, D=D, dim=dim, N=N, given=given, G=Gm, s=s, err=err, unt=unt, rng=rng, rec=rec, desc=desc, key=key, pars=pars))
    outs = ctx.lean.drive(lines)
    for m, out in zip(metas, outs):
        fam, D, dim, N, desc, key = m["fam"], m["D"], m["dim"], m["N"], m["desc"], m["key"]
        ndis0 = len(ctx.disagreements)
        ctx.case("iid-plumbing", desc)
        if m["err"] is not None or out.startswith("err") or out == "bad-op":
            ctx.disagree(key, desc, out[:60], m["err"], "refusal")
            if m["err"] is not None:
                ctx.fail(key, desc, "a sample", m["err"], "sampling raises")
            continue
        call, dens, S = out.split(" ")
        method, *margs, msize = call.split("|")
        margs = [np.array([float(x) for x in pv(a)]) for a in margs]
        mN, mdim = [int(t) for t in msize.split("x")]
        # implementation's call
        if fam in ("invgamma", "beta", "cauchy"):
            kw = m["rec"].get("kw", {})
            order = {"invgamma": ["a", "loc", "scale"], "beta": ["a", "b"], "cauchy": ["loc", "scale"]}[fam]
            iargs = [np.atleast_1d(np.asarray(kw.get(k), dtype=float)) for k in order]
            isize = tuple(kw.get("size", ()))
            imethod = fam + ".rvs"
            same_rng = kw.get("random_state") is m["rng"]
            ncalls_ok = bool(m["rec"]) and len(m["rng"].calls) == 0
        else:
            calls = m["rng"].calls
            ncalls_ok = len(calls) == 1
            imethod = calls[0][0] if calls else "-"
            iargs = [np.atleast_1d(np.asarray(a, dtype=float)) for a in (calls[0][1] if calls else ())]
            isize = calls[0][2] if calls else ()
            same_rng = True
        agree = (ncalls_ok and imethod == method and isize == (mN, mdim) and same_rng and len(iargs) == len(margs)
                 and all(np.array_equal(np.broadcast_to(a, (dim,)) if a.size in (1, dim) else a, np.broadcast_to(b, (dim,)) if b.size in (1, dim) else b)
                         for a, b in zip(iargs, margs)))
        if not agree:
            ctx.disagree(key, desc, call, f"{imethod}|{[a.tolist() for a in iargs]}|{isize} same_rng={same_rng}", "generator call (method, parameter tuple, size, generator object)")
        Sm = np.array([[float(x) for x in row] for row in pm(S)])
        Si = values(m["s"])
        if Si.shape != Sm.shape or not np.array_equal(Si, Sm):
            ctx.disagree(key, desc, Sm.tolist(), Si.tolist(), "draws = transposed generator output")
        if not m["unt"]:
            ctx.fail(f"rng:{fam}:global-state", desc, "global numpy random state untouched", "changed")
        for d, g in wrap_oracle(cuqi, D, N, m["s"]):
            ctx.fail(f"wrap:{fam}:{'N1' if N == 1 else 'N>1'}", desc, d, g, "wrapping")
        # density-side plumbing for the scipy-delegated densities: logpdf must hand the same tuple to the same law
        if dens != "-":
            dargs = [np.array([float(x) for x in pv(a)]) for a in dens.split("|")]
            lawobj = {"gamma": sps.gamma, "invgamma": sps.invgamma, "beta": sps.beta}[fam]
            x0 = np.full(dim, 0.375) if fam == "beta" else np.asarray(m["pars"][1] if fam == "invgamma" else 0.0) + 1.5 * np.ones(dim)
            if fam == "gamma":
                ref = float(np.sum(lawobj.logpdf(x0, a=dargs[0], loc=0, scale=dargs[1])))
            elif fam == "invgamma":
                ref = float(np.sum(lawobj.logpdf(x0, a=dargs[0], loc=dargs[1], scale=dargs[2])))
            else:
                ref = float(np.sum(lawobj.logpdf(x0, a=dargs[0], b=dargs[1])))
            got = logpdf1(D, x0)
            if not close(got, ref, 1e-10):
                ctx.disagree(key, desc, ref, got, "tuple handed to the law by logpdf")
        # oracle A (dim>1): component j of the draws is what the dim-1 object with the j-th parameters returns for
        # the same generator output
        cls = fams[fam][0]
        if dim > 1 and m["err"] is None and Si.shape == (dim, N):
            for j in range(dim):
                pj = [float(p[j]) for p in m["pars"]]
                with quiet():
                    Dj = cls(*pj)
                gj = m["G"][:, j:j + 1]
                if fam in ("invgamma", "beta", "cauchy"):
                    continue   # scripted at the scipy boundary: the component map is scipy's; covered by the law oracle below
                sj, ej, _ = call_sample(Dj, N, Script(lambda method, shape, k, _g=gj: _g.copy()))
                if ej is not None or not np.array_equal(values(sj).ravel(), Si[j]):
                    ctx.fail(f"iid:{fam}:component-parameters", desc, f"component {j} drawn with the {j}-th parameters", "differs",
                             "vector parameters are not applied component-wise to the draws")
        # oracle B: law of the draws vs exp(logpdf), per component as a dim-1 object, real scipy/numpy path
        for j in range(dim if dim <= 2 else 1):
            pj = [float(p[j]) for p in m["pars"]]
            with quiet():
                Dj = cls(*pj)
            ctx.case("iid-law", {"family": fam, "params": pj})
            # when the tie broke at this case the failing input (if any) is reported under the same key
            law_oracle(ctx, Dj, key if len(ctx.disagreements) > ndis0 else f"iid:{fam}:law", {"family": fam, "params": pj})
        if dim > 1:
            ctx.case("iid-law-vector", desc)
            law_oracle(ctx, D, key if len(ctx.disagreements) > ndis0 else f"iid:{fam}:law", desc, K=7)
        if dim > 1 and fam in ("invgamma", "beta", "cauchy"):
            # real scipy path with vector parameters: component j must follow the j-th parameters
            K = 5
            us = (np.arange(K) + 0.5) / K
            rngv = Script(lambda method, shape, k: None)
            holder = {}

            class SV(Script):
                def _out(self, method, args, size):
                    holder["m"] = (method, args)
                    return super()._out(method, args, size)
            sv, ev_, _ = call_sample(D, K, SV(lambda method, shape, k: np.tile(us[:, None], (1, dim)) if method in ("uniform", "random_sample") else None))
            if ev_ is None and holder.get("m", ("",))[0] in ("uniform", "random_sample"):
                X = values(sv)
                for j in range(dim):
                    pj = [float(p[j]) for p in m["pars"]]
                    lawj = {"invgamma": lambda p: sps.invgamma(p[0], loc=p[1], scale=p[2]), "beta": lambda p: sps.beta(p[0], p[1]),
                            "cauchy": lambda p: sps.cauchy(p[0], p[1])}[fam](pj)
                    with quiet():
                        Dj = cls(*pj)
                    # cdf of the dim-1 object's own density at the draws must be the uniform grid
                    from scipy.integrate import quad
                    for k in range(K - 1):
                        mass, _ = quad(lambda t: math.exp(logpdf1(Dj, np.array([t]))), X[j, k], X[j, k + 1], epsabs=1e-12, epsrel=1e-10)
                        if abs(mass - 1.0 / K) > 1e-7:
                            ctx.fail(f"iid:{fam}:component-parameters", desc, f"component {j} follows the density with the {j}-th parameters",
                                     {"mass": mass, "expected": 1.0 / K}, "vector parameters are not applied component-wise to the draws")
                            break
    # closed-form densities of the model vs logpdf (dim 1), so that the Lean density identities are about the code's formulas
    dl, dm = [], []
    for fam in ("normal", "laplace", "uniform", "cauchy", "gauss1"):
        for rep in range(8 * ctx.scale):
            p1 = float(rint(rs, -3, 3)); p2 = float(rs.choice(dy))
            x = float(rint(rs, -8, 8)) / 4.0
            if fam == "uniform":
                p2 = p1 + p2
                x = p1 + (p2 - p1) * float(rs.choice([0.0, 0.25, 0.5, 1.0, -0.25, 1.25]))
            dl.append(f"dens {fam} {q(x)} {q(p1)} {q(p2)}"); dm.append((fam, x, p1, p2))
    douts = ctx.lean.drive(dl)
    for (fam, x, p1, p2), o in zip(dm, douts):
        with quiet():
            D = {"normal": lambda: Normal(p1, p2), "laplace": lambda: Laplace(p1, p2), "uniform": lambda: Uniform(p1, p2),
                 "cauchy": lambda: Cauchy(p1, p2), "gauss1": lambda: Gaussian(p1, sqrtprec=p2)}[fam]()
        got = logpdf1(D, np.array([x]))
        ctx.case("closed-form-density", {"family": fam, "x": x, "p": [p1, p2]})
        if not close(got, fl(o), 1e-10):
            ctx.disagree(f"iid:{fam}:density-formula", {"family": fam, "x": x, "p": [p1, p2]}, fl(o), got, "closed-form log-density")
            law_oracle(ctx, D, f"iid:{fam}:density-formula", {"family": fam, "params": [p1, p2]})


# ----------------------------------------------------------------------------- Lognormal (composes the Gaussian sampler)
class _LogVar:
    """density of y = log x for x ~ the Lognormal object: logpdf_Y(y) = logpdf_X(exp y) + sum y"""
    def __init__(self, L): self.L = L
    def logpdf(self, y):
        y = np.asarray(y, dtype=float)
        return self.L.logpdf(np.exp(y)) + float(np.sum(y))


def run_lognormal(ctx, cuqi, thorough):
    from cuqi.distribution import Lognormal, Gaussian
    rs = np.random.RandomState(ctx.seed + 506)
    sq = [0.0625, 0.25, 4.0, 16.0]          # never 1
    cases = []
    for dim in (1, 2, 3, 4, 5):
        for kind in ("scalar", "vector", "diag2d", "full"):
            for rep in range(2 * ctx.scale):
                cases.append((dim, kind))
    lines, metas = [], []
    for dim, kind in cases:
        mean = rint(rs, -1, 1, size=dim).astype(float) if dim > 1 else float(rint(rs, -1, 1))
        if kind == "scalar":
            cov = float(rs.choice(sq)); val = np.array([cov])
        elif kind == "vector":
            val = rs.choice(sq, size=dim); cov = val.copy() if dim > 1 else float(val[0])
        elif kind == "diag2d":
            val = rs.choice(sq, size=dim); cov = np.diag(val)
        else:
            if dim == 1:
                continue
            M = gen_matrix(rs, str(rs.choice(["lower", "full", "upperbi"])), dim) / 2.0
            cov = M @ M.T; val = None
        desc = {"family": "Lognormal", "dim": dim, "cov_kind": kind, "mean": np.asarray(mean).tolist(), "cov": np.asarray(cov).tolist()}
        key = f"Lognormal:{kind}"
        try:
            with quiet():
                L = Lognormal(mean, cov)
                assert int(L.dim) == dim
        except Exception as e:
            ctx.note(f"Lognormal constructor refused {desc}: {type(e).__name__}")
            continue
        target = np.hstack([np.zeros((dim, 1)), np.eye(dim)])

        def plan(method, shape, k, target=target):
            if method in ("randn", "standard_normal") and shape == target.shape:
                return target
            return None
        rng = Script(plan)
        s, err, unt = call_sample(L, dim + 1, rng)
        with quiet():
            Rd = dense(L._normal.sqrtprec)
        lines.append(f"dform cov {dim} {qv(val.tolist())}" if val is not None else "noop")
        lines.append(f"gauss 0 {qv(np.atleast_1d(np.asarray(mean, dtype=float)).tolist())} {qm(Rd.tolist())} {qm(target.T.tolist())}")
        metas.append(dict(L=L, dim=dim, kind=kind, desc=desc, key=key, s=s, err=err, unt=unt, rng=rng, Rd=Rd, val=val))
    outs = ctx.lean.drive(lines)
    for i, m in enumerate(metas):
        L, dim, kind, desc, key = m["L"], m["dim"], m["kind"], m["desc"], m["key"]
        o_form, o_g = outs[2 * i], outs[2 * i + 1]
        ctx.case("lognormal-affine", desc)
        if m["err"] is not None:
            ctx.disagree(key, desc, "a sample", m["err"], "sampling raises")
            ctx.fail(key, desc, "a sample", m["err"], "sampling raises")
            continue
        if not m["unt"]:
            ctx.fail("rng:lognormal:global-state", desc, "global numpy random state untouched", "changed")
        calls = m["rng"].calls
        gaussian_path = len(calls) == 1 and calls[0][0] in ("randn", "standard_normal") and calls[0][2] == (dim, dim + 1) and not m["rng"].leaked()
        if not gaussian_path:
            ctx.disagree(key, desc, f"one call randn({dim},{dim + 1}) (Gaussian sampler, then exp)", str([(c[0], c[2]) for c in calls])[:200], "generator calls")
        X = values(m["s"])
        if m["val"] is not None and o_form not in ("irr", "err-shape", "bad-op"):
            r_model = [float(x) for x in pv(o_form.split()[0])]
            if not (np.count_nonzero(m["Rd"] - np.diag(np.diag(m["Rd"]))) == 0 and vclose(np.diag(m["Rd"]), r_model, 1e-12)):
                ctx.disagree(key, desc, r_model, np.diag(m["Rd"]).tolist(), "sqrtprec of the underlying Gaussian (1/sqrt(cov))")
        if gaussian_path and X.shape == (dim, dim + 1) and np.all(X > 0):
            Y = np.log(X)
            if not o_g.startswith(("err", "bad")):
                Sm = np.array([[float(x) for x in row] for row in pm(o_g.split(" ", 1)[1])]).T
                if not mclose(Y.tolist(), Sm.tolist(), 1e-9):
                    ctx.disagree(key, desc, Sm.tolist(), Y.tolist(), "log-draws = mean + sqrtprec^-1 xi for xi = 0, e_1..e_n")
            offset = Y[:, 0].copy(); B = Y[:, 1:] - offset[:, None]
            affine_oracle(_LogVar(L), offset, B, key, desc, ctx, tol=1e-6)
        if kind != "full":
            ctx.case("lognormal-law", desc)
            law_oracle(ctx, L, key, desc, K=7 if dim > 1 else 9)
        for d, g in wrap_oracle(cuqi, L, dim + 1, m["s"]):
            ctx.fail(f"wrap:lognormal:N>1", desc, d, g, "wrapping")
    # Gaussian with scalar / vector covariance: recorded law vs density as well
    for rep in range(6 * ctx.scale):
        dim = int(rs.choice([1, 2, 3, 5]))
        mu = rint(rs, -2, 2, size=dim).astype(float)
        var = rs.choice(sq, size=dim)
        form = str(rs.choice(["cov", "prec", "sqrtcov", "sqrtprec"]))
        with quiet():
            Gs = Gaussian(mu, **{form: (var if rs.rand() < 0.6 else float(var[0]))})
        desc = {"family": "gaussian", "dim": dim, "form": form, "mean": mu.tolist(), "value": var.tolist()}
        ctx.case("gaussian-law", desc)
        law_oracle(ctx, Gs, f"Gaussian:{form}:diagonal:law", desc, K=7 if dim > 1 else 9)


def run(ctx):   # noqa: F811  (extends the entry point defined above)
    cuqi = import_cuqi()
    thorough = ctx.tier == "thorough"
    ctx.trusted += ["numpy/scipy generator laws (documented densities of RandomState.normal/gamma/beta/laplace/uniform/standard_cauchy, scipy.stats ppf/rvs)",
                    "scipy.linalg.solve / solve_triangular / spsolve enter through the relation R p = e (checked exactly on the model side)",
                    "scipy.integrate.quad (law oracle), scipy.linalg.dft and eigsh outputs (leaf data of the periodic GMRF construction)"]
    ctx.assumptions += ["IEEE arithmetic modelled by exact rationals; float results compared to 1e-9 (1e-6 for the sqrt(eps)-regularised Neumann solve)",
                        "quadratic log-densities are probed by second differences at integer offsets (exact up to rounding)",
                        "sparse_cholesky factor of GMRF enters as leaf data with certificate UᵀU = P checked against the exact C20 precision to 1e-9"]
    run_gaussian(ctx, cuqi, thorough)
    run_gmrf(ctx, cuqi, thorough)
    run_wrap(ctx, cuqi, thorough)
    run_cond(ctx, cuqi, thorough)
    run_iid(ctx, cuqi, thorough)
    run_lognormal(ctx, cuqi, thorough)


# ----------------------------------------------------------------------------- ModifiedHalfNormal
class Seq(Script):
    """scripted sequence: proposal draws from `draws`, uniforms from `us` (in order of request)"""

    def __init__(self, draws, us):
        self.draws, self.us = list(draws), list(us)
        self.i = self.j = 0

        def plan(method, shape, k):
            if method == "uniform":
                v = self.us[min(self.j, len(self.us) - 1)]; self.j += 1
            else:
                v = self.draws[min(self.i, len(self.draws) - 1)]; self.i += 1
            return np.array(v)
        super().__init__(plan)


def mhn_call(D, pars, draws, us, public):
    """returns (X or None, error, rng)"""
    rng = Seq(draws, us)
    try:
        with quiet():
            if public:
                x = float(np.asarray(D.sample(1, rng=rng)).ravel()[0])
            else:
                x = float(D._MHN_sample(pars[0], pars[1], pars[2], rng=rng))
        return x, None, rng
    except Exception as e:  # noqa
        return None, type(e).__name__ + ": " + str(e)[:80], rng


def mhn_accept_threshold(D, pars, t, public, fallback):
    """sup of the uniforms for which the draw `t` is accepted at the first iteration (bisection on the decision)"""
    def acc(u):
        x, err, rng = mhn_call(D, pars, [t, fallback], [u, 1e-300], public)
        return err is None and len(rng.calls) == 2
    if not acc(1e-300):
        return 0.0
    if acc(1.0 - 2 ** -53):
        return 1.0
    lo, hi = 1e-300, 1.0
    for _ in range(60):
        mid = math.sqrt(lo * hi) if lo < 1e-3 else 0.5 * (lo + hi)
        if acc(mid):
            lo = mid
        else:
            hi = mid
    return lo


def run_mhn(ctx, cuqi, thorough):
    from cuqi.distribution import ModifiedHalfNormal
    rs = np.random.RandomState(ctx.seed + 505)
    grid = [(2.0, 3.0, 1.0), (0.5, 1.0, 1.0), (3.0, 2.0, 2.0), (1.5, 1.0, 3.0), (5.0, 0.125, 1.0), (3.0, 1.0, 4.0),
            (2.0, 1.0, -1.0), (0.5, 2.0, -2.0), (1.0, 1.0, 0.0), (4.0, 0.5, -0.5), (1.0, 0.5, 0.5), (2.5, 2.5, 2.5)]
    for _ in range(3 if ctx.scale == 1 else 6 * ctx.scale):
        grid.append((float(rs.choice([0.5, 0.75, 1.0, 1.5, 2.0, 3.0, 6.0])), float(rs.choice([0.25, 0.5, 1.0, 2.0, 4.0])),
                     float(rs.choice([-2.0, -0.5, 0.0, 0.5, 1.0, 3.0]))))
    # ---- model side, phase 1: scheme and proposal parameters (private entry point and what the getters hand over)
    l1 = []
    for (a, b, c) in grid:
        l1.append(f"mhn {q(a)} {q(b)} {q(c)}")
        l1.append(f"mhnread {q(a)} {q(b)} {q(c)}")
    o1 = ctx.lean.drive(l1)
    plans = []
    for gi, (a, b, c) in enumerate(grid):
        read = [float(x) for x in pv(o1[2 * gi + 1])]
        for public in (False, True):
            pars = tuple(read) if public else (a, b, c)
            plans.append((gi, public, pars))
    l2 = [f"mhn {q(p[0])} {q(p[1])} {q(p[2])}" for (_, _, p) in plans]
    o2 = ctx.lean.drive(l2)
    # ---- phase 2: draws for each plan, model bounds
    l3, metas = [], []
    for (gi, public, pars), sch in zip(plans, o2):
        toks = sch.split()
        kind = toks[0]
        a, b, c = pars
        if kind == "pg1":
            K1, K2 = fl(toks[1]), fl(toks[2])
            if abs(K2 - K1) <= 1e-9 * max(abs(K1), abs(K2)):
                continue
            use = "np" if K2 > K1 else "gp"
            call = ("normal", fl(toks[3]), fl(toks[4])) if use == "np" else ("gamma", fl(toks[5]), fl(toks[6]))
            mpar = 0.0
        elif kind == "gp":
            use, call, mpar = "gp", ("gamma", fl(toks[1]), fl(toks[2])), 0.0
        elif kind == "ng":
            use, call, mpar = "ng", ("gamma", fl(toks[2]), fl(toks[3])), fl(toks[1])
        else:
            continue
        law = gen_law(call[0], call[1:])
        ts = [float(v) for v in law.ppf([0.07, 0.3, 0.5, 0.75, 0.95])]
        ts = [float(np.round(t * 64) / 64) if abs(t) > 0.05 else t for t in ts]
        for t in ts:
            l3.append(f"mhnacc {use} {q(a)} {q(b)} {q(c)} {q(mpar)} {q(t)}")
        metas.append(dict(gi=gi, public=public, pars=pars, use=use, call=call, ts=ts, mpar=mpar, law=law))
    o3 = ctx.lean.drive(l3)
    pos = 0
    for m in metas:
        a0, b0, c0 = grid[m["gi"]]
        D = ModifiedHalfNormal(a0, b0, c0)
        pars, public, use = m["pars"], m["public"], m["use"]
        path = "sample" if public else "_MHN_sample"
        desc = {"family": "ModifiedHalfNormal", "constructed_with": [a0, b0, c0], "entry": path, "parameters_reaching_the_sampler": list(pars), "scheme": use}
        key = f"MHN:{path}:{use}"
        bounds = []
        for t in m["ts"]:
            xt, at = o3[pos].split(); pos += 1
            bounds.append((fl(xt), fl(at)))
        ctx.case("mhn-scheme", desc)
        # (i) proposal call
        x, err, rng = mhn_call(D, pars, [m["ts"][2], m["ts"][2]], [1e-300, 1e-300], public)
        if err is not None:
            ctx.disagree(key, desc, "a draw", err, "sampling raises")
            ctx.fail(key, desc, "a draw", err, "sampling raises")
            continue
        c0_ = rng.calls[0]
        iargs = [float(np.asarray(v).ravel()[0]) for v in c0_[1]]
        if c0_[0] != m["call"][0] or not vclose(iargs, list(m["call"][1:]), 1e-9):
            ctx.disagree(key, desc, m["call"], (c0_[0], iargs), "proposal generator call (scheme selection and proposal parameters)")
        # (ii) decisions: three scripted iterations around the model's bound, then a forced acceptance
        fallback = m["ts"][2]
        for k, (t, (xm, am)) in enumerate(zip(m["ts"], bounds)):
            for side in (-1, +1):
                if not (math.isfinite(am)):
                    continue
                lu = am + side * max(1e-6, 1e-6 * abs(am))
                if lu >= 0:
                    u = 1.0 - 2 ** -30 if side > 0 else None
                    if am > -1e-9 and side > 0:
                        u = None
                else:
                    u = math.exp(lu)
                if u is None or u <= 0:
                    continue
                xi, err, rng = mhn_call(D, pars, [t, fallback], [u, 1e-300], public)
                ctx.case("mhn-decision", {**desc, "draw": t, "u": u})
                acc_impl = err is None and len(rng.calls) == 2
                acc_model = (xm > 0 or use == "ng") and math.log(u) < am
                if acc_impl != acc_model:
                    ctx.disagree(key, {**desc, "draw": t, "u": u}, {"X": xm, "log_bound": am, "accept": acc_model}, {"accept": acc_impl, "X": xi}, "acceptance decision")
                elif acc_impl and not close(xi, xm, 1e-9):
                    ctx.disagree(key, {**desc, "draw": t, "u": u}, xm, xi, "accepted point X")
        # (iii) oracle (implementation only): proposal density x acceptance probability must be proportional to the
        # density the object reports (public path) / the documented density with the given parameters (private path)
        vals = []
        extra = [float(v) for v in m["law"].ppf([1e-7, 1e-4, 1e-2, 0.99, 0.9999, 1 - 1e-7])]
        for t in list(m["ts"]) + extra:
            if use == "np" and t <= 0:
                continue
            a_t = mhn_accept_threshold(D, pars, t, public, fallback)
            h = 1e-4 * abs(t) if use != "np" else 1e-6 * max(1.0, abs(t))
            xs_ = []
            for tt in (t - h, t, t + h):
                xv, err, _ = mhn_call(D, pars, [tt, tt], [1e-300, 1e-300], public)
                xs_.append(xv)
            if any(v is None for v in xs_) or a_t <= 0:
                continue
            dxdt = (xs_[2] - xs_[0]) / (2 * h)
            xv = xs_[1]
            logg = float(m["law"].logpdf(t)) - math.log(abs(dxdt))
            if public:
                logf = logpdf1(D, np.array([xv]))
            else:
                logf = (pars[0] - 1) * math.log(xv) - pars[1] * xv * xv + pars[2] * xv
            vals.append((t, xv, a_t, logg + math.log(a_t) - logf, logg - logf))
        ctx.case("mhn-rejection-identity", desc)
        unc = [v for v in vals if v[2] < 1.0]
        if len(unc) >= 2:
            cst = [v[3] for v in unc]
            logc = float(np.median(cst))
            if max(cst) - min(cst) > 1e-5:
                ctx.fail(key, desc, "proposal density x acceptance probability proportional to the target density (constant log-ratio)",
                         {"log_ratio_at_points": [(v[1], v[3]) for v in unc]}, "rejection step does not produce the target density")
            capped = [v for v in vals if v[2] >= 1.0 and v[4] < logc - 1e-5]
            if capped:
                ctx.fail(key + ":accept-prob>1", desc, "acceptance bound <= 0 everywhere (proposal envelope dominates the target)",
                         {"points_where_bound_exceeds_0": [(v[1], logc - v[4]) for v in capped]},
                         "the log-acceptance bound is positive on a set of positive probability: draws follow proposal*min(1,ratio), not the target")
        # (iv) the parameters reaching the sampler are the ones the object was built with
        if public and (pars[1] != b0 or pars[2] != c0):
            xa, ea, ra = mhn_call(D, pars, [m["ts"][2]] * 2, [1e-300] * 2, True)
            D2 = ModifiedHalfNormal(a0, b0 + 1.0, c0 - 1.0)
            xb, eb, rb = mhn_call(D2, pars, [m["ts"][2]] * 2, [1e-300] * 2, True)
            if ea is None and eb is None and xa == xb and str(ra.calls) == str(rb.calls):
                ctx.fail("MHN:sample:getter:beta-gamma-ignored", desc,
                         "draws of ModifiedHalfNormal(alpha, beta, gamma) follow x^(alpha-1) exp(-beta x^2 + gamma x) with the given beta, gamma",
                         {"proposal_call": str(ra.calls[0][:2]), "same_for_beta_gamma": [b0 + 1.0, c0 - 1.0]},
                         "beta and gamma never reach the sampler: the getters return alpha (logpdf reads the same getters, so draws and logpdf agree with each other but not with the parameters given)")
        # wrapping of MHN
    for N in (1, 4):
        D = ModifiedHalfNormal(2.0, 3.0, 1.0)
        s, err, unt = call_sample(D, N, np.random.RandomState(5))
        ctx.case("wrap", {"family": "mhn", "N": N})
        if err is None:
            for d, g in wrap_oracle(cuqi, D, N, s):
                ctx.fail(f"wrap:mhn:{'N1' if N == 1 else 'N>1'}", {"family": "mhn", "N": N}, d, g, "wrapping")


_run_part2 = run


def run(ctx):   # noqa: F811
    _run_part2(ctx)
    run_mhn(ctx, import_cuqi(), ctx.tier == "thorough")


# ============================================================================= part 3: re-assignment histories
def _gauss_value(rs, form, kind, n, prev=None):
    """matrix parameter of the given kind for the given form; `prev` (dense array) is reused for the
    'same' (all entries shared) and 'some' (lower part shared, upper part added) kinds"""
    import scipy.sparse as sp
    squares = [0.25, 4.0, 16.0, 0.0625]
    roots = [0.5, 2.0, 4.0, -2.0]
    if kind == "scalar":
        return float(rs.choice(squares if form in ("cov", "prec") else roots))
    if kind == "vector":
        return np.array(rs.choice(squares if form in ("cov", "prec") else roots, size=n), dtype=float)
    if kind == "diag2d":
        return np.diag(np.array(rs.choice(squares if form in ("cov", "prec") else roots, size=n), dtype=float))
    if kind == "same" and prev is not None:
        return np.array(prev, dtype=float, copy=True)
    if kind == "some" and prev is not None and np.ndim(prev) == 2:
        M = np.array(prev, dtype=float, copy=True)
        if form in ("cov", "prec"):
            M = M + np.diag(rs.choice([1.0, 2.0], size=n))            # still SPD, off-diagonal entries shared
        else:
            M = M + np.triu(rint(rs, 1, 2, size=(n, n)).astype(float), 1)   # lower part and diagonal shared, upper part new
        return M
    sparse_fmt = None
    if kind in ("sparse-same", "sparse-some") and prev is not None and np.ndim(prev) == 2:
        M = np.array(prev, dtype=float, copy=True)
        if kind == "sparse-some":
            M = M + (np.diag(rs.choice([1.0, 2.0], size=n)) if form in ("cov", "prec") else np.diag(rs.choice([1.0, 3.0], size=n)))
        return sp.csr_matrix(M)
    if kind.startswith("sparse-"):
        _, sub, sparse_fmt = kind.split("-")
    else:
        sub = kind if kind in ("lower", "upper", "full", "lowerbi", "upperbi", "tridiag") else "full"
    M = gen_matrix(rs, sub, n)
    if sub == "diag" and form in ("cov", "prec"):
        M = np.abs(M)
    if form in ("cov", "prec"):
        M = M @ M.T
    if sparse_fmt:
        return sp.csr_matrix(M).asformat(sparse_fmt)
    return M


def run_histories(ctx, cuqi, thorough):
    """construct -> sample -> re-assign -> sample (-> re-assign -> sample) on ONE object; after every step the draws
    must be the model's prediction for the CURRENT parameters and equal those of a freshly constructed object."""
    import scipy.sparse as sp
    import scipy.stats as sps
    from cuqi.distribution import (Gaussian, GMRF, Normal, Gamma, InverseGamma, Beta, Laplace, Cauchy, Uniform, Lognormal)
    rs = np.random.RandomState(ctx.seed + 507)

    # ------------------------------------------------------------------ Gaussian
    trans = [("diag2d", "full"), ("lower", "upper"), ("lower", "full"), ("vector", "full"), ("scalar", "lower"),
             ("lower", "some"), ("full", "lower"), ("lower", "sparse-full-csr"), ("sparse-lowerbi-dia", "upper"),
             ("upper", "diag2d"), ("lower", "same"), ("diag2d", "upper"), ("sparse-tridiag-csc", "lower"), ("vector", "scalar")]
    third = ["full", "lower", "upper", "diag2d", "some", "vector"]
    hist = []
    for form in ("cov", "prec", "sqrtcov", "sqrtprec"):
        for (k0, k1) in trans:
            for rep in range(ctx.scale):
                n = int(rint(rs, 2, 6))
                kinds = [k0, k1] + ([str(rs.choice(third))] if rs.rand() < 0.5 else [])
                hist.append((form, n, kinds, bool(rs.rand() < 0.3)))
        # parameter re-assigned while the object stays in the SPARSE regime (a factorisation cached at the first draw
        # must not survive the setter): sparse -> sparse in the same / another storage format, same / some / no entries shared
        for (k0, k1) in [("sparse-tridiag-csr", "sparse-lowerbi-csr"), ("sparse-lowerbi-dia", "sparse-tridiag-csc"), ("sparse-full-csc", "sparse-some"),
                         ("sparse-tridiag-csr", "sparse-same"), ("vector", "sparse-tridiag-csr"), ("sparse-diag-dia", "sparse-lowerbi-coo")]:
            for rep in range(ctx.scale):
                kinds = [k0, k1] + ([str(rs.choice(["sparse-some", "sparse-tridiag-csr", "lower"]))] if rs.rand() < 0.5 else [])
                hist.append((form, int(rint(rs, 3, 6)), kinds, bool(rs.rand() < 0.3)))
        # dim > MIN_DIM_SPARSE: scalar / vector / diagonal parameters are stored sparse for every form
        big_trans = [("scalar", "vector"), ("vector", "vector"), ("vector", "diag2d"), ("scalar", "scalar"), ("diag2d", "sparse-diag-dia"), ("vector", "sparse-lowerbi-csr")]
        for (k0, k1) in (big_trans if thorough else [big_trans[i] for i in rs.choice(len(big_trans), size=3, replace=False)]):
            hist.append((form, int(rs.choice([76, 80])), [k0, k1], bool(rs.rand() < 0.3)))
    lines, metas = [], []
    for (form, n, kinds, change_mean) in hist:
        mean = rint(rs, -3, 3, size=n).astype(float)
        prev = None
        G = None
        steps = []
        for si, kind in enumerate(kinds):
            val = _gauss_value(rs, form, kind, n, prev)
            prev = dense(val) if np.ndim(val) == 2 or sp.issparse(val) else None
            if si > 0 and change_mean:
                mean = rint(rs, -3, 3, size=n).astype(float)
            desc = {"family": "Gaussian", "form": form, "dim": n, "history": kinds[:si + 1], "step": si,
                    "current_value": (dense(val).tolist() if np.ndim(val) == 2 or sp.issparse(val) else np.asarray(val).tolist()),
                    "current_mean": mean.tolist()}
            key = f"history:Gaussian:{form}:{'->'.join(kinds[:si + 1])}"
            try:
                with quiet():
                    if G is None:
                        G = Gaussian(mean.copy(), **{form: val})
                    else:
                        if change_mean:
                            G.mean = mean.copy()
                        setattr(G, form, val)
                    fresh = Gaussian(mean.copy(), **{form: (val.copy() if hasattr(val, "copy") else val)})
                    ok_dim = int(G.dim) == n and int(fresh.dim) == n
            except Exception as e:
                ctx.note(f"history: Gaussian refused {key}: {type(e).__name__}: {str(e)[:60]}")
                break
            if not ok_dim:
                break
            r1 = Script(unit_plan(n)); s1, e1, u1 = call_sample(G, n + 1, r1)
            r2 = Script(unit_plan(n)); s2, e2, u2 = call_sample(fresh, n + 1, r2)
            with quiet():
                Rf = fresh.sqrtprec
            colsel = list(range(n + 1)) if n <= 20 else [0, 1, n // 2, n]
            cols = np.hstack([np.zeros((n, 1)), np.eye(n)]).T[colsel]
            Rfd = dense(Rf)
            if n > 20 and np.count_nonzero(Rfd - np.diag(np.diag(Rfd))) and form != "sqrtprec":
                lines.append("noop")          # float-valued large factor: equality with the fresh object and the density oracle decide
            else:
                lines.append(f"gauss {1 if sp.issparse(Rf) else 0} {qv(mean.tolist())} {qm(Rfd.tolist())} {qm(cols.tolist())}")
            if n > 8:
                desc["current_value"] = "…"; desc["current_mean"] = "…"
            metas.append(dict(kind="gauss", key=key, desc=desc, G=G, n=n, s1=s1, e1=e1, s2=s2, e2=e2, u=u1, calls=r1.calls, step=si, colsel=colsel))
            # the history object is used again: freeze what the oracle needs now
            metas[-1]["oracle"] = None
            if e1 is None:
                Si = values(s1)
                if Si.shape == (n, n + 1):
                    off = Si[:, 0].copy(); B = Si[:, 1:] - off[:, None]
                    H, g = hessian_from_logpdf(G, off)
                    metas[-1]["oracle"] = (off, B, H, g)
    # ------------------------------------------------------------------ GMRF (prec / mean)
    for bc in ("zero", "neumann"):
        for order in (1, 2):
            for rep in range(2 * ctx.scale):
                n = int(rint(rs, 3, 7))
                mean = rint(rs, -3, 3, size=n).astype(float); prec = float(rs.choice([0.25, 4.0, 16.0]))
                try:
                    with quiet():
                        G = GMRF(mean.copy(), prec, bc_type=bc, order=order)
                except Exception:
                    continue
                for si in range(3):
                    if si > 0:
                        if rs.rand() < 0.7:
                            prec = float(rs.choice([p for p in (0.25, 1.0, 4.0, 16.0) if p != prec]))
                        if rs.rand() < 0.5:
                            mean = rint(rs, -3, 3, size=n).astype(float)
                        with quiet():
                            G.prec = prec; G.mean = mean.copy()
                    with quiet():
                        fresh = GMRF(mean.copy(), prec, bc_type=bc, order=order)
                    rows = int(G._diff_op.shape[0]) if bc == "neumann" else n
                    r1 = Script(unit_plan(rows)); s1, e1, u1 = call_sample(G, rows + 1, r1)
                    r2 = Script(unit_plan(rows)); s2, e2, u2 = call_sample(fresh, rows + 1, r2)
                    c = 1.0 / np.sqrt(prec)
                    cols = np.hstack([np.zeros((rows, 1)), np.eye(rows)]).T
                    if bc == "zero":
                        lines.append(f"gmrfz {qv(mean.tolist())} {q(c)} {qm(dense(fresh._chol.T).tolist())} {order} {n} 1 {qm(cols.tolist())}")
                    else:
                        lines.append(f"gmrfn {qv(mean.tolist())} {q(c)} {order} {n} 1 {qm(cols.tolist())}")
                    desc = {"family": "GMRF", "bc": bc, "order": order, "n": n, "step": si, "current_prec": prec, "current_mean": mean.tolist()}
                    metas.append(dict(kind="gmrf", key=f"history:GMRF:{bc}:order{order}", desc=desc, G=G, n=n, s1=s1, e1=e1, s2=s2, e2=e2, u=u1,
                                      calls=r1.calls, step=si, bc=bc, oracle=None))
                    if e1 is None:
                        Si = values(s1)
                        if Si.shape == (n, rows + 1):
                            off = Si[:, 0].copy(); B = Si[:, 1:] - off[:, None]
                            H, g = hessian_from_logpdf(G, off)
                            metas[-1]["oracle"] = (off, B, H, g)
    # ------------------------------------------------------------------ Lognormal (mean / cov)
    for rep in range(6 * ctx.scale + 2):
        n = int(rint(rs, 1, 4)) if rep < 6 * ctx.scale else 76
        L = None
        for si in range(3 if n < 20 else 2):
            mean = rint(rs, -1, 1, size=n).astype(float)
            kind = (str(rs.choice(["scalar", "vector", "full"])) if n > 1 else "scalar") if n < 20 else str(rs.choice(["scalar", "vector"]))
            cov = _gauss_value(rs, "cov", kind, n)
            if kind == "full":
                cov = cov / 4.0
            try:
                with quiet():
                    if L is None:
                        L = Lognormal(mean.copy(), cov)
                    else:
                        L.mean = mean.copy(); L.cov = cov
                    fresh = Lognormal(mean.copy(), cov.copy() if hasattr(cov, "copy") else cov)
                    Rf = dense(fresh._normal.sqrtprec)
            except Exception as e:
                ctx.note(f"history: Lognormal refused: {type(e).__name__}")
                break
            tgt = np.hstack([np.zeros((n, 1)), np.eye(n)])
            pl = lambda method, shape, k, tgt=tgt: tgt if method in ("randn", "standard_normal") and shape == tgt.shape else None  # noqa
            r1 = Script(pl); s1, e1, u1 = call_sample(L, n + 1, r1)
            r2 = Script(pl); s2, e2, u2 = call_sample(fresh, n + 1, r2)
            colsel = list(range(n + 1)) if n <= 20 else [0, 1, n // 2, n]
            lines.append(f"gauss 0 {qv(mean.tolist())} {qm(Rf.tolist())} {qm(tgt.T[colsel].tolist())}")
            desc = {"family": "Lognormal", "dim": n, "step": si, "current_mean": mean.tolist() if n <= 8 else "…", "current_cov": np.asarray(cov).tolist() if n <= 8 else "…"}
            metas.append(dict(kind="logn", key="history:Lognormal", desc=desc, G=L, n=n, s1=s1, e1=e1, s2=s2, e2=e2, u=u1, calls=r1.calls, step=si, oracle=None, colsel=colsel))
            if e1 is None and values(s1).shape == (n, n + 1) and np.all(values(s1) > 0):
                Y = np.log(values(s1)); off = Y[:, 0].copy(); B = Y[:, 1:] - off[:, None]
                H, g = hessian_from_logpdf(_LogVar(L), off)
                metas[-1]["oracle"] = (off, B, H, g)
    outs = ctx.lean.drive(lines)
    for m, out in zip(metas, outs):
        key, desc, n = m["key"], m["desc"], m["n"]
        ctx.case("history-" + m["kind"], desc, nontrivial=m["step"] > 0)
        if m["e1"] is not None or m["e2"] is not None:
            if (m["e1"] is None) != (m["e2"] is None):
                ctx.disagree(key, desc, m["e2"], m["e1"], "history object and fresh object differ in raising")
                ctx.fail(key, desc, "same behaviour as a freshly constructed object with the current parameters", {"history": m["e1"], "fresh": m["e2"]}, "sampling after re-assignment")
            continue
        S1, S2 = values(m["s1"]), values(m["s2"])
        if m["kind"] == "logn":
            S1c, S2c = (np.log(S1) if np.all(S1 > 0) else S1), (np.log(S2) if np.all(S2 > 0) else S2)
        else:
            S1c, S2c = S1, S2
        bad = False
        tol = 1e-6 if m.get("bc") == "neumann" else 1e-9
        if out == "bad-op":
            pass
        elif out.startswith(("err", "bad", "cert")):
            ctx.note(f"history: model refuses at {desc}: {out}")
        else:
            body = out.split(" ", 1)[1] if m["kind"] in ("gauss", "logn") or m.get("bc") == "neumann" else out
            Sm = np.array([[float(x) for x in row] for row in pm(body)]).T
            S1m = S1c[:, m["colsel"]] if m.get("colsel") is not None and S1c.ndim == 2 and S1c.shape[1] == n + 1 else S1c
            if S1m.shape != Sm.shape or not mclose(S1m.tolist(), Sm.tolist(), tol):
                ctx.disagree(key, desc, Sm.tolist(), S1c.tolist(), "draws after this step vs the model for the CURRENT parameters")
                bad = True
        fresh_same = S1.shape == S2.shape and mclose(S1c.tolist(), S2c.tolist(), 1e-12)
        if not fresh_same:
            ctx.fail(key, desc, "draws equal those of a freshly constructed object with the current parameters (same generator state)",
                     ({"history_object": S1c.tolist(), "fresh_object": S2c.tolist()} if n <= 8 else
                      {"max_abs_difference": (float(np.abs(S1c - S2c).max()) if S1c.shape == S2c.shape else "shape"), "history_diag_of_B": np.diag(S1c[:, 1:] - S1c[:, :1])[:6].tolist(),
                       "fresh_diag_of_B": np.diag(S2c[:, 1:] - S2c[:, :1])[:6].tolist()}), "state left over from earlier parameters / draws influences sampling")
        if m["oracle"] is not None:
            off, B, H, g = m["oracle"]
            if np.all(np.isfinite(H)):
                C = B @ B.T
                singular = m.get("bc") == "neumann"
                lhs, rhs = (H @ C @ H, H) if singular else (C @ H, np.eye(n))
                t2 = 1e-6
                if np.abs(g).max() > t2 * max(1.0, np.abs(H).max()) * max(1.0, np.abs(off).max()) or \
                        np.abs(lhs - rhs).max() > t2 * max(1.0, np.abs(lhs).max(), np.abs(rhs).max()):
                    ctx.fail(key, desc, "mean / covariance of the draws are those implied by the object's current log-density",
                             {"max_abs_error": float(np.abs(lhs - rhs).max()), "grad_at_offset": g.tolist()}, "after re-assignment the draws do not follow the current density")
        if not m["u"]:
            ctx.fail(key + ":global-state", desc, "global numpy random state untouched", "changed")

    # ------------------------------------------------------------------ iid families: re-assigned parameters
    fams = {
        "normal": (Normal, ["mean", "std"], lambda n: [rint(rs, -3, 3, size=n).astype(float), rs.choice([0.25, 0.5, 2.0, 4.0], size=n)]),
        "gamma": (Gamma, ["shape", "rate"], lambda n: [rs.choice([0.5, 2.0, 3.0, 4.5], size=n), rs.choice([0.25, 0.5, 2.0, 4.0], size=n)]),
        "invgamma": (InverseGamma, ["shape", "location", "scale"], lambda n: [rs.choice([2.0, 3.0, 4.5], size=n), rint(rs, -1, 2, size=n).astype(float), rs.choice([0.25, 0.5, 2.0, 4.0], size=n)]),
        "beta": (Beta, ["alpha", "beta"], lambda n: [rs.choice([0.5, 2.0, 3.0], size=n), rs.choice([0.5, 2.0, 3.0], size=n)]),
        "laplace": (Laplace, ["location", "scale"], lambda n: [rint(rs, -3, 3, size=n).astype(float), float(rs.choice([0.25, 0.5, 2.0, 4.0]))]),
        "uniform": (Uniform, ["low", "high"], lambda n: (lambda lo: [lo, lo + rs.choice([0.25, 0.5, 2.0, 4.0], size=n)])(rint(rs, -3, 3, size=n).astype(float))),
        "cauchy": (Cauchy, ["location", "scale"], lambda n: [rint(rs, -3, 3, size=n).astype(float), rs.choice([0.25, 0.5, 2.0, 4.0], size=n)]),
    }
    boundary = {"invgamma": (sps.invgamma, ["a", "loc", "scale"]), "beta": (sps.beta, ["a", "b"]), "cauchy": (sps.cauchy, ["loc", "scale"])}

    def iid_call(fam, D, N, dim, Gm):
        rec = {}
        if fam in boundary:
            law, order = boundary[fam]

            def fake(*a, _rec=rec, **kw):
                _rec["kw"] = kw
                return Gm.copy()
            law.rvs = fake
            rng = Script()
            try:
                s, err, unt = call_sample(D, N, rng)
            finally:
                del law.rvs
            kw = rec.get("kw", {})
            call = (fam + ".rvs", [np.broadcast_to(np.atleast_1d(np.asarray(kw.get(k), dtype=float)).ravel(), (dim,)).tolist() for k in order] if kw else [],
                    tuple(kw.get("size", ())), kw.get("random_state") is rng and len(rng.calls) == 0)
        else:
            rng = Script(lambda method, shape, k: Gm.copy() if shape == Gm.shape else None)
            s, err, unt = call_sample(D, N, rng)
            c = rng.calls[0] if len(rng.calls) == 1 else ("-", (), ())
            call = (c[0], [np.broadcast_to(np.atleast_1d(np.asarray(a, dtype=float)).ravel(), (dim,)).tolist() for a in c[1]], c[2], len(rng.calls) == 1 and not rng.leaked())
        return s, err, unt, call

    lines, metas = [], []
    for fam, (cls, names, gen) in fams.items():
        for rep in range(2 * ctx.scale):
            dim = int(rs.choice([1, 2, 3]))
            N = dim + 2
            pars = gen(dim)
            as_arg = lambda p: (float(np.ravel(p)[0]) if dim == 1 or np.isscalar(p) else np.array(p, dtype=float))  # noqa
            try:
                with quiet():
                    D = cls(*[as_arg(p) for p in pars])
                    assert int(D.dim) == dim
            except Exception:
                continue
            for si in range(3):
                if si > 0:
                    newp = gen(dim)
                    which = [j for j in range(len(names)) if rs.rand() < 0.6] or [int(rs.randint(len(names)))]
                    if fam == "uniform":
                        which = list(range(len(names)))
                    for j in which:
                        pars[j] = newp[j]
                        with quiet():
                            setattr(D, names[j], as_arg(pars[j]))
                with quiet():
                    fresh = cls(*[as_arg(p) for p in pars])
                Gm = rint(rs, 1, 64, size=(N, dim)) / 64.0
                s1, e1, u1, c1 = iid_call(fam, D, N, dim, Gm)
                s2, e2, u2, c2 = iid_call(fam, fresh, N, dim, Gm)
                pl = " ".join(qv(np.atleast_1d(np.asarray(as_arg(p), dtype=float)).tolist()) for p in pars)
                lines.append(f"plumb {fam} {N} {dim} {pl} {qm(Gm.tolist())}")
                desc = {"family": fam, "dim": dim, "step": si, "current_params": [np.asarray(p).tolist() for p in pars]}
                metas.append((fam, dim, N, desc, s1, e1, c1, s2, e2, c2))
    outs = ctx.lean.drive(lines)
    for (fam, dim, N, desc, s1, e1, c1, s2, e2, c2), out in zip(metas, outs):
        key = f"history:{fam}"
        ctx.case("history-iid", desc, nontrivial=desc["step"] > 0)
        if e1 is not None or e2 is not None or out.startswith(("err", "bad")):
            if (e1 is None) != (e2 is None):
                ctx.disagree(key, desc, e2, e1, "raising differs from a fresh object")
                ctx.fail(key, desc, "same behaviour as a fresh object", {"history": e1, "fresh": e2}, "sampling after re-assignment")
            continue
        call, dens, S = out.split(" ")
        method, *margs, msize = call.split("|")
        margs = [np.broadcast_to(np.array([float(x) for x in pv(a)]), (dim,)).tolist() for a in margs]
        mN, mdim = [int(t) for t in msize.split("x")]
        if not (c1[3] and c1[0] == method and c1[2] == (mN, mdim) and c1[1] == margs):
            ctx.disagree(key, desc, call, str(c1)[:200], "generator call after re-assignment vs the model for the CURRENT parameters")
        if c1[:3] != c2[:3] or not np.array_equal(values(s1), values(s2)):
            ctx.fail(key, desc, "generator call and draws equal those of a freshly constructed object with the current parameters",
                     {"history_object": str(c1[:3])[:200], "fresh_object": str(c2[:3])[:200]}, "stale parameters reach the generator after re-assignment")


_run_part3 = run


def run(ctx):   # noqa: F811
    _run_part3(ctx)
    run_histories(ctx, import_cuqi(), ctx.tier == "thorough")


# ============================================================================= part 4: memory layouts, sample -> evaluate -> sample, setter input forms
def vary(rs, v, force=None):
    """the same value in another input form the setters accept; returns (object, form name)"""
    import scipy.sparse as sp
    if sp.issparse(v):
        return v, "sparse-" + v.format
    if np.isscalar(v) or (isinstance(v, np.ndarray) and v.ndim == 0):
        x = float(v)
        forms = ["float", "np.float64", "np.float32", "array1", "list1", "array0d"] + (["int"] if x.is_integer() else [])
        f = force if force in forms else str(rs.choice(forms))
        return {"float": lambda: x, "np.float64": lambda: np.float64(x), "np.float32": lambda: np.float32(x), "array1": lambda: np.array([x]),
                "list1": lambda: [x], "array0d": lambda: np.array(x), "int": lambda: int(x)}[f](), f
    a = np.asarray(v, dtype=float)
    if a.ndim == 1:
        forms = ["array", "list", "tuple", "strided", "readonly", "float32"] + (["intarray"] if np.all(a == np.round(a)) else [])
        f = force if force in forms else str(rs.choice(forms))
        if f == "list":
            return a.tolist(), f
        if f == "tuple":
            return tuple(a.tolist()), f
        if f == "strided":
            big = np.full(2 * len(a), 7.0); big[::2] = a
            return big[::2], f
        if f == "readonly":
            b = a.copy(); b.setflags(write=False)
            return b, f
        if f == "float32":
            return a.astype(np.float32), f
        if f == "intarray":
            return a.astype(int), f
        return a.copy(), "array"
    forms = ["C", "F", "Tview", "strided", "readonly", "readonlyF", "listoflists"]
    f = force if force in forms else str(rs.choice(forms))
    if f == "F":
        return np.asfortranarray(a), f
    if f == "Tview":
        return np.ascontiguousarray(a.T).T, f
    if f == "strided":
        big = np.full((2 * a.shape[0], 3 * a.shape[1]), 7.0); big[::2, ::3] = a
        return big[::2, ::3], f
    if f == "readonly":
        b = np.ascontiguousarray(a); b.setflags(write=False)
        return b, f
    if f == "readonlyF":
        b = np.asfortranarray(a); b.setflags(write=False)
        return b, f
    if f == "listoflists":
        return a.tolist(), f
    return np.ascontiguousarray(a), "C"


def same_val(a, b):
    return (a == b) or (a != a and b != b)


def run_layouts(ctx, cuqi, thorough):
    """(A) every matrix input in C order, F order, as transposed view, strided slice, read-only; on ONE object:
    logpdf at probes -> sample -> stored bytes unchanged, logpdf unchanged -> sample again (same script) -> same draws,
    equal to a fresh object's; first draws vs the model."""
    import scipy.sparse as sp
    from cuqi.distribution import Gaussian, Lognormal
    rs = np.random.RandomState(ctx.seed + 508)
    cases = []
    for form in ("sqrtprec", "sqrtcov", "cov", "prec"):
        for layout in ("C", "F", "Tview", "strided", "readonly", "readonlyF", "listoflists"):
            for kind in ("full", "upper", "lower", "tridiag"):
                if rs.rand() < (1.0 if (form == "sqrtprec" and kind in ("full", "tridiag")) or thorough else 0.45):
                    cases.append((form, layout, kind, int(rint(rs, 2, 6))))
    for layout in ("C", "F", "Tview"):          # spectral roots `(V*sqrt(w)).T` above the dense/sparse switch
        cases.append(("cov", layout, "tridiag", 76)); cases.append(("prec", layout, "lowerbi", 77))
        if thorough or layout != "C":
            cases.append(("sqrtprec", layout, "tridiag", 76))
    lines, metas = [], []
    for (form, layout, kind, n) in cases:
        M = gen_matrix(rs, kind, n)
        if form in ("cov", "prec"):
            M = M @ M.T
        val, lname = vary(rs, M, force=layout)
        input_bytes = np.asarray(val, dtype=float).tobytes()
        mean = rint(rs, -3, 3, size=n).astype(float)
        desc = {"family": "Gaussian", "form": form, "dim": n, "matrix": kind, "layout": lname, "value": M.tolist() if n <= 8 else "…", "mean": mean.tolist() if n <= 8 else "…"}
        key = f"layout:Gaussian:{form}:{kind}:{lname}"
        try:
            with quiet():
                G = Gaussian(mean.copy(), **{form: val})
                fresh = Gaussian(mean.copy(), **{form: np.array(M, dtype=float, copy=True)})
                assert int(G.dim) == n
        except Exception as e:
            ctx.note(f"layout: constructor refused {key}: {type(e).__name__}")
            continue
        probes = [mean + rint(rs, -2, 2, size=n) for _ in range(3)]
        R0 = dense(G.sqrtprec).copy()
        sp_flag = bool(sp.issparse(G.sqrtprec))
        rec = {"lp": [], "S": [], "err": []}
        rec["lp"].append([logpdf1(G, x) for x in probes])
        for rep in range(2):
            r = Script(unit_plan(n)); s_, e_, u_ = call_sample(G, n + 1, r)
            rec["S"].append(values(s_) if e_ is None else None); rec["err"].append(e_)
            rec["lp"].append([logpdf1(G, x) for x in probes])
        s1, e1, _ = call_sample(G, 1, np.random.RandomState(11)); sF1, eF1, _ = call_sample(fresh, 1, np.random.RandomState(11))
        rF = Script(unit_plan(n)); sF, eF, _ = call_sample(fresh, n + 1, rF)
        rec["R_after"] = dense(G.sqrtprec).copy()
        rec["input_after"] = np.asarray(val, dtype=float).tobytes()
        colsel = list(range(n + 1)) if n <= 20 else [0, 1, n // 2, n]
        cols = np.hstack([np.zeros((n, 1)), np.eye(n)]).T[colsel]
        leaf_big = n > 20 and form != "sqrtprec"
        lines.append("noop" if leaf_big else f"gauss {1 if sp_flag else 0} {qv(mean.tolist())} {qm(R0.tolist())} {qm(cols.tolist())}")
        metas.append(dict(key=key, desc=desc, n=n, rec=rec, R0=R0, colsel=colsel, sF=(values(sF) if eF is None else None), eF=eF,
                          s1=(values(s1) if e1 is None else e1), sF1=(values(sF1) if eF1 is None else eF1), input_bytes=input_bytes, leaf_big=leaf_big, mean=mean))
    outs = ctx.lean.drive(lines)
    for m, out in zip(metas, outs):
        key, desc, n, rec = m["key"], m["desc"], m["n"], m["rec"]
        ctx.case("layout", desc)
        if rec["err"][0] is not None or m["eF"] is not None:
            if (rec["err"][0] is None) != (m["eF"] is None):
                ctx.disagree(key, desc, m["eF"], rec["err"][0], "raising depends on the memory layout of the input")
                ctx.fail(key, desc, "a sample, as for a C-ordered copy of the same matrix", rec["err"][0], "sampling fails for this memory layout")
            continue
        S_a = rec["S"][0]
        if not m["leaf_big"] and not out.startswith(("err", "bad")):
            Sm = np.array([[float(x) for x in row] for row in pm(out.split(" ", 1)[1])]).T
            if S_a.shape != (n, n + 1) or not mclose(S_a[:, m["colsel"]].tolist(), Sm.tolist(), 1e-9):
                ctx.disagree(key, desc, Sm.tolist() if n <= 8 else "…", S_a.tolist() if n <= 8 else "…", "first draws vs model")
        elif m["leaf_big"]:
            off = S_a[:, 0]; B = S_a[:, 1:] - off[:, None]
            if not mclose((m["R0"] @ B).tolist(), np.eye(n).tolist(), 1e-7):
                ctx.disagree(key, desc, "sqrtprec B = I", "differs", "first draws vs stored factor (before sampling)")
        problems = []
        if not np.array_equal(rec["R_after"], m["R0"]):
            problems.append(("stored sqrtprec unchanged by sample()", {"max_abs_change": float(np.abs(rec["R_after"] - m["R0"]).max())}))
        if rec["input_after"] != m["input_bytes"]:
            problems.append(("the user's input matrix unchanged by sample()", "changed"))
        for k in (1, 2):
            if not all(same_val(a, b) for a, b in zip(rec["lp"][0], rec["lp"][k])):
                problems.append((f"logpdf at fixed probe points unchanged after sample call #{k}", {"before": rec["lp"][0], "after": rec["lp"][k]}))
                break
        if rec["err"][1] is not None or rec["S"][1] is None or not np.array_equal(rec["S"][1], S_a):
            problems.append(("second sample call with the same generator script returns the same draws", rec["err"][1] or {"max_abs_diff": float(np.abs(rec["S"][1] - S_a).max())}))
        if m["sF"] is None or not mclose(S_a.tolist(), m["sF"].tolist(), 1e-11):
            problems.append(("draws equal those of a fresh object built from a C-ordered copy", "differ"))
        if isinstance(m["s1"], str) or isinstance(m["sF1"], str) or not mclose(m["s1"].tolist(), m["sF1"].tolist(), 1e-9):
            problems.append(("a later real-generator draw equals the fresh object's", "differs"))
        for dmd, got in problems:
            ctx.fail(key, desc, dmd, got, "sampling modifies the object / depends on the memory layout of the stored matrix")

    # Lognormal composes the Gaussian: same sequence with F-ordered / transposed covariance
    for layout in ("C", "F", "Tview", "strided", "readonlyF"):
        for rep in range(ctx.scale):
            n = int(rint(rs, 2, 4))
            M = gen_matrix(rs, "full", n) / 2.0; M = M @ M.T
            val, lname = vary(rs, M, force=layout)
            mean = rint(rs, -1, 1, size=n).astype(float)
            desc = {"family": "Lognormal", "dim": n, "layout": lname, "cov": M.tolist()}
            key = f"layout:Lognormal:{lname}"
            try:
                with quiet():
                    L = Lognormal(mean.copy(), val); fresh = Lognormal(mean.copy(), M.copy())
            except Exception as e:
                ctx.note(f"layout: Lognormal refused {lname}: {type(e).__name__}"); continue
            ctx.case("layout", desc)
            probes = [np.exp(mean + rint(rs, -1, 1, size=n) / 2.0) for _ in range(2)]
            lp0 = [logpdf1(L, x) for x in probes]
            sa, ea, _ = call_sample(L, 3, np.random.RandomState(5))
            lp1 = [logpdf1(L, x) for x in probes]
            sb, eb, _ = call_sample(L, 3, np.random.RandomState(5))
            sf, ef, _ = call_sample(fresh, 3, np.random.RandomState(5))
            if ea or eb or ef:
                if not (ea and eb and ef):
                    ctx.fail(key, desc, "a sample", str((ea, eb, ef)), "sampling fails for this memory layout")
                continue
            if not all(same_val(a, b) for a, b in zip(lp0, lp1)):
                ctx.fail(key, desc, "logpdf unchanged by sample()", {"before": lp0, "after": lp1}, "sampling modifies the object")
            if not (np.array_equal(values(sa), values(sb)) and mclose(values(sa).tolist(), values(sf).tolist(), 1e-9)):
                ctx.fail(key, desc, "same draws on the second call and from a fresh object", "differ", "sampling modifies the object")


def run_setter_forms(ctx, cuqi, thorough):
    """(B) re-assignment through every input form a setter accepts (python int/float, np.float32/64, 0-d and
    1-element arrays, lists, tuples, strided / read-only / integer arrays, F-ordered matrices …): after the
    assignment the draws must be those of a fresh object built with the plain float value, and follow the
    object's current logpdf."""
    from cuqi.distribution import Gaussian, GMRF, Normal, Gamma, InverseGamma, Beta, Laplace, Cauchy, Uniform, Lognormal
    rs = np.random.RandomState(ctx.seed + 509)
    scalar_forms = ["float", "np.float64", "np.float32", "array1", "list1", "array0d", "int"]
    vector_forms = ["array", "list", "tuple", "strided", "readonly", "float32", "intarray"]

    def affine_steps(key, desc, obj, fresh, rows, n, singular=False, logvar=False):
        """read-off on history object and fresh object, equality + current-density oracle"""
        tgt = np.hstack([np.zeros((rows, 1)), np.eye(rows)])
        pl = lambda method, shape, k: tgt if shape == tgt.shape else None  # noqa
        r1 = Script(pl); s1, e1, u1 = call_sample(obj, rows + 1, r1)
        r2 = Script(pl); s2, e2, u2 = call_sample(fresh, rows + 1, r2)
        ctx.case("setter-form", desc)
        if e1 is not None or e2 is not None:
            # a value form the object cannot sample with (e.g. 0-d array: len() fails) is a refusal, not a wrong draw
            ctx.case("setter-refused", {**desc, "error": e1 or e2}, nontrivial=False)
            return
        S1, S2 = values(s1), values(s2)
        if logvar:
            S1, S2 = np.log(S1), np.log(S2)
        if S1.shape != S2.shape or not mclose(S1.tolist(), S2.tolist(), 1e-6 if singular else 1e-10):
            ctx.fail(key, desc, "draws equal those of a fresh object constructed with the current value given as a plain float / C-ordered float64 array",
                     {"history_object": S1.tolist(), "fresh_object": S2.tolist()}, "the value assigned in this input form does not (fully) reach the sampler")
        if S1.shape == (n, rows + 1):
            off = S1[:, 0].copy(); B = S1[:, 1:] - off[:, None]
            affine_oracle(_LogVar(obj) if logvar else obj, off, B, key, desc, ctx, singular=singular, tol=1e-6)

    # ---- GMRF: prec through every scalar form, mean through every vector form
    for bc in ("zero", "neumann"):
        for form in scalar_forms:
            for order in ((1, 2) if thorough else (1,)):
                n = int(rint(rs, 3, 6))
                mean = rint(rs, -3, 3, size=n).astype(float)
                p0 = float(rs.choice([4.0, 16.0]))
                try:
                    with quiet():
                        G = GMRF(mean.copy(), p0, bc_type=bc, order=order)
                except Exception:
                    continue
                rows = int(G._diff_op.shape[0]) if bc == "neumann" else n
                call_sample(G, 2, np.random.RandomState(1))          # a first draw with the old precision
                p1 = float(rs.choice([p for p in (1.0, 4.0, 16.0, 64.0) if p != p0]))
                v, fname = vary(rs, p1, force=form)
                desc = {"family": "GMRF", "bc": bc, "order": order, "n": n, "prec_before": p0, "prec_assigned": p1, "input_form": fname}
                key = f"setter:GMRF:prec:{fname}"
                try:
                    with quiet():
                        G.prec = v
                        _ = logpdf1(G, mean)
                except Exception as e:
                    ctx.case("setter-refused", desc, nontrivial=False); continue
                if rs.rand() < 0.5:
                    mean = rint(rs, -3, 3, size=n).astype(float)
                    mv, mname = vary(rs, mean, force=str(rs.choice(vector_forms)))
                    desc["mean_form"] = mname
                    try:
                        with quiet():
                            G.mean = mv
                    except Exception:
                        continue
                with quiet():
                    fresh = GMRF(mean.copy(), p1, bc_type=bc, order=order)
                affine_steps(key, desc, G, fresh, rows, n, singular=(bc != "zero"))
    # ---- Gaussian: scalar / vector / matrix forms of all four parameters (and of the mean)
    for form in ("cov", "prec", "sqrtcov", "sqrtprec"):
        for fname_ in scalar_forms + vector_forms + ["F", "Tview", "strided", "readonlyF", "listoflists"]:
            n = int(rint(rs, 2, 5))
            mean = rint(rs, -3, 3, size=n).astype(float)
            kind0 = str(rs.choice(["scalar", "vector", "lower", "diag2d"]))
            kind1 = "scalar" if fname_ in scalar_forms else ("vector" if fname_ in vector_forms else str(rs.choice(["full", "upper", "tridiag"])))
            v0 = _gauss_value(rs, form, kind0, n)
            v1 = _gauss_value(rs, form, kind1, n)
            vin, fname = vary(rs, v1, force=fname_)
            desc = {"family": "Gaussian", "form": form, "dim": n, "before": kind0, "assigned": kind1, "input_form": fname,
                    "assigned_value": np.asarray(v1).tolist()}
            key = f"setter:Gaussian:{form}:{fname}"
            try:
                with quiet():
                    G = Gaussian(mean.copy(), **{form: v0})
                    call_sample(G, 2, np.random.RandomState(1))
                    setattr(G, form, vin)
                    if rs.rand() < 0.4:
                        mean = rint(rs, -3, 3, size=n).astype(float)
                        G.mean = vary(rs, mean)[0]
                    fresh = Gaussian(mean.copy(), **{form: (np.array(v1, dtype=float, copy=True) if not np.isscalar(v1) else float(v1))})
                    assert int(G.dim) == n and int(fresh.dim) == n
                    _ = logpdf1(G, mean)
            except Exception as e:
                ctx.case("setter-refused", desc, nontrivial=False); continue
            affine_steps(key, desc, G, fresh, n, n)
    # ---- Lognormal
    for fname_ in scalar_forms + vector_forms:
        n = int(rint(rs, 2, 4))
        mean = rint(rs, -1, 1, size=n).astype(float)
        v1 = _gauss_value(rs, "cov", "scalar" if fname_ in scalar_forms else "vector", n)
        vin, fname = vary(rs, v1, force=fname_)
        desc = {"family": "Lognormal", "dim": n, "input_form": fname, "assigned_cov": np.asarray(v1).tolist()}
        try:
            with quiet():
                L = Lognormal(mean.copy(), 4.0)
                call_sample(L, 2, np.random.RandomState(1))
                L.cov = vin
                fresh = Lognormal(mean.copy(), v1)
                _ = logpdf1(L, np.exp(mean))
        except Exception:
            ctx.case("setter-refused", desc, nontrivial=False); continue
        affine_steps(f"setter:Lognormal:cov:{fname}", desc, L, fresh, n, n, logvar=True)
    # ---- iid families: every parameter through every form; recorded generator call and draws vs a fresh object
    import scipy.stats as sps
    fams = {
        "normal": (Normal, ["mean", "std"]), "gamma": (Gamma, ["shape", "rate"]), "invgamma": (InverseGamma, ["shape", "location", "scale"]),
        "beta": (Beta, ["alpha", "beta"]), "laplace": (Laplace, ["location", "scale"]), "uniform": (Uniform, ["low", "high"]),
        "cauchy": (Cauchy, ["location", "scale"]),
    }
    base = {"normal": [1.0, 2.0], "gamma": [2.0, 4.0], "invgamma": [3.0, 0.0, 2.0], "beta": [2.0, 3.0], "laplace": [1.0, 2.0], "uniform": [0.0, 2.0], "cauchy": [1.0, 2.0]}
    newv = {"normal": [3.0, 0.5], "gamma": [3.0, 0.25], "invgamma": [4.0, 1.0, 0.5], "beta": [3.0, 0.5], "laplace": [-2.0, 0.25], "uniform": [-1.0, 4.0], "cauchy": [-2.0, 0.5]}
    for fam, (cls, names) in fams.items():
        for j, nm in enumerate(names):
            for fname_ in scalar_forms:
                if fam == "uniform" and nm == "low":
                    pass
                pars = list(base[fam])
                desc = {"family": fam, "parameter": nm, "input_form": fname_, "before": base[fam][j], "assigned": newv[fam][j]}
                key = f"setter:{fam}:{nm}:{fname_}"
                vin, fname = vary(rs, newv[fam][j], force=fname_)
                if fname != fname_:
                    continue
                try:
                    with quiet():
                        D = cls(*pars)
                        call_sample(D, 2, np.random.RandomState(1))
                        setattr(D, nm, vin)
                        pars[j] = newv[fam][j]
                        fresh = cls(*pars)
                except Exception:
                    ctx.case("setter-refused", desc, nontrivial=False); continue
                ctx.case("setter-form", desc)
                K = 6
                outs_ = []
                for obj in (D, fresh):
                    seen = {}

                    class S3(Script):
                        def _out(self, method, args, size):
                            seen["m"] = (method, [np.asarray(a_, dtype=float).ravel().tolist() for a_ in args])
                            return super()._out(method, args, size)
                    s_, e_, _ = call_sample(obj, K, S3())
                    outs_.append((e_, seen.get("m"), values(s_).tolist() if e_ is None else None))
                (e1, c1, x1), (e2, c2, x2) = outs_
                if e1 is not None or e2 is not None:
                    ctx.case("setter-refused", {**desc, "error": e1 or e2}, nontrivial=False)
                    continue
                if c1 != c2 or not mclose(x1, x2, 1e-12):
                    ctx.fail(key, desc, "generator call and draws equal those of a fresh object built with the plain float value",
                             {"history_object": [c1, x1], "fresh_object": [c2, x2]}, "the value assigned in this input form does not reach the sampler")
                    continue
                try:
                    logpdf1(D, np.array([0.375 if fam == "beta" else 1.5]))
                except Exception as e:
                    # the density cannot be evaluated with a parameter stored in this form (e.g. a python list): nothing to compare with
                    ctx.case("setter-density-refuses", desc, nontrivial=False)
                    continue
                law_oracle(ctx, D, key, desc)


_run_part4 = run


def run(ctx):   # noqa: F811
    _run_part4(ctx)
    cuqi = import_cuqi()
    run_layouts(ctx, cuqi, ctx.tier == "thorough")
    run_setter_forms(ctx, cuqi, ctx.tier == "thorough")
    # stored-state check made inside every call_sample of the whole run
    seen = set()
    for (cls, attr, N, rep) in MUTATIONS:
        if (cls, attr) in seen:
            continue
        seen.add((cls, attr))
        ctx.fail(f"mutation:{cls}:{attr}", {"object": rep, "N": N, "attribute": attr}, "sample() leaves every stored array / scalar of the distribution unchanged",
                 "bytes changed during sample()", "sampling modifies the distribution object")
    ctx.extra_cov["stored_state_snapshots"] = "every sample() call of the run"
    del MUTATIONS[:]


# ============================================================================= part 5: generic input classes
def odd_plan(seed):
    """scripted draws that are never integers (odd multiples of 1/8; uniforms in (0,1))"""
    rsx = np.random.RandomState(seed)

    def plan(method, shape, k):
        if method in ("uniform", "random_sample", "rand", "beta"):
            return (2 * rsx.randint(0, 32, size=shape) + 1) / 64.0
        if method in ("gamma", "standard_gamma", "exponential", "standard_exponential", "lognormal", "chisquare"):
            return (2 * rsx.randint(0, 24, size=shape) + 1) / 8.0
        return (2 * rsx.randint(-12, 12, size=shape) + 1) / 8.0
    return plan


def retype(a, form):
    """same numbers, other array type (G1 / G7); None when the form does not apply"""
    from cuqi.array import CUQIarray
    a = np.asarray(a, dtype=float)
    integral = bool(np.all(a == np.round(a)))
    if form in ("int64", "int32"):
        return a.astype(form) if integral else None
    if form in ("uint8", "int8", "float16", "bool"):
        b = a.astype({"bool": bool}.get(form, form))
        return b if np.array_equal(b.astype(float), a) else None      # only when the numbers are representable
    if form == "float32":
        return a.astype(np.float32) if np.all(a.astype(np.float32) == a) else None
    if form == "cuqiarray":
        return CUQIarray(a.copy()) if a.ndim == 1 else None
    if form == "matrix":
        return np.matrix(a) if a.ndim == 2 else None
    if form == "negstride":
        return a[::-1].copy()[::-1] if a.ndim == 1 else np.ascontiguousarray(a[::-1, ::-1])[::-1, ::-1]
    if form == "list":
        return a.tolist()
    if form == "F":
        return np.asfortranarray(a) if a.ndim == 2 else None
    return None


def run_generic(ctx, cuqi, thorough):
    import scipy.sparse as sp
    from cuqi.distribution import Gaussian, GMRF, Lognormal, Normal, Gamma, InverseGamma, Beta, Laplace, Uniform, Cauchy
    from cuqi.geometry import Continuous1D, Continuous2D, Discrete
    rs = np.random.RandomState(ctx.seed + 510)

    # ---------------------------------------------------------------- (a) optional arguments passed positionally
    zoo = family_zoo(cuqi, rs)
    for fam, mk, dim in zoo:
        try:
            with quiet():
                D = mk()
        except Exception:
            continue
        for N in (1, 3):
            desc = {"family": fam, "dim": dim, "N": N, "call": "sample(N, rng)  [generator passed positionally]"}
            key = f"positional-rng:{fam}"
            ctx.case("positional-rng", desc)
            before = global_state_fingerprint()
            try:
                with quiet():
                    a = D.sample(N, np.random.RandomState(77)); b = D.sample(N, np.random.RandomState(77)); c = D.sample(N, rng=np.random.RandomState(77))
                rec = Script(odd_plan(5))
                with quiet():
                    d = D.sample(N, rec)
                err = None
            except Exception as e:
                err = type(e).__name__ + ": " + str(e)[:80]
            untouched = before == global_state_fingerprint()
            if err is not None:
                ctx.fail(key, desc, "a sample", err, "a generator passed positionally is not accepted"); continue
            for s_ in (a, b, c, d):
                RETAINED.append((s_, np.array(values(s_), copy=True), f"{fam} positional"))
            if not untouched:
                ctx.fail(key, desc, "global numpy random state untouched when a generator is given (positionally)", "changed", "the given generator is dropped; the global stream is used")
            if not (np.array_equal(values(a), values(b)) and np.array_equal(values(a), values(c))):
                ctx.fail(key, desc, "sample(N, gen) is a deterministic function of the generator state and equals sample(N, rng=gen)",
                         {"positional_1": values(a).tolist(), "positional_2": values(b).tolist(), "keyword": values(c).tolist()}, "the positional generator is not used")
            if len(rec.calls) == 0 and not rec.leaked():
                ctx.fail(key, desc, "the given generator is consulted", "no call reached it", "the positional generator is not used")

    # ---------------------------------------------------------------- (b) same numbers, other array types
    forms = ["int64", "int32", "float32", "cuqiarray", "matrix", "negstride", "list", "F", "uint8", "int8", "float16", "bool"]
    geoms = [lambda n: None, lambda n: Continuous1D(np.linspace(0, 1, n)), lambda n: Discrete([f"v{i}" for i in range(n)]),
             lambda n: Continuous2D((2, n // 2)) if n % 2 == 0 else Continuous1D(n)]

    def compare_typed(key, desc, make_typed, make_plain, n, logspace=False, known_n1_key=None):
        """draws (N = 1 and N = 4, non-integer scripted draws) of the typed object vs the float64 object; wrapping"""
        try:
            with quiet():
                A = make_typed(); Bp = make_plain()
                assert int(A.dim) == n and int(Bp.dim) == n
        except Exception as e:
            ctx.case("typed-refused", {**desc, "error": type(e).__name__}, nontrivial=False)
            return None
        for N in (1, 4):
            ra, rb = Script(odd_plan(9)), Script(odd_plan(9))
            s1, e1, u1 = call_sample(A, N, ra); s2, e2, u2 = call_sample(Bp, N, rb)
            ctx.case("typed-input", {**desc, "N": N})
            if e1 is not None or e2 is not None:
                if e1 is not None and e2 is None:
                    ctx.case("typed-refused", {**desc, "error": e1}, nontrivial=False)
                continue
            X1, X2 = values(s1), values(s2)
            single = any(t in key for t in ("float32", "float16", "int8", "uint8", "bool"))   # routes that may compute in single precision
            if X1.shape != X2.shape or not np.allclose(X1, X2, rtol=1e-6 if single else 1e-10, atol=1e-6 if single else 1e-12):
                ctx.disagree(key, {**desc, "N": N}, X2.tolist(), X1.tolist(), "draws for the same numbers given in another array type vs float64 ndarray")
                ctx.fail(key, {**desc, "N": N}, "draws equal those of the object built from float64 ndarrays holding the same numbers (same generator output)",
                         {"typed": X1.tolist(), "float64": X2.tolist(), "generator_output": [np.asarray(c[1]).tolist() if False else c[0] for c in ra.calls]},
                         "the type / dtype of a parameter array changes the draws")
            for d_, g_ in wrap_oracle(cuqi, A, N, s1):
                ctx.fail(known_n1_key if (N == 1 and known_n1_key and "entries" in str(g_)) else key, {**desc, "N": N}, d_, g_,
                         "one draw must be a parameter array with the DISTRIBUTION's geometry (not a parameter's), several draws a Samples with it")
        return A

    for rep in range(2 * ctx.scale):
        for form_m in forms:
            for pform in ("sqrtprec", "sqrtcov", "cov", "prec"):
                n = int(rs.choice([2, 3, 4, 6]))
                kind = str(rs.choice(["vector", "lower", "upper", "full", "diag2d", "sparse"]))
                if kind == "vector":
                    M = np.array(rs.choice([1.0, 2.0, 4.0] if pform in ("sqrtprec", "sqrtcov") else [1.0, 4.0, 16.0], size=n))
                else:
                    M = gen_matrix(rs, "lowerbi" if kind == "sparse" else kind if kind != "diag2d" else "diag", n)
                    M = np.round(M)
                    M[np.diag_indices(n)] = np.where(np.diag(M) == 0, 2.0, np.diag(M))
                    if pform in ("cov", "prec"):
                        M = M @ M.T
                mean = rint(rs, -3, 3, size=n).astype(float)
                Mt = retype(M, form_m)
                mform = str(rs.choice(["int64", "cuqiarray", "float32", "list", "negstride"]))
                mt = retype(mean, mform)
                if kind == "sparse":
                    if form_m not in ("int64", "int32", "float32", "uint8", "int8"):
                        continue
                    if retype(M, form_m) is None:
                        continue
                    Mt = sp.csr_matrix(M.astype(form_m)).asformat(str(rs.choice(["csr", "csc", "dia", "coo"])))
                if Mt is None:
                    continue
                geo = geoms[int(rs.randint(len(geoms)))](n)
                kw = {} if geo is None else {"geometry": geo}
                desc = {"family": "Gaussian", "form": pform, "dim": n, "matrix": kind, "matrix_type": form_m, "mean_type": type(mt).__name__ + ":" + str(getattr(mt, "dtype", "")),
                        "geometry": repr(geo), "value": M.tolist(), "mean": mean.tolist()}
                compare_typed(f"typed:Gaussian:{pform}:{kind}:{form_m}:mean-{mform}", desc,
                              lambda: Gaussian(mt if mt is not None else mean.copy(), **{pform: Mt}, **kw),
                              lambda: Gaussian(mean.copy(), **{pform: (sp.csr_matrix(M) if kind == "sparse" else M.copy())}, **kw), n)
    # GMRF / Lognormal means and covariances, iid parameters
    for form_m in ["int64", "int32", "float32", "cuqiarray", "negstride", "list", "uint8", "int8", "float16"]:
        for rep in range(ctx.scale):
            n = 4
            mean = rint(rs, -2, 2, size=n).astype(float)
            mt = retype(mean, form_m)
            if mt is None:
                continue
            for bc in ("zero", "neumann"):
                for geo in (None, Continuous2D((2, 2)), Continuous1D(np.linspace(0, 1, n))):
                    kw = {} if geo is None else {"geometry": geo}
                    desc = {"family": "GMRF", "bc": bc, "mean_type": form_m, "geometry": repr(geo), "mean": mean.tolist()}
                    compare_typed(f"typed:GMRF:{bc}:mean:{form_m}", desc, lambda: GMRF(mt, 4.0, bc_type=bc, **kw), lambda: GMRF(mean.copy(), 4.0, bc_type=bc, **kw), n,
                                  known_n1_key=("wrap:gmrfNeumann:N1" if bc == "neumann" else None))
            cov = np.array(rs.choice([1.0, 4.0, 16.0], size=n))
            ct = retype(cov, form_m if form_m != "cuqiarray" else "int64")
            for geo in (None, Continuous2D((2, 2))):
                kw = {} if geo is None else {"geometry": geo}
                desc = {"family": "Lognormal", "mean_type": form_m, "geometry": repr(geo), "mean": (mean / 2).tolist(), "cov": cov.tolist()}
                m2 = retype(mean, form_m)
                compare_typed(f"typed:Lognormal:{form_m}", desc, lambda: Lognormal(m2, ct if ct is not None else cov, **kw), lambda: Lognormal(mean.copy(), cov.copy(), **kw), n)
            iid = {"normal": (Normal, [mean, np.array([1.0, 2.0, 4.0, 2.0])]), "gamma": (Gamma, [np.array([1.0, 2.0, 3.0, 2.0]), np.array([1.0, 2.0, 4.0, 2.0])]),
                   "laplace": (Laplace, [mean, 2.0]), "cauchy": (Cauchy, [mean, np.array([1.0, 2.0, 4.0, 2.0])]),
                   "uniform": (Uniform, [mean, mean + np.array([1.0, 2.0, 4.0, 2.0])]), "beta": (Beta, [np.array([1.0, 2.0, 3.0, 2.0]), np.array([2.0, 2.0, 1.0, 3.0])]),
                   "invgamma": (InverseGamma, [np.array([2.0, 3.0, 4.0, 3.0]), mean, np.array([1.0, 2.0, 4.0, 2.0])])}
            for fam, (cls, pars) in iid.items():
                typed = [(retype(p_, form_m) if not np.isscalar(p_) else (int(p_) if form_m.startswith("int") else p_)) for p_ in pars]
                if any(t is None for t in typed):
                    continue
                for geo in (None, Continuous2D((2, 2))):
                    kw = {} if geo is None else {"geometry": geo}
                    desc = {"family": fam, "param_type": form_m, "geometry": repr(geo), "params": [np.asarray(p_).tolist() for p_ in pars]}
                    compare_typed(f"typed:{fam}:{form_m}", desc, lambda: cls(*typed, **kw), lambda: cls(*[np.array(p_, dtype=float) if not np.isscalar(p_) else float(p_) for p_ in pars], **kw), n)

    # ---------------------------------------------------------------- (c) extreme scales (tolerance-based decisions)
    lines, metas = [], []
    for sc in (1e-12, 1e-9, 1e-6, 1e6, 1e9, 1e12):
        for pform in ("sqrtprec", "sqrtcov"):
            for kind in ("upper", "lower", "full", "upperbi", "vector", "sparse-upperbi"):
                if rs.rand() > (1.0 if thorough else 0.6) and not (pform == "sqrtprec" and kind == "upper"):
                    continue
                n = int(rint(rs, 2, 5))
                if kind == "vector":
                    M0 = np.array(rs.choice([0.5, 2.0, 4.0], size=n))
                else:
                    M0 = gen_matrix(rs, kind.replace("sparse-", ""), n)
                M = M0 * sc
                val = sp.csr_matrix(M) if kind.startswith("sparse") else M
                desc = {"family": "Gaussian", "form": pform, "dim": n, "matrix": kind, "scale": sc, "unscaled_value": M0.tolist()}
                try:
                    with quiet():
                        G = Gaussian(np.zeros(n), **{pform: val})
                        R = G.sqrtprec
                        Rd = dense(R)
                        # the whole problem is posed in the same (tiny / huge) units: mean = a few tens of standard
                        # deviations, possibly far below any absolute tolerance (1e-8) yet not negligible
                        mean_u = rint(rs, 1, 4, size=n).astype(float) * rs.choice([-1.0, 1.0], size=n) * 10.0 / float(np.abs(Rd).max())
                        if rs.rand() < 0.15:
                            mean_u[:] = 0.0
                        G = Gaussian(mean_u.copy(), **{pform: val})
                        R = G.sqrtprec
                        Rd = dense(R)
                        desc["mean"] = mean_u.tolist()
                except Exception as e:
                    ctx.case("scale-refused", {**desc, "error": type(e).__name__}, nontrivial=False); continue
                r = Script(unit_plan(n)); s_, e_, u_ = call_sample(G, n + 1, r)
                upper = np.abs(np.triu(Rd, 1))
                tol_class = (not sp.issparse(R)) and upper.max() > 0 and upper.max() <= 1e-8
                key = f"scale:Gaussian:{pform}:" + ("stored-upper-entries-below-1e-8" if tol_class else kind)
                cols = np.hstack([np.zeros((n, 1)), np.eye(n)]).T
                lines.append(f"gauss {1 if sp.issparse(R) else 0} {qv(mean_u.tolist())} {qm(Rd.tolist())} {qm(cols.tolist())}")
                metas.append(dict(key=key, desc=desc, G=G, n=n, s=s_, e=e_, Rd=Rd, sc=sc, pform=pform))
    outs = ctx.lean.drive(lines)
    for m, out in zip(metas, outs):
        key, desc, n, Rd = m["key"], m["desc"], m["n"], m["Rd"]
        ctx.case("scale", desc)
        if m["e"] is not None or out.startswith(("err", "bad")):
            if (m["e"] is not None) != out.startswith("err"):
                ctx.disagree(key, desc, out[:60], m["e"], "refusal")
            continue
        S = values(m["s"])
        Sm = np.array([[float(x) for x in row] for row in pm(out.split(" ", 1)[1])]).T
        rscale = float(np.abs(Rd).max())                    # draws scale like 1/rscale: compare dimensionless numbers
        if S.shape != Sm.shape or not np.allclose(S * rscale, Sm * rscale, rtol=1e-9, atol=1e-9):
            ctx.disagree(key, desc, (Sm * rscale).tolist(), (S * rscale).tolist(), "draws x |sqrtprec|max for unit normal vectors")
        if S.shape == (n, n + 1):
            off = S[:, 0].copy(); B = S[:, 1:] - off[:, None]
            # oracle 1 (implementation only): the perturbation solves sqrtprec p = e, relatively
            RB = Rd @ B
            if not np.allclose(RB, np.eye(n), rtol=1e-8, atol=1e-8):
                ctx.fail(key, desc, "sqrtprec · (draw(e_k) − draw(0)) = e_k for every k (relative 1e-8)", {"sqrtprec_times_B": RB.tolist()},
                         "the solver selected for this scale does not solve the system (a tolerance test decides the structure)")
            # oracle 2: density of the same object, probed with a step matched to the scale
            affine_oracle(m["G"], off, B, key, desc, ctx, tol=1e-6, h=1.0 / rscale)

    # ---------------------------------------------------------------- (d) returned arrays do not alias the object (G3)
    for fam, mk, dim in zoo[:40]:
        try:
            with quiet():
                D = mk()
        except Exception:
            continue
        desc = {"family": fam, "dim": dim}
        ctx.case("alias", desc)
        s1, e1, _ = call_sample(D, 1, np.random.RandomState(3)); s3, e3, _ = call_sample(D, 3, np.random.RandomState(4))
        if e1 or e3:
            continue
        keep1, keep3 = values(s1).copy(), values(s3).copy()
        snap0 = snapshot(D)
        try:
            a1 = np.asarray(s1); a3 = np.asarray(s3.samples)
            if a1.flags.writeable and a1.ndim > 0:
                a1[...] = 12345.0
            if a3.flags.writeable:
                a3[...] = -777.0
        except Exception:
            pass
        RETAINED[:] = [r_ for r_ in RETAINED if r_[0] is not s1 and r_[0] is not s3]
        snap1 = snapshot(D)
        changed = [k for k in snap0 if k in snap1 and snap0[k] is not None and not (snap0[k] == snap1[k] or snap0[k] != snap0[k])]
        t1, _, _ = call_sample(D, 1, np.random.RandomState(3)); t3, _, _ = call_sample(D, 3, np.random.RandomState(4))
        if changed or t1 is None or t3 is None or not (np.array_equal(values(t1), keep1) and np.array_equal(values(t3), keep3)):
            ctx.fail(f"alias:{fam}", desc, "writing into a returned sample changes neither the distribution nor later draws", {"changed_attributes": changed},
                     "returned arrays alias internal state")


_run_part5 = run


def run(ctx):   # noqa: F811
    _run_part5(ctx)
    cuqi = import_cuqi()
    run_generic(ctx, cuqi, ctx.tier == "thorough")


# ============================================================================= part 6: user-defined samplers, block/threshold sizes, small units
def run_custom(ctx, cuqi, thorough):
    """UserDefinedDistribution / DistributionGallery: one column per draw, in call order, whatever object the user's
    sampling callable returns (fresh arrays, the SAME buffer updated in place, views of internal state, (dim,1)
    arrays, CUQIarrays, python floats)."""
    from cuqi.distribution import UserDefinedDistribution, DistributionGallery
    from cuqi.array import CUQIarray
    rs = np.random.RandomState(ctx.seed + 511)
    kinds = ["fresh", "buffer", "view", "col", "cuqiarray", "float32", "readonly-buffer-copy"]
    lines, metas = [], []
    for kind in kinds:
        for dim in (1, 2, 3, 5):
            for N in (1, 2, 3, 7, 300):
                if N == 300 and (dim > 2 or not (thorough or kind in ("fresh", "buffer", "view"))):
                    continue
                stream = (2 * rs.randint(-20, 20, size=(N + 2, dim)) + 1) / 8.0
                state = {"k": 0, "buf": np.zeros(dim), "big": np.zeros((2, dim)), "log": []}

                def sample_func(kind=kind, stream=stream, state=state, dim=dim):
                    v = stream[state["k"]]; state["k"] += 1
                    state["log"].append(v.copy())
                    if kind == "fresh":
                        return v.copy()
                    if kind == "buffer":
                        state["buf"][:] = v
                        return state["buf"]                       # the same array object on every call
                    if kind == "view":
                        state["big"][1, :] = v
                        return state["big"][1]                    # a view into internal state
                    if kind == "col":
                        return v.copy().reshape(dim, 1)
                    if kind == "cuqiarray":
                        return CUQIarray(v.copy())
                    if kind == "float32":
                        return v.astype(np.float32)
                    b = v.copy(); b.setflags(write=False)
                    return b
                logpdf = lambda x: -0.5 * float(np.sum(np.asarray(x) ** 2))  # noqa
                with quiet():
                    D = UserDefinedDistribution(dim=dim, logpdf_func=logpdf, sample_func=sample_func)
                s_, e_, u_ = call_sample(D, N, np.random.RandomState(0))
                calls = [c.copy() for c in state["log"]]
                desc = {"family": "UserDefinedDistribution", "dim": dim, "N": N, "sample_func_returns": kind}
                lines.append(f"custom {N} {dim} {qm([c.tolist() for c in calls[:N]]) if len(calls) >= N else '_'}")
                lines.append(f"shape custom 0 {dim} {N}")
                metas.append((kind, dim, N, D, s_, e_, calls, desc))
    outs = ctx.lean.drive(lines)
    for i, (kind, dim, N, D, s_, e_, calls, desc) in enumerate(metas):
        out, oshape = outs[2 * i], outs[2 * i + 1]
        key = f"custom:{kind}:{'N1' if N == 1 else 'N>1'}"
        ctx.case("custom", desc)
        if e_ is not None:
            ctx.case("custom-refused", {**desc, "error": e_}, nontrivial=False)       # e.g. (dim,1) returns with dim > 1: a refusal
            continue
        X = values(s_)
        if len(calls) != N:
            ctx.disagree(key, desc, N, len(calls), "number of calls of the user's sampling function")
        if not out.startswith(("err", "bad")):
            Sm = np.array([[float(x) for x in row] for row in pm(out)])
            if X.shape != Sm.shape or not np.array_equal(X, Sm):
                ctx.disagree(key, desc, Sm.tolist() if N <= 7 else Sm[:, :4].tolist(), X.tolist() if N <= 7 else X[:, :4].tolist(), "column i = value returned by the i-th call")
        tok = shape_token(cuqi, s_)
        if tok != oshape:
            ctx.disagree(key, desc, oshape, tok, "type/shape of the result")
        # oracle (implementation only): one column per draw, in call order
        ref = np.array([c for c in calls[:N]]).T if len(calls) >= N else None
        if ref is None or X.shape != ref.shape or not np.array_equal(X, ref):
            bad_cols = [] if ref is None or X.shape != ref.shape else [int(j) for j in range(N) if not np.array_equal(X[:, j], ref[:, j])][:6]
            ctx.fail(key, desc, "column i of the result is the draw the i-th call of the user's sampling function returned",
                     {"columns_differing": bad_cols, "first_columns": X[:, :4].tolist(), "draws_returned_by_calls": (ref[:, :4].tolist() if ref is not None else None)},
                     "draws are not copied when they are returned (aliasing of a re-used buffer) / wrong order")
        for d_, g_ in wrap_oracle(cuqi, D, N, s_):
            ctx.fail(key, desc, d_, g_, "wrapping")
    # gallery: the bivariate Gaussian delegates to a Gaussian sampler and reports its density
    for name in ("BivariateGaussian",):
        try:
            with quiet():
                D = DistributionGallery(name)
        except Exception as e:
            ctx.note(f"gallery {name} refused: {type(e).__name__}"); continue
        desc = {"family": "DistributionGallery", "name": name}
        r = Script(unit_plan(2)); s_, e_, _ = call_sample(D, 3, r)
        ctx.case("gallery", desc)
        if e_ is None:
            S = values(s_); off = S[:, 0].copy(); B = S[:, 1:] - off[:, None]
            affine_oracle(D, off, B, f"gallery:{name}", desc, ctx)
            for d_, g_ in wrap_oracle(cuqi, D, 3, s_):
                ctx.fail(f"gallery:{name}", desc, d_, g_, "wrapping")


def run_blocks(ctx, cuqi, thorough):
    """sizes just past internal block / threshold constants: N around 256 (and 75, 100, 1000), dims around 2000;
    every column of a large request must be the affine image of its own normal column (resp. the transposed
    generator output for the iid families)."""
    import scipy.sparse as sp
    from cuqi.distribution import Gaussian, GMRF, Lognormal, Normal, Gamma, Laplace, Uniform, Cauchy, Beta, InverseGamma
    from cuqi.geometry import Image2D
    rs = np.random.RandomState(ctx.seed + 512)
    Ns = [74, 76, 100, 101, 255, 256, 257, 300, 513] + ([1000, 1025, 2049] if thorough else [1001])
    objs = []
    n = 4
    with quiet():
        objs.append(("Gaussian:tri", Gaussian(np.arange(n, dtype=float), sqrtprec=gen_matrix(rs, "lower", n)), n, False, 1e-9))
        objs.append(("Gaussian:dense", Gaussian(np.arange(n, dtype=float), sqrtprec=gen_matrix(rs, "full", n)), n, False, 1e-9))
        objs.append(("Gaussian:sparse", Gaussian(np.arange(n, dtype=float), sqrtprec=sp.csr_matrix(gen_matrix(rs, "tridiag", n))), n, False, 1e-9))
        objs.append(("Gaussian:cov-vector", Gaussian(np.arange(n, dtype=float), cov=np.array([0.25, 4.0, 1.0, 16.0])), n, False, 1e-9))
        objs.append(("Lognormal", Lognormal(np.zeros(n), np.array([0.25, 1.0, 0.0625, 0.25])), n, True, 1e-9))
        for order in (1, 2):
            objs.append((f"GMRF:zero:order{order}", GMRF(np.arange(n, dtype=float), 4.0, bc_type="zero", order=order), n, False, 1e-9))
        objs.append(("GMRF:zero:2D", GMRF(np.arange(9, dtype=float), 4.0, bc_type="zero", geometry=Image2D((3, 3))), 9, False, 1e-9))
        objs.append(("GMRF:neumann", GMRF(np.arange(n, dtype=float), 4.0, bc_type="neumann"), n, False, 1e-6))
        objs.append(("GMRF:periodic", GMRF(np.arange(n, dtype=float), 4.0, bc_type="periodic"), n, False, 1e-9))
    for name, D, dim, logspace, tol in objs:
        # read-off (offset, B) once
        blocks = []

        def unit(method, shape, k):
            return None
        rows = int(D._diff_op.shape[0]) if name == "GMRF:neumann" else dim
        ncalls = 2 if name == "GMRF:periodic" else 1
        tot = rows * ncalls

        def plan_unit(method, shape, k, rows=rows, tot=tot):
            Z = np.zeros((rows, tot + 1)); Z[:, 1 + k * rows:1 + (k + 1) * rows] = np.eye(rows)
            return Z
        s0, e0, _ = call_sample(D, tot + 1, Script(plan_unit))
        if e0 is not None:
            continue
        S0 = values(s0); S0 = np.log(S0) if logspace else S0
        off = S0[:, 0].copy(); B = S0[:, 1:] - off[:, None]
        for N in Ns:
            zs = []

            def plan(method, shape, k, zs=zs):
                z = (2 * rs.randint(-12, 12, size=shape) + 1) / 8.0
                zs.append(z); return z
            r = Script(plan)
            s_, e_, _ = call_sample(D, N, r)
            desc = {"family": name, "dim": dim, "N": N}
            key = f"blocks:{name}"
            ctx.case("block-sizes", desc)
            if e_ is not None:
                ctx.fail(key, desc, "a sample", e_, "sampling fails for this number of draws"); continue
            X = values(s_); X = np.log(X) if logspace else X
            Z = np.vstack(zs) if zs else np.zeros((0, N))
            if Z.shape != (B.shape[1], N):
                # another generator path than the one read off (recorded-law checks elsewhere decide about it)
                ctx.note(f"blocks: generator calls of shape {[z.shape for z in zs]} at {desc}; affine prediction not applicable")
                continue
            pred = off[:, None] + B @ Z
            if X.shape != pred.shape or not np.allclose(X, pred, rtol=tol, atol=tol * max(1.0, float(np.abs(pred).max()))):
                badc = [] if X.shape != pred.shape else [int(j) for j in np.where(np.abs(X - pred).max(axis=0) > tol * max(1.0, float(np.abs(pred).max())))[0][:8]]
                ctx.disagree(key, desc, "offset + B xi_j for every column j", {"first_wrong_columns": badc}, "large request vs the affine map read off from a small request")
                ctx.fail(key, desc, f"each of the {N} columns is the affine image of its own normal column (one column per draw, all following the density)",
                         {"first_wrong_columns": badc, "n_wrong": (None if X.shape != pred.shape else int((np.abs(X - pred).max(axis=0) > tol * max(1.0, float(np.abs(pred).max()))).sum())),
                          "example_wrong_column": (X[:, badc[0]].tolist() if badc else None), "its_prediction": (pred[:, badc[0]].tolist() if badc else None)},
                         "some columns of a large request are not drawn / not solved (block or threshold handling)")
            for d_, g_ in wrap_oracle(cuqi, D, N, s_):
                ctx.fail(key, desc, d_, g_, "wrapping")
    # iid families: draws = transposed generator output for every N
    iid = [("normal", Normal(np.array([1.0, 2.0]), 0.5)), ("gamma", Gamma(np.array([2.0, 3.0]), 4.0)), ("laplace", Laplace(np.array([1.0, 2.0]), 0.5)),
           ("uniform", Uniform(np.array([0.0, 1.0]), np.array([2.0, 5.0]))), ("cauchy", Cauchy(np.array([1.0, 2.0]), 0.5)), ("beta", Beta(np.array([2.0, 3.0]), 2.0)),
           ("invgamma", InverseGamma(np.array([3.0, 4.0]), 0.0, 2.0))]
    for fam, D in iid:
        for N in Ns:
            desc = {"family": fam, "dim": 2, "N": N}
            ctx.case("block-sizes", desc)
            rA, rB = Script(odd_plan(N)), Script(odd_plan(N))
            sA, eA, _ = call_sample(D, N, rA)
            if eA is not None:
                ctx.fail(f"blocks:{fam}", desc, "a sample", eA, "sampling fails for this number of draws"); continue
            X = values(sA)
            # column j must be what a one-draw-at-a-time use of the same generator output gives
            cols = []
            ok = X.shape == (2, N) and len(rA.calls) == 1
            if ok and fam in ("normal", "gamma", "laplace", "uniform"):
                G = odd_plan(N)(rA.calls[0][0], rA.calls[0][2], 0)
                ok = np.array_equal(X, G.T)
            elif ok:
                # scipy path: same uniform block, requested in two halves, must give the same columns
                h = N // 2
                D1 = D
                u = odd_plan(N)(rA.calls[0][0], rA.calls[0][2], 0)
                s1, e1, _ = call_sample(D1, h, Script(lambda m, shp, k, u=u, h=h: u[:h]))
                s2, e2, _ = call_sample(D1, N - h, Script(lambda m, shp, k, u=u, h=h: u[h:]))
                ok = e1 is None and e2 is None and np.allclose(np.hstack([values(s1), values(s2)]), X, rtol=1e-12, atol=0)
            if not ok:
                ctx.fail(f"blocks:{fam}", desc, "column j of a large request is the draw made from row j of the generator output", "differs",
                         "some columns of a large request are not drawn from their own generator output")
    # dims around MAX_DIM_INV = 2000 (light: defining relation of the draw only)
    for dimL in (1999, 2001):
        mean = np.arange(dimL, dtype=float) % 7
        for name, mk in (("GMRF:zero", lambda: GMRF(mean.copy(), 4.0, bc_type="zero")), ("Gaussian:cov-vector", lambda: Gaussian(mean.copy(), cov=np.full(dimL, 0.25)))):
            desc = {"family": name, "dim": dimL, "N": 2}
            ctx.case("block-sizes", desc)
            try:
                with quiet():
                    D = mk()
            except Exception as e:
                ctx.note(f"blocks: {name} dim {dimL} refused: {type(e).__name__}"); continue
            zs = []

            def planL(method, shape, k, zs=zs):
                z = (2 * rs.randint(-12, 12, size=shape) + 1) / 8.0
                zs.append(z); return z
            s_, e_, _ = call_sample(D, 2, Script(planL))
            if e_ is not None:
                ctx.fail(f"blocks:{name}:dim", desc, "a sample", e_, "sampling fails at this dimension"); continue
            X = values(s_)
            with quiet():
                Rq = D.sqrtprec
            lhs = Rq @ (X - mean[:, None])
            if X.shape != (dimL, 2) or not np.allclose(np.asarray(lhs), zs[0], rtol=1e-9, atol=1e-9):
                ctx.fail(f"blocks:{name}:dim", desc, "sqrtprec · (draw − mean) = the normal column, for every column", "differs", "draws at a dimension past an internal threshold")


def run_units(ctx, cuqi, thorough):
    """problems posed in tiny / huge units (location parameters far below any absolute tolerance but not negligible
    against the spread): GMRF, Lognormal and the iid families (Gaussian is in the scale block)."""
    from cuqi.distribution import GMRF, Lognormal, Normal, Laplace, Cauchy, Uniform, Gaussian
    rs = np.random.RandomState(ctx.seed + 513)
    lines, metas = [], []
    for sc in (1e-12, 1e-9, 1e-6, 1e6, 1e9):
        # GMRF: mean ~ sc, standard deviations ~ sc/10
        n = 4
        m0 = rint(rs, 1, 4, size=n).astype(float)
        mean = m0 * sc; prec = 100.0 / sc ** 2
        for bc in ("zero", "neumann"):
            with quiet():
                G = GMRF(mean.copy(), prec, bc_type=bc)
            rows = int(G._diff_op.shape[0]) if bc == "neumann" else n
            s_, e_, _ = call_sample(G, rows + 1, Script(unit_plan(rows)))
            desc = {"family": "GMRF", "bc": bc, "units": sc, "mean": mean.tolist(), "prec": prec}
            key = f"units:GMRF:{bc}"
            ctx.case("units", desc)
            if e_ is not None:
                ctx.fail(key, desc, "a sample", e_, "sampling raises"); continue
            S = values(s_); off = S[:, 0].copy(); B = S[:, 1:] - off[:, None]
            with quiet():
                fresh1 = GMRF(m0.copy(), 100.0, bc_type=bc)
            s1, e1, _ = call_sample(fresh1, rows + 1, Script(unit_plan(rows)))
            if e1 is None and not np.allclose(S / sc, values(s1), rtol=1e-6 if bc == "neumann" else 1e-9, atol=1e-9):
                ctx.disagree(key, desc, values(s1).tolist(), (S / sc).tolist(), "draws / unit vs the same problem posed in unit 1")
            affine_oracle(G, off, B, key, desc, ctx, singular=(bc != "zero"), tol=1e-6, h=sc / 10.0)
        # iid location-scale families: parameters must reach the generator exactly
        for fam, cls, pars in (("normal", Normal, [3.0 * sc, sc / 8]), ("laplace", Laplace, [-2.0 * sc, sc / 8]), ("cauchy", Cauchy, [5.0 * sc, sc / 8]),
                               ("uniform", Uniform, [2.0 * sc, 3.0 * sc])):
            with quiet():
                D = cls(*pars)
            N = 5
            Gm = pars[0] + (pars[1] if fam != "uniform" else (pars[1] - pars[0])) * (2 * rs.randint(0, 8, size=(N, 1)) + 1) / 16.0
            desc = {"family": fam, "units": sc, "params": pars}
            key = f"units:{fam}"
            ctx.case("units", desc)
            law_oracle_ok = True
            holder = {}

            class S4(Script):
                def _out(self, method, args, size):
                    holder["m"] = (method, [float(np.ravel(a_)[0]) for a_ in args])
                    return super()._out(method, args, size)
            if fam == "cauchy":
                # scipy path: compare with the unit-1 problem under the same uniform output
                u = (2 * rs.randint(0, 8, size=(N, 1)) + 1) / 16.0
                sA, eA, _ = call_sample(D, N, Script(lambda m_, shp, k: u))
                with quiet():
                    D1 = cls(pars[0] / sc, pars[1] / sc)
                sB, eB, _ = call_sample(D1, N, Script(lambda m_, shp, k: u))
                if eA is None and eB is None and not np.allclose(values(sA) / sc, values(sB), rtol=1e-9, atol=1e-12):
                    ctx.fail(key, desc, "draws scale with the units of location and scale", {"scaled": (values(sA) / sc).tolist(), "unit": values(sB).tolist()}, "a location / scale parameter is lost at this magnitude")
                continue
            sA, eA, _ = call_sample(D, N, S4(lambda m_, shp, k: Gm))
            if eA is not None or "m" not in holder:
                ctx.fail(key, desc, "a sample", eA, "sampling raises"); continue
            if holder["m"][1] != [float(p_) for p_ in pars] or not np.array_equal(values(sA), Gm.T):
                ctx.fail(key, desc, "the generator receives exactly the distribution's parameters and its output is returned", {"generator_args": holder["m"], "params": pars},
                         "a parameter is altered / dropped at this magnitude")
        # Lognormal: mean tiny (log-scale), spread tiny (only where exp/log round-trip keeps 1e-6 relative accuracy)
        if not (1e-7 < sc <= 1.0 or sc == 1e6):
            continue
        with quiet():
            L = Lognormal(np.array([2.0, -3.0]) * min(sc, 1.0), np.array([0.25, 4.0]) * min(sc, 1.0) ** 2 * 1e-2)
        desc = {"family": "Lognormal", "units": min(sc, 1.0)}
        ctx.case("units", desc)
        s_, e_, _ = call_sample(L, 3, Script(unit_plan(2)))
        if e_ is None and np.all(values(s_) > 0):
            Y = np.log(values(s_)); off = Y[:, 0].copy(); B = Y[:, 1:] - off[:, None]
            exp_off = np.array([2.0, -3.0]) * min(sc, 1.0)
            if not np.allclose(off, exp_off, rtol=1e-6, atol=0) or not np.allclose(B, np.diag(np.sqrt(np.array([0.25, 4.0]) * 1e-2) * min(sc, 1.0)), rtol=1e-6, atol=0):
                ctx.fail("units:Lognormal", desc, "log-draw = mean + sqrt(cov) xi", {"offset": off.tolist(), "B": B.tolist()}, "location or spread lost at this magnitude")


# ============================================================================= fixed corpus (seed-independent, runs first)
def run_corpus(ctx, cuqi):
    """One minimal configuration of every input class that has ever exposed a property-breaking change; independent of
    VERIF_SEED and of the case counts of the random streams."""
    import scipy.sparse as sp
    from cuqi.distribution import (Gaussian, GMRF, Lognormal, Normal, Gamma, Laplace, Uniform, Cauchy, Beta, InverseGamma,
                                   UserDefinedDistribution)
    from cuqi.array import CUQIarray
    from cuqi.geometry import Continuous2D

    def readoff(D, rows, logspace=False):
        s_, e_, _ = call_sample(D, rows + 1, Script(lambda m, shp, k: np.hstack([np.zeros((rows, 1)), np.eye(rows)]) if shp == (rows, rows + 1) else None))
        if e_ is not None:
            return None
        S = values(s_)
        if logspace:
            if not np.all(S > 0):
                return None
            S = np.log(S)
        return S[:, 0].copy(), S[:, 1:] - S[:, :1]

    def affine_case(key, desc, D, rows, **kw):
        ctx.case("corpus", desc)
        ro = readoff(D, rows, logspace=kw.pop("logspace", False))
        if ro is None:
            ctx.fail(key, desc, "draws through the Gaussian path", "sampling raises / non-positive", "corpus"); return
        affine_oracle(kw.pop("density", D), ro[0], ro[1], key, desc, ctx, **kw)

    with quiet():
        # 1. every family, non-unit scale parameters: recorded generator law vs own density (dim 1 and vectors)
        law_objs = [("Lognormal:scalar", Lognormal(1.0, 4.0)), ("Lognormal:scalar", Lognormal(-1.0, 0.25)), ("Lognormal:vector", Lognormal(np.array([0.0, 1.0]), np.array([0.25, 4.0]))),
                    ("iid:normal:law", Normal(1.0, 0.5)), ("iid:normal:law", Normal(np.array([0.0, 1.0]), np.array([0.25, 4.0]))), ("iid:gamma:law", Gamma(3.0, 4.0)),
                    ("iid:gamma:law", Gamma(np.array([2.0, 3.0]), np.array([0.25, 4.0]))), ("iid:laplace:law", Laplace(1.0, 0.25)), ("iid:uniform:law", Uniform(-1.0, 3.0)),
                    ("iid:cauchy:law", Cauchy(1.0, 0.25)), ("iid:beta:law", Beta(2.0, 3.0)), ("iid:invgamma:law", InverseGamma(3.0, 1.0, 0.5)),
                    ("Gaussian:cov:diagonal:law", Gaussian(np.array([1.0, -1.0]), cov=np.array([0.25, 4.0]))), ("Gaussian:cov:diagonal:law", Gaussian(1.0, 4.0))]
    for key, D in law_objs:
        desc = {"corpus": key, "object": repr(D)[:70]}
        ctx.case("corpus", desc)
        with quiet():
            d_ = int(D.dim)
        law_oracle(ctx, D, key, desc, K=7 if d_ > 1 else 9)
    with quiet():
        # 2. affine families: triangular / full / sparse (all forms), GMRF, Lognormal with matrix covariance
        L_ = np.array([[2.0, 0.0, 0.0], [1.0, 4.0, 0.0], [-1.0, 1.0, 0.5]])
        F_ = np.array([[4.0, 1.0, 0.0], [-1.0, 3.0, 1.0], [0.5, 0.0, 2.0]])
        aff = [("Gaussian:sqrtprec:lower:dense-in", Gaussian(np.array([1.0, 2.0, 3.0]), sqrtprec=L_), 3, {}),
               ("Gaussian:sqrtprec:full:dense-in", Gaussian(np.array([1.0, 2.0, 3.0]), sqrtprec=F_), 3, {}),
               ("Gaussian:sqrtprec:full:dense-in", Gaussian(np.array([1.0, 2.0, 3.0]), sqrtprec=np.asfortranarray(F_)), 3, {}),
               ("Gaussian:sqrtprec:upperbi:sparse-dia", Gaussian(np.zeros(4), sqrtprec=sp.diags([[1.0, 2.0, 4.0, 0.5], [1.0, -1.0, 1.0]], [0, 1])), 4, {}),
               ("Gaussian:sqrtcov:full:dense-in", Gaussian(np.zeros(3), sqrtcov=F_), 3, {}),
               ("Gaussian:cov:full:dense-in", Gaussian(np.zeros(3), cov=F_ @ F_.T), 3, {}),
               ("Gaussian:prec:full:sparse-csr", Gaussian(np.zeros(3), prec=sp.csr_matrix(F_ @ F_.T)), 3, {}),
               ("typed:Gaussian:sqrtprec:lower:int64:mean-int64", Gaussian(np.array([1, 2]), sqrtprec=np.array([[1, 0], [1, 2]])), 2, {}),
               ("scale:Gaussian:sqrtprec:upper", Gaussian(np.array([3e-11, -2e-11]), sqrtprec=1e12 * np.array([[1.0, 1.0], [0.0, 2.0]])), 2, {"h": 1e-12, "tol": 1e-6}),
               ("scale:Gaussian:sqrtprec:stored-upper-entries-below-1e-8", Gaussian(np.zeros(2), sqrtprec=1e-9 * np.array([[1.0, 1.0], [0.0, 1.0]])), 2, {"h": 1e9, "tol": 1e-6}),
               ("GMRF:zero:1D:order1", GMRF(np.arange(5.0), 4.0, bc_type="zero"), 5, {}),
               ("GMRF:zero:1D:order2", GMRF(np.arange(5.0), 0.25, bc_type="zero", order=2), 5, {})]
        Ln = Lognormal(np.array([0.0, 1.0]), np.array([[1.0, 0.5], [0.5, 2.0]]))
    for key, D, rows, kw in aff:
        affine_case(key, {"corpus": key}, D, rows, **dict(kw))
    affine_case("Lognormal:full", {"corpus": "Lognormal:full"}, Ln, 2, logspace=True, density=_LogVar(Ln), tol=1e-6)
    with quiet():
        Gn = GMRF(np.arange(5.0), 4.0, bc_type="neumann")
    ro = readoff(Gn, int(Gn._diff_op.shape[0]))
    ctx.case("corpus", {"corpus": "GMRF:neumann:1D:order1"})
    if ro is not None:
        affine_oracle(Gn, ro[0], ro[1], "GMRF:neumann:1D:order1", {"corpus": "GMRF:neumann"}, ctx, singular=True, tol=1e-6)
    # 3. wrapping / geometry / generator handling
    with quiet():
        Gm = Gaussian(CUQIarray(np.arange(4.0)), 1.0, geometry=Continuous2D((2, 2)))
        objs = [("gaussian", Gm), ("gmrfZero", GMRF(CUQIarray(np.arange(4.0)), 1.0, geometry=Continuous2D((2, 2)))), ("normal", Normal(np.array([0.0, 1.0]), 2.0)),
                ("gamma", Gamma(2.0, 4.0)), ("lognormal", Lognormal(np.zeros(2), 4.0))]
    for fam, D in objs:
        for N in (1, 3):
            desc = {"corpus": "wrap/rng", "family": fam, "N": N}
            ctx.case("corpus", desc)
            before = global_state_fingerprint()
            with quiet():
                a = D.sample(N, np.random.RandomState(5)); b = D.sample(N, rng=np.random.RandomState(5))
            if before != global_state_fingerprint() or not np.array_equal(values(a), values(b)):
                ctx.fail(f"positional-rng:{fam}", desc, "sample(N, gen) == sample(N, rng=gen), global state untouched", "differs", "generator passed positionally is not used")
            for d_, g_ in wrap_oracle(cuqi, D, N, a):
                ctx.fail(f"wrap:{fam}:{'N1' if N == 1 else 'N>1'}", desc, d_, g_, "wrapping")
    with quiet():
        gens = [("gmrfZero", GMRF(np.zeros(4), 4.0, bc_type="zero")), ("gmrfNeumann", GMRF(np.zeros(4), 4.0, bc_type="neumann")), ("gmrfPeriodic", GMRF(np.zeros(4), 4.0, bc_type="periodic")),
                ("normal", Normal(0.0, 2.0)), ("gamma", Gamma(2.0, 4.0)), ("laplace", Laplace(0.0, 2.0)), ("uniform", Uniform(0.0, 2.0)), ("beta", Beta(2.0, 3.0)),
                ("cauchy", Cauchy(0.0, 2.0)), ("invgamma", InverseGamma(3.0, 0.0, 2.0)), ("gaussian", Gaussian(np.zeros(2), 4.0)), ("lognormal", Lognormal(np.zeros(2), 4.0))]
    for fam, D in gens:
        for N in (1, 3):
            generator_clause(ctx, fam, D, N, {"corpus": "generator object", "family": fam, "N": N})
    with quiet():
        Dc = Gaussian(lambda z: z * np.ones(2), 1.0, geometry=2)
    s_, e_, _ = call_sample(Dc, 1, np.random.RandomState(0))
    ctx.case("corpus", {"corpus": "conditional"})
    if not (e_ is not None and e_.startswith("ValueError")):
        ctx.fail("cond:gaussian:none", {"corpus": "conditional"}, "refusal", e_ or "a sample", "conditional distribution samples")
    # 4. histories on one object
    with quiet():
        Gh = Gaussian(np.zeros(80), cov=4.0)
    call_sample(Gh, 2, np.random.RandomState(1))
    with quiet():
        Gh.cov = np.full(80, 0.25); Gf = Gaussian(np.zeros(80), cov=np.full(80, 0.25))
    r1 = readoff(Gh, 80); r2 = readoff(Gf, 80)
    ctx.case("corpus", {"corpus": "history sparse cov"})
    if r1 is None or r2 is None or not np.allclose(r1[1], r2[1]):
        ctx.fail("history:Gaussian:cov:scalar->vector", {"corpus": "dim 80, cov 4 -> 0.25 after a first draw"}, "draws of the current covariance (as a fresh object)", "differ", "stale state after re-assignment")
    with quiet():
        Gt = Gaussian(np.zeros(3), sqrtprec=L_.copy())
    call_sample(Gt, 2, np.random.RandomState(1))
    with quiet():
        Gt.sqrtprec = F_.copy(); Gtf = Gaussian(np.zeros(3), sqrtprec=F_.copy())
    r1 = readoff(Gt, 3); r2 = readoff(Gtf, 3)
    ctx.case("corpus", {"corpus": "history lower -> full"})
    if r1 is None or r2 is None or not np.allclose(r1[1], r2[1]):
        ctx.fail("history:Gaussian:sqrtprec:lower->full", {"corpus": "lower -> full after a first draw"}, "draws of the current sqrtprec (as a fresh object)", "differ", "stale state after re-assignment")
    with quiet():
        Gp = GMRF(np.zeros(4), 16.0, bc_type="zero")
    call_sample(Gp, 2, np.random.RandomState(1))
    with quiet():
        Gp.prec = np.array([1.0]); Gpf = GMRF(np.zeros(4), 1.0, bc_type="zero")
    r1 = readoff(Gp, 4); r2 = readoff(Gpf, 4)
    ctx.case("corpus", {"corpus": "setter form"})
    if r1 is None or r2 is None or not np.allclose(r1[1], r2[1]):
        ctx.fail("setter:GMRF:prec:array1", {"corpus": "G.prec = np.array([1.0]) after a first draw with prec 16"}, "draws of the current precision", "differ", "stale state after re-assignment")
    # 5. sample -> evaluate -> sample on an F-ordered full sqrtprec
    with quiet():
        Go = Gaussian(np.zeros(3), sqrtprec=np.asfortranarray(F_))
    lp0 = logpdf1(Go, np.ones(3)); ra = readoff(Go, 3); lp1 = logpdf1(Go, np.ones(3)); rb = readoff(Go, 3)
    ctx.case("corpus", {"corpus": "layout F"})
    if ra is None or rb is None or lp0 != lp1 or not np.array_equal(ra[1], rb[1]):
        ctx.fail("layout:Gaussian:sqrtprec:full:F", {"corpus": "F-ordered full sqrtprec: logpdf, sample, logpdf, sample"}, "object unchanged by sampling", {"logpdf": [lp0, lp1]}, "sampling modifies the object")
    # 6. many draws (block sizes) and user-defined buffers
    with quiet():
        Gz = GMRF(np.arange(4.0), 4.0, bc_type="zero")
    ro = readoff(Gz, 4)
    zs = []
    s_, e_, _ = call_sample(Gz, 300, Script(lambda m, shp, k: zs.append((2 * np.random.RandomState(3).randint(-12, 12, size=shp) + 1) / 8.0) or zs[-1]))
    ctx.case("corpus", {"corpus": "N=300"})
    if ro is None or e_ is not None or not np.allclose(values(s_), ro[0][:, None] + ro[1] @ zs[0], rtol=1e-9, atol=1e-9):
        ctx.fail("blocks:GMRF:zero:order1", {"corpus": "GMRF zero, N = 300"}, "every column is the affine image of its own normal column", "differs", "columns of a large request not drawn")
    buf = np.zeros(2); cnt = {"k": 0}

    def sf():
        cnt["k"] += 1; buf[:] = [cnt["k"], -cnt["k"]]; return buf
    with quiet():
        U = UserDefinedDistribution(dim=2, logpdf_func=lambda x: 0.0, sample_func=sf)
    s_, e_, _ = call_sample(U, 3, None)
    ctx.case("corpus", {"corpus": "user buffer"})
    if e_ is not None or not np.array_equal(values(s_), np.array([[1.0, 2.0, 3.0], [-1.0, -2.0, -3.0]])):
        ctx.fail("custom:buffer:N>1", {"corpus": "sample_func re-using one buffer, N = 3"}, "column i = i-th draw", None if e_ else values(s_).tolist(), "draws alias the buffer")


_run_part6 = run


def guarded(ctx, name, fn, *a):
    import traceback
    try:
        fn(*a)
    except Exception as e:  # noqa
        tb = traceback.format_exc()[-900:]
        ctx.disagree(f"harness:{name}", {"stream": name}, "stream completes", tb, "the implementation behaves in a way the harness stream cannot process (treated as a broken tie)")


def run(ctx):   # noqa: F811
    cuqi = import_cuqi()
    th = ctx.tier == "thorough"
    del RETAINED[:]
    guarded(ctx, "corpus", run_corpus, ctx, cuqi)          # fixed, seed-independent corpus: runs first on every seed
    _run_part6(ctx)
    guarded(ctx, "custom", run_custom, ctx, cuqi, th)
    guarded(ctx, "blocks", run_blocks, ctx, cuqi, th)
    guarded(ctx, "units", run_units, ctx, cuqi, th)
    # session 3: whole-sampler streams
    import sys
    from harness.props import c05_mhn
    guarded(ctx, "mhn-stream", c05_mhn.run_mhn_stream, ctx, cuqi, th, sys.modules[__name__])
    from harness.props import c05_gmrf
    guarded(ctx, "gmrf-large", c05_gmrf.run_gmrf_large, ctx, cuqi, th, sys.modules[__name__])
    from harness.props import c05_single, c05_callforms

    def _single_and_callforms():
        me = sys.modules[__name__]
        l1, st1 = c05_single.prepare(ctx, cuqi, th, me)
        l2, st2 = c05_callforms.prepare(ctx, cuqi, th, me)
        outs = ctx.lean.drive(l1 + l2)          # one driver start for both streams
        c05_single.finish(ctx, cuqi, me, st1, outs[:len(l1)])
        c05_callforms.finish(ctx, cuqi, me, st2, outs[len(l1):])
    guarded(ctx, "single-draw+call-forms", _single_and_callforms)
    # G8: every sample object returned during the whole run still holds the numbers it held when it was returned
    bad = 0
    for (obj, copy, what) in RETAINED:
        try:
            now = values(obj)
            same = now.shape == copy.shape and np.array_equal(now, copy, equal_nan=True)
        except Exception:
            same = False
        if not same:
            bad += 1
            if bad <= 3:
                ctx.fail("retained-output:" + what.split()[0], {"returned_by": what}, "an array returned by sample() keeps its values while later calls are made",
                         "values changed after it was returned", "later calls overwrite earlier results (shared buffers / views)")
    ctx.extra_cov["retained_outputs_reverified"] = len(RETAINED)
    del RETAINED[:]
