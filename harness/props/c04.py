"""C04 — log-densities are the documented normalised densities in every parameterisation.

Correspondence (tie): for every generated case the real `logpdf` / `pdf` / `logd` / `cdf` and, for
Gaussians, the stored `_rank`, `_logdet`, `sqrtprec.T@sqrtprec` are compared with the executable
Lean model (Driver/C04.lean): status (value / -inf / nan / raise) and value (1e-9), rank exactly.
Oracle (implementation only, run on EVERY case): the documented density evaluated independently
(scipy.stats / explicit numpy formula, one term per component of the geometry), numerical
quadrature of exp(logpdf) for normalisation (1-D, a few 2-D), product of component cdfs.
"""
import math, struct, os
import numpy as np
import scipy.stats as sps
import scipy.sparse as spa
import scipy.special as spsp
from fractions import Fraction
from harness.core import import_cuqi, quiet, q, qv, qm
from harness.core import close as _core_close
import sys as _sys

# margins of the float comparisons: per call site (source line), the largest |a-b| / (tol*(1+max|a|,|b|)) among the PASSING
# comparisons (a ratio above 0.1 means less than a factor 10 of head-room); written to the evidence by run()
MARGINS = {}


def _record_margin(a, b, tol, ok, depth=2):
    try:
        a = float(a); b = float(b)
    except Exception:  # noqa
        return
    if not ok or a != a or b != b or math.isinf(a) or math.isinf(b) or tol <= 0:
        return
    r = abs(a - b) / (tol * (1.0 + max(abs(a), abs(b))))
    fr = _sys._getframe(depth)
    site = f"{fr.f_code.co_filename.rsplit('/', 1)[-1]}:{fr.f_lineno}:tol={tol:g}"
    if r > MARGINS.get(site, -1.0):
        MARGINS[site] = r


def _cpu():
    t = os.times()
    return t[0] + t[1] + t[2] + t[3]          # this process and the (reaped) Lean driver children


def _timed(fn, ctx, *args):
    """run one section and record its CPU seconds in the evidence"""
    t0 = _cpu()
    try:
        return fn(ctx, *args)
    finally:
        d = ctx.extra_cov.setdefault("section_cpu_s", {})
        d[fn.__name__] = round(d.get(fn.__name__, 0.0) + _cpu() - t0, 2)


def close(a, b, tol=1e-9):
    ok = _core_close(a, b, tol)
    _record_margin(a, b, tol, ok)
    return ok


TOL = 1e-9          # model value vs implementation value
ORTOL = 1e-8        # independent reference vs implementation value
QTOL = 2e-6         # quadrature


def dec(tok):
    kind, v = tok.split(":", 1)
    if kind == "q":
        return float(Fraction(v))
    return struct.unpack("<d", struct.pack("<Q", int(v)))[0]


def dy(rng, lo, hi, den=4):
    return rng.randint(int(lo * den), int(hi * den)) / den


def fnum(r):
    """implementation result -> python float (arrays of one element are unwrapped)"""
    a = np.asarray(r, dtype=float)
    if a.size != 1:
        raise ValueError(f"log-density is not a scalar: shape {a.shape}")
    return float(a.ravel()[0])


def call(fn):
    """('value', float) | ('raise', class name)"""
    try:
        with quiet():
            return "value", fnum(fn())
    except Exception as e:  # noqa
        return "raise", type(e).__name__


def status_of(v):
    if v != v:
        return "nan"
    if v == float("inf"):
        return "inf"
    if v == float("-inf"):
        return "-inf"
    return "formula"


def model_parse(out):
    """driver answer -> (status, value|None)"""
    t = out.split()
    if t[0] in ("formula", "ok", "value"):
        return "formula", t
    return t[0], t


def agree(mstat, mval, istat, ival, tol=TOL):
    """model (status, value) vs implementation ('value', float)/('raise', cls)"""
    if mstat == "raise" or istat == "raise":
        return mstat == istat
    s = status_of(ival)
    if mstat == "formula":
        # the formula itself may evaluate to a non-finite double; compare values then
        return close(mval, ival, tol)
    return mstat == s


def verdict(ctx, key, desc, tie_ok, mrepr, irepr, fail, what="model and implementation differ"):
    """Report one case.  `fail` = None or (demanded, got, what) from the implementation-only oracle.
    Tie holds: an oracle failure is reported under `key` (the model, faithful to recorded defects, predicts it).
    Tie broken: reported under `key:model-mismatch` — never under a key a known-finding record could match —
    together with the oracle's failing input when it has one."""
    if tie_ok:
        if fail:
            ctx.fail(key, desc, *fail)
    else:
        k = key + ":model-mismatch"
        ctx.disagree(k, desc, mrepr, irepr, what)
        if fail:
            ctx.fail(k, desc, *fail)


def run(ctx):
    cuqi = import_cuqi()
    MARGINS.clear()
    import cuqi.distribution as D
    import cuqi.geometry as G
    thorough = ctx.tier == "thorough"
    S = ctx.scale
    rng = ctx.rng
    nrng = np.random.RandomState(ctx.seed + 404)
    ctx.trusted += ["RExpr.evalFloat / lgammaF (driver float evaluation, compared to 1e-9)",
                    "scipy.stats / scipy.special / scipy.integrate (independent reference of the oracle)",
                    "scipy component cdfs (leaf data of the cdf combination rule)"]
    ctx.assumptions += [f"model-vs-implementation tolerance {TOL} (rel+abs); reference tolerance {ORTOL}; quadrature {QTOL}",
                        "parameters and points are dyadic rationals sent exactly to the model",
                        "no sksparse.cholmod in the environment: full scipy-sparse Gaussians expose no normalised logpdf (NotImplementedError)"]
    fam_hist = {}
    ctx.extra_cov["family_mode_histogram"] = fam_hist
    stat_hist = {}
    ctx.extra_cov["status_histogram"] = stat_hist

    def bump(h, k):
        h[k] = h.get(k, 0) + 1

    def geom_for(n, mode_rng):
        """a geometry of parameter dimension n (scalar broadcast over a multi-dimensional geometry included)"""
        c = mode_rng.random()
        if n >= 4 and c < 0.35:
            for a in (2, 3):
                if n % a == 0:
                    return G.Image2D((a, n // a)), f"Image2D({a},{n // a})"
        if c < 0.55:
            return G.Continuous1D(n), "Continuous1D"
        if c < 0.65:
            return G.Discrete(n), "Discrete"
        return n, "int"

    # =================================================================== 1. i.i.d. families
    FAMS = ["normal", "laplace", "smoothedlaplace", "cauchy", "gamma", "invgamma", "beta", "mhn", "uniform"]

    def gen_params(fam, n, where):
        """parameter lists p1,p2,p3 (length 1 = scalar or n) and a point x; `where` in in|out|edge"""
        def vs(gen, force_scalar=False, force_vec=False):
            if force_scalar or (not force_vec and rng.random() < 0.45):
                return [gen()]
            return [gen() for _ in range(n)]
        x = None
        if fam == "normal":
            p = [vs(lambda: dy(rng, -3, 3)), vs(lambda: dy(rng, 0.25, 4)), []]
            x = [dy(rng, -5, 5, 8) for _ in range(n)]
        elif fam == "laplace":
            p = [vs(lambda: dy(rng, -3, 3)), [dy(rng, 0.25, 4)], []]
            x = [dy(rng, -5, 5, 8) for _ in range(n)]
        elif fam == "smoothedlaplace":
            p = [vs(lambda: dy(rng, -3, 3)), vs(lambda: dy(rng, 0.25, 4)), [dy(rng, 0.125, 2, 8)]]
            x = [dy(rng, -5, 5, 8) for _ in range(n)]
        elif fam == "cauchy":
            p = [vs(lambda: dy(rng, -3, 3)), vs(lambda: dy(rng, 0.25, 4)), []]
            x = [dy(rng, -5, 5, 8) for _ in range(n)]
            if where == "out":
                p[1][rng.randrange(len(p[1]))] = rng.choice([0.0, -0.5, -2.0])
        elif fam == "gamma":
            p = [vs(lambda: dy(rng, 0.5, 5)), vs(lambda: dy(rng, 0.25, 4)), []]
            x = [dy(rng, 0.125, 6, 8) for _ in range(n)]
            if where == "out":
                x[rng.randrange(n)] = -dy(rng, 0.25, 2)
            elif where == "edge":
                j0 = rng.randrange(n)
                x[j0] = 0.0
                c = rng.random()
                if c < 0.4:
                    p[0] = [rng.choice([0.5, 1.0, 1.0, 2.0])]
                elif len(p[0]) > 1:
                    p[0][j0] = rng.choice([0.5, 1.0, 1.0, 2.0])
                if rng.random() < 0.3:
                    x = [0.0] * n                      # the all-zero evaluation point
        elif fam == "invgamma":
            p = [vs(lambda: dy(rng, 0.5, 5)), vs(lambda: dy(rng, -2, 2)), vs(lambda: dy(rng, 0.25, 4))]
            loc = lambda j: p[1][0] if len(p[1]) == 1 else p[1][j]
            x = [loc(j) + dy(rng, 0.25, 4, 8) for j in range(n)]
            if where == "out":
                j = rng.randrange(n); x[j] = loc(j) - dy(rng, 0.25, 2)
            elif where == "edge":
                j = rng.randrange(n); x[j] = loc(j)
        elif fam == "beta":
            p = [vs(lambda: dy(rng, 0.5, 5)), vs(lambda: dy(rng, 0.5, 5)), []]
            x = [rng.randint(2, 30) / 32 for _ in range(n)]
            if where == "out":
                x[rng.randrange(n)] = rng.choice([-0.25, 1.5])
            elif where == "edge":
                x[rng.randrange(n)] = rng.choice([0.0, 1.0])
        elif fam == "mhn":
            # scalars only (the class documents float parameters); alpha = beta = gamma is the only case its
            # formula can get right, the generator draws all three freely
            p = [[dy(rng, 0.5, 4)], [dy(rng, 0.25, 3)], [dy(rng, -2, 2)]]
            if rng.random() < 0.15:
                p[1] = list(p[0]); p[2] = list(p[0])
            x = [dy(rng, 0.25, 4, 8) for _ in range(n)]
            if where == "out":
                x[rng.randrange(n)] = -dy(rng, 0.25, 2)
        elif fam == "uniform":
            lo = vs(lambda: dy(rng, -3, 1))
            hi = vs(lambda: dy(rng, 1.5, 5))
            p = [lo, hi, []]
            l = lambda j: lo[0] if len(lo) == 1 else lo[j]
            h = lambda j: hi[0] if len(hi) == 1 else hi[j]
            x = [l(j) + (h(j) - l(j)) * rng.randint(0, 8) / 8 for j in range(n)]
            if where == "out":
                j = rng.randrange(n); x[j] = rng.choice([l(j) - 0.5, h(j) + 0.25])
        return x, p

    def pass_param(v, mode, n):
        """python object handed to the constructor for a parameter list v"""
        if len(v) == 1:
            if mode == "array1":
                return np.array([v[0]]), "a"
            return float(v[0]), "s"
        if mode == "list":
            return list(v), "l"
        return np.array(v, dtype=float), "a"

    PNAMES = {"normal": ["mean", "std"], "laplace": ["location", "scale"], "smoothedlaplace": ["location", "scale", "beta"],
              "cauchy": ["location", "scale"], "gamma": ["shape", "rate"], "invgamma": ["shape", "location", "scale"],
              "beta": ["alpha", "beta"], "mhn": ["alpha", "beta", "gamma"], "uniform": ["low", "high"]}
    CLS = {"normal": D.Normal, "laplace": D.Laplace, "smoothedlaplace": D.SmoothedLaplace, "cauchy": D.Cauchy, "gamma": D.Gamma,
           "invgamma": D.InverseGamma, "beta": D.Beta, "mhn": D.ModifiedHalfNormal, "uniform": D.Uniform}

    def reference(fam, x, p, n):
        """documented log-density, one term per component j < n; None where the documentation does not define it"""
        x = np.asarray(x, dtype=float)
        P = [np.broadcast_to(np.asarray(v, dtype=float), (n,)) if len(v) in (1, n) and len(v) > 0 else None for v in p]
        with np.errstate(all="ignore"):
            if fam == "normal":
                return float(sum(sps.norm.logpdf(x[j], P[0][j], P[1][j]) for j in range(n)))
            if fam == "laplace":
                return float(sum(sps.laplace.logpdf(x[j], P[0][j], P[1][j]) for j in range(n)))
            if fam == "smoothedlaplace":
                return float(sum(math.log(0.5 / P[1][j]) - math.sqrt((x[j] - P[0][j]) ** 2 + P[2][j]) / P[1][j] for j in range(n)))
            if fam == "cauchy":
                if np.any(P[1] <= 0):
                    return None
                return float(sum(sps.cauchy.logpdf(x[j], P[0][j], P[1][j]) for j in range(n)))
            if fam == "gamma":
                if np.any(x < 0):
                    return float("-inf")
                a, r = P[0], P[1]
                if np.any(x == 0):
                    # boundary of the (closed) support: the documented formula rate^a x^(a-1) e^(-rate x)/Gamma(a) read
                    # with 0^0 = 1 (a = 1: log(rate);  a > 1: -inf;  a < 1: +inf), or the open-support convention -inf;
                    # never nan
                    tot, pos, neg = 0.0, False, False
                    for j in range(n):
                        if x[j] == 0:
                            if a[j] == 1:
                                tot += math.log(r[j])
                            elif a[j] > 1:
                                neg = True
                            else:
                                pos = True
                        else:
                            tot += a[j] * math.log(r[j]) + (a[j] - 1) * math.log(x[j]) - r[j] * x[j] - spsp.gammaln(a[j])
                    if pos and neg:
                        return None
                    closed = float("inf") if pos else (float("-inf") if neg else float(tot))
                    return [closed, float("-inf")]
                return float(sum(a[j] * math.log(r[j]) + (a[j] - 1) * math.log(x[j]) - r[j] * x[j] - spsp.gammaln(a[j]) for j in range(n)))
            if fam == "invgamma":
                a, b, g = P
                if np.any(x < b):
                    return float("-inf")
                if np.any(x == b):
                    return [float("-inf")]        # (x-b)^(-a-1) e^(-g/(x-b)) -> 0 at the boundary
                return float(sum((-a[j] - 1) * math.log(x[j] - b[j]) - g[j] / (x[j] - b[j]) + a[j] * math.log(g[j]) - spsp.gammaln(a[j]) for j in range(n)))
            if fam == "beta":
                a, b = P[0], P[1]
                if np.any(x < 0) or np.any(x > 1):
                    return float("-inf")
                if np.any(x == 0) or np.any(x == 1):
                    # closed-support reading of x^(a-1)(1-x)^(b-1)/B(a,b) with 0^0 = 1, or the open-support convention -inf
                    tot, pos, neg = 0.0, False, False
                    for j in range(n):
                        for base, ex in ((x[j], a[j] - 1), (1 - x[j], b[j] - 1)):
                            if base == 0:
                                if ex > 0:
                                    neg = True
                                elif ex < 0:
                                    pos = True
                            else:
                                tot += ex * math.log(base)
                        tot -= spsp.betaln(a[j], b[j])
                    if pos and neg:
                        return [float("-inf")]
                    closed = float("inf") if pos else (float("-inf") if neg else float(tot))
                    return [closed, float("-inf")]
                return float(sum((a[j] - 1) * math.log(x[j]) + (b[j] - 1) * math.log(1 - x[j]) - spsp.betaln(a[j], b[j]) for j in range(n)))
            if fam == "uniform":
                lo, hi = P[0], P[1]
                if np.any(x < lo) or np.any(x > hi):
                    return float("-inf")
                return float(-sum(math.log(hi[j] - lo[j]) for j in range(n)))
        return None

    def iid_key(fam, n, p, modes, where):
        k = f"{CLS[fam].__name__}:logpdf"
        if fam == "smoothedlaplace" and len(p[1]) == 1 and n > 1:
            k += ":scalar-scale:dim>1"
        elif fam == "uniform" and n > 1 and len(p[0]) == 1 and len(p[1]) == 1 and "a" in modes[:2]:
            k += ":len1-array-bounds:dim>1"       # repaired in /repo (39cce69); class kept in the generator
        elif fam == "uniform" and "l" in modes[:2]:
            k += ":list-bounds"
        elif fam == "normal" and modes[1] == "l":
            k += ":list-std"
        elif fam == "mhn":
            k += ":getters" if not (p[0] == p[1] == p[2]) else ":alpha=beta=gamma"
            if where == "out":
                k += ":outside-support"
        else:
            k += ":" + where
        return k

    n_iid = 40 * S
    cases = []
    for fam in FAMS:
        for i in range(n_iid):
            n = rng.choice([1, 1, 2, 3, 4, 6]) if not thorough else rng.choice([1, 2, 3, 4, 6, 9, 12])
            where = rng.choice(["in", "in", "in", "in", "out", "edge"]) if fam in ("gamma", "invgamma", "beta") else rng.choice(["in", "in", "in", "out"])
            if fam in ("normal", "laplace", "smoothedlaplace"):
                where = "in"
            x, p = gen_params(fam, n, where)
            mode = rng.choice(["array", "array", "list", "array1", "cond"])
            if i < 3 and fam in ("smoothedlaplace", "uniform", "normal", "laplace", "cauchy"):
                # DESIGN §5 inputs: all-scalar parameters over a multi-dimensional geometry
                n = [2, 3, 6][i]; x, p = gen_params(fam, n, "in")
                p = [[v[0]] if v else v for v in p]; mode = "array"
            cases.append((fam, n, where, x, p, mode))
    # ---- input class "exact-zero / support-boundary evaluation points", every family (run in every tier and seed)
    for n in (1, 3):
        z = [0.0] * n
        for a in ([1.0], [0.5], [2.0], ([1.0, 2.0, 0.5] if n == 3 else [1.0])):
            for r in ([1e-4], [2.0]):
                cases.append(("gamma", n, "edge", list(z), [list(a), list(r), []], "array"))          # Gamma(1, 1e-4) hyper-prior at 0
                cases.append(("gamma", n, "edge", [0.0] + [1.5] * (n - 1), [list(a), list(r), []], "array1"))
        for a in ([1.0], [0.5], [2.0]):
            for b in ([1.0], [3.0]):
                cases.append(("beta", n, "edge", list(z), [list(a), list(b), []], "array"))
                cases.append(("beta", n, "edge", [1.0] * n, [list(b), list(a), []], "array"))
        cases.append(("invgamma", n, "edge", [0.5] * n, [[2.0], [0.5], [1.0]], "array"))
        cases.append(("invgamma", n, "edge", list(z), [[1.0], [0.0], [2.0]], "array"))
        cases.append(("uniform", n, "edge", [-1.0] * n, [[-1.0], [2.0], []], "array"))
        cases.append(("uniform", n, "edge", [2.0] * n, [[-1.0] * n, [2.0] * n, []], "array"))
        cases.append(("uniform", n, "edge", list(z), [[0.0], [2.0], []], "array"))
        for fam in ("normal", "laplace", "cauchy", "smoothedlaplace"):
            third = [0.5] if fam == "smoothedlaplace" else []
            cases.append((fam, n, "edge", list(z), [[0.0], [2.0], third], "array"))                        # x = location = 0 exactly
            cases.append((fam, n, "edge", [1.5] * n, [[1.5] * n if fam != "laplace" else [1.5], [0.5] if fam == "laplace" else [0.5] * n, third], "array"))
            cases.append((fam, n, "edge", list(z), [[1.0], [0.25], third], "array"))                       # the all-zero point
        cases.append(("mhn", n, "in", [1.0] * n, [[2.0], [2.0], [2.0]], "array"))

    lines, built = [], []
    for (fam, n, where, x, p, mode) in cases:
        names = PNAMES[fam]
        objs, modes = [], ""
        for k, nm in enumerate(names):
            o, m = pass_param(p[k], "array" if mode == "cond" else mode, n)
            objs.append(o); modes += m
        modes = (modes + "---")[:3]
        geom, gname = geom_for(n, rng)
        kw = dict(zip(names, objs))
        cond = mode == "cond" and fam != "mhn"
        desc = {"family": fam, "dim": n, "where": where, "mode": mode, "modes": modes, "geometry": gname, "x": x, "params": p}

        def make(kw=kw, geom=geom, fam=fam, names=names, cond=cond):
            if not cond:
                return CLS[fam](**kw, geometry=geom)
            # first parameter is a callable, conditioned afterwards
            nm = names[0]
            kw2 = dict(kw); val = kw2[nm]
            kw2[nm] = lambda c_: c_
            return CLS[fam](**kw2, geometry=geom)(c_=val)
        xa = np.array(x, dtype=float)
        built.append((fam, n, where, x, p, mode, modes, desc, make, xa))
        pv = [qv(v) if v else "-" for v in (p + [[], [], []])[:3]]
        lines.append(f"iid {fam} {n} {modes} {qv(x)} {pv[0]} {pv[1]} {pv[2]}")
        if fam == "normal":
            lines.append(f"iid normalpdf {n} {modes} {qv(x)} {pv[0]} {pv[1]} {pv[2]}")
    outs = iter(ctx.lean.drive(lines))

    for (fam, n, where, x, p, mode, modes, desc, make, xa) in built:
        out = next(outs)
        out_pdf = next(outs) if fam == "normal" else None
        ctx.case(f"iid-{fam}", desc, nontrivial=True)
        bump(fam_hist, f"{fam}:{mode}:{'dim1' if n == 1 else 'dim>1'}")
        key = iid_key(fam, n, p, modes, where)
        mstat, mt = model_parse(out)
        mval = dec(mt[1]) if mstat == "formula" else None
        try:
            with quiet():
                dist = make()
            istat, ival = call(lambda: dist.logpdf(xa))
        except Exception as e:  # constructor refuses
            istat, ival = "raise", type(e).__name__
            dist = None
        bump(stat_hist, f"{fam}:{mstat}")
        tie_ok = agree(mstat, mval, istat, ival)
        # ---- oracle: documented density
        fail = None
        if fam == "mhn":
            fail = oracle_mhn(dist, x, p, n, istat, ival)
        else:
            ref = reference(fam, x, p, n)
            allowed = ref if isinstance(ref, list) else ([ref] if ref is not None else None)
            ref = allowed[0] if allowed else None
            if istat == "raise":
                if ref is not None and math.isfinite(ref) and mode != "cond":
                    fail = (ref, f"raises {ival}", "no log-density value for a documented way of passing the parameters")
            elif allowed is not None and not any(close(r, ival, ORTOL) for r in allowed):
                fail = (allowed if len(allowed) > 1 else ref, ival,
                        "logpdf is not the logarithm of the documented density" +
                        (" (boundary point of the support: neither the documented formula's value there nor -inf)" if len(allowed) > 1 or where == "edge" else ""))
            elif ref is None and not tie_ok and dist is not None:
                # boundary of the support / invalid parameter: search next to the point
                x2 = list(x)
                for j in range(n):
                    x2[j] = x2[j] + (1 / 64 if fam != "beta" or x2[j] < 0.5 else -1 / 64)
                ref2 = reference(fam, x2, p, n)
                s2, v2 = call(lambda: dist.logpdf(np.array(x2, dtype=float)))
                if ref2 is not None and (s2 != "value" or not close(ref2, v2, ORTOL)):
                    fail = (ref2, v2, f"logpdf is not the logarithm of the documented density (at the neighbouring point {x2})")
        verdict(ctx, key, desc, tie_ok, out, [istat, ival], fail, "logpdf: model and implementation differ")
        if dist is None or istat == "raise":
            continue
        # ---- pdf = exp(logpdf), logd = logpdf + const (const is 0 for a fresh distribution)
        ps, pval = call(lambda: dist.pdf(xa))
        if fam == "normal":
            ms, mtp = model_parse(out_pdf)
            if not agree(ms, dec(mtp[1]) if ms == "formula" else None, ps, pval):
                ctx.disagree(key + ":pdf", desc, out_pdf, [ps, pval], "Normal.pdf: model and implementation differ")
        if ps == "value" and not close(pval, math.exp(ival) if ival == ival else ival, 1e-9):
            ctx.disagree(key + ":pdf", desc, "exp(logpdf)", pval)
            ctx.fail(key + ":pdf", desc, math.exp(ival), pval, "pdf is not exp(logpdf)")
        ls, lval = call(lambda: dist.logd(xa))
        if ls == "value" and not close(lval, ival, 1e-12):
            ctx.disagree(key + ":logd", desc, ival, lval)
            ctx.fail(key + ":logd", desc, ival, lval, "logd differs from logpdf by more than a constant (fresh distribution: constant 0)")

    # SmoothedLaplace / Uniform / MHN: the documented value through the model as well (what the theorems are about)
    # ------------------------------------------------------------------ 1b. logd - logpdf constant in x
    for fam in ("normal", "cauchy", "gamma", "beta", "laplace"):
        for _ in range(3 * S):
            n = rng.choice([1, 2, 3])
            xs = [gen_params(fam, n, "in") for _ in range(2)]
            x1, p = xs[0]; x2 = gen_params(fam, n, "in")[0] if fam != "invgamma" else x1
            kw = dict(zip(PNAMES[fam], [pass_param(v, "array", n)[0] for v in p if v]))
            with quiet():
                dist = CLS[fam](**kw, geometry=n)
                d1 = fnum(dist.logd(np.array(x1))) - fnum(dist.logpdf(np.array(x1)))
                d2 = fnum(dist.logd(np.array(x2))) - fnum(dist.logpdf(np.array(x2)))
            ctx.case("logd-const", {"family": fam, "dim": n})
            if math.isfinite(d1) and math.isfinite(d2) and not close(d1, d2, 1e-10):
                ctx.disagree(f"{CLS[fam].__name__}:logd-const", {"family": fam, "x1": x1, "x2": x2}, 0.0, d1 - d2)
                ctx.fail(f"{CLS[fam].__name__}:logd-const", {"family": fam, "x1": x1, "x2": x2}, "constant in x", [d1, d2],
                         "logd - logpdf depends on the variable")

    # ------------------------------------------------------------------ 1c. user-defined: passthrough
    for _ in range(6 * S):
        n = rng.choice([1, 2, 4])
        a = dy(rng, 0.25, 3); m = dy(rng, -2, 2)
        f = lambda v, a=a, m=m: float(-a * np.sum((np.asarray(v) - m) ** 2))
        x = np.array([dy(rng, -3, 3) for _ in range(n)])
        with quiet():
            ud = D.UserDefinedDistribution(dim=n, logpdf_func=f)
            got, gotd = float(ud.logpdf(x)), float(ud.logd(x))
        ctx.case("user-defined", {"dim": n, "a": a, "m": m, "x": x.tolist()})
        if got != f(x) or gotd != f(x):
            ctx.disagree("UserDefined:logpdf", {"x": x.tolist()}, f(x), [got, gotd])
            ctx.fail("UserDefined:logpdf", {"x": x.tolist()}, f(x), [got, gotd], "user-defined log-density is not passed through")

    # =================================================================== 2. cdf: combination rule
    CDF = {"normal": lambda x, p: sps.norm.cdf(x, p[0], p[1]), "gamma": lambda x, p: sps.gamma.cdf(x, a=p[0], scale=1 / p[1]),
           "invgamma": lambda x, p: sps.invgamma.cdf(x, a=p[0], loc=p[1], scale=p[2]), "beta": lambda x, p: sps.beta.cdf(x, p[0], p[1]),
           "cauchy": lambda x, p: sps.cauchy.cdf(x, p[0], p[1])}
    clines, cmeta = [], []
    for fam in CDF:
        for i in range(10 * S):
            n = rng.choice([1, 1, 2, 3, 4])
            where = "in" if i % 4 else ("out" if fam in ("beta", "cauchy") else "in")
            x, p = gen_params(fam, n, where)
            if fam == "beta" and where == "out":
                x[rng.randrange(n)] = rng.choice([1.0, 1.5, 2.0])   # x >= 1: that component's cdf is 1
            P = [np.broadcast_to(np.asarray(v, dtype=float), (n,)) for v in p if v]
            with np.errstate(all="ignore"):
                comps = [float(CDF[fam](x[j], [Pk[j] for Pk in P])) for j in range(n)]
            comps = [0.0 if c != c else c for c in comps]       # invalid parameters (Cauchy scale <= 0): guard decides
            pv = [qv(v) if v else "-" for v in (p + [[], []])[:3]]
            # cdf op takes x, first two parameters that carry the guards (beta: alpha,beta; cauchy: location,scale)
            clines.append(f"cdf {fam} {qv(x)} {pv[0]} {pv[1]} {qv(comps)}")
            cmeta.append((fam, n, where, x, p, comps))
    couts = ctx.lean.drive(clines)
    for (fam, n, where, x, p, comps), out in zip(cmeta, couts):
        desc = {"family": fam, "dim": n, "x": x, "params": p, "component_cdfs": comps}
        ctx.case(f"cdf-{fam}", desc)
        kw = dict(zip(PNAMES[fam], [pass_param(v, "array", n)[0] for v in p if v]))
        key = f"{CLS[fam].__name__}:cdf:" + ("dim1" if n == 1 else "dim>1")
        if fam == "beta" and (any(v >= 1 for v in x)):
            key = "Beta:cdf:x>=1"
        if fam == "cauchy" and any(v <= 0 for v in p[1]):
            key = "Cauchy:cdf:invalid-scale"
        with quiet():
            dist = CLS[fam](**kw, geometry=n)
        istat, ival = call(lambda: dist.cdf(np.array(x, dtype=float)))
        t = out.split()
        mval = {"value": lambda: dec(t[1]), "-inf": lambda: float("-inf"), "zero": lambda: 0.0}[t[0]]()
        tie_ok = istat == "value" and close(mval, ival, 1e-12)
        # oracle: independent components => joint cdf is the product of the component cdfs
        fail = None
        if not key.endswith("invalid-scale"):
            ref = float(np.prod(comps))
            if istat != "value" or not close(ref, ival, 1e-10):
                fail = (ref, ival, "cdf is not the product of the component cdfs (the integral of the product density over the lower orthant)")
        verdict(ctx, key, desc, tie_ok, out, [istat, ival], fail, "cdf: model and implementation differ")


    # =================================================================== 2b. re-assignment histories on ONE object (i.i.d. families)
    # after every assignment logpdf / pdf / logd / cdf must be those of the CURRENT parameters (the model is pure)
    def point_for(fam, p, n):
        P = [np.broadcast_to(np.asarray(v, dtype=float), (n,)) if v else None for v in p]
        if fam in ("normal", "laplace", "smoothedlaplace", "cauchy"):
            return [dy(rng, -5, 5, 8) for _ in range(n)]
        if fam == "gamma":
            return [dy(rng, 0.125, 6, 8) for _ in range(n)]
        if fam == "invgamma":
            return [float(P[1][j]) + dy(rng, 0.25, 4, 8) for j in range(n)]
        if fam == "beta":
            return [rng.randint(2, 30) / 32 for _ in range(n)]
        if fam == "uniform":
            return [float(P[0][j]) + (float(P[1][j]) - float(P[0][j])) * rng.randint(0, 8) / 8 for j in range(n)]
        raise ValueError(fam)

    HFAMS = ["normal", "laplace", "smoothedlaplace", "cauchy", "gamma", "invgamma", "beta", "uniform"]
    hist_runs = []
    hlines = []
    for fam in HFAMS:
        for _ in range(4 * S):
            n = rng.choice([1, 2, 3, 4])
            _, p = gen_params(fam, n, "in")
            # full-length arrays (no known-finding input classes here), documented scalars stay scalars
            for k in range(len(p)):
                if p[k] and len(p[k]) == 1 and not (fam == "laplace" and k == 1) and not (fam == "smoothedlaplace" and k == 2):
                    p[k] = [p[k][0]] * n
            steps = []
            cur = [list(v) for v in p]
            for step in range(rng.choice([3, 4, 5])):
                assign = None
                if step > 0:
                    k = rng.randrange(len(PNAMES[fam]))
                    _, fresh = gen_params(fam, n, "in")
                    new = list(fresh[k]) if len(fresh[k]) == len(cur[k]) else [fresh[k][0]] * len(cur[k])
                    how = rng.choice(["some", "some", "all", "none"])
                    if how == "none":
                        new = list(cur[k])
                    elif how == "some" and len(new) > 1:
                        keep = rng.sample(range(len(new)), rng.randint(1, len(new) - 1))
                        for j in keep:
                            new[j] = cur[k][j]
                    if fam == "uniform":      # keep low < high componentwise
                        lo = new if k == 0 else cur[0]; hi = new if k == 1 else cur[1]
                        if any(a >= b for a, b in zip(lo, hi)):
                            new = list(cur[k]); how = "none"
                    cur[k] = new
                    assign = (PNAMES[fam][k], new, how)
                x = point_for(fam, cur, n)
                modes = "".join("s" if len(v) == 1 else "a" for v in cur if v)
                modes = (modes + "---")[:3]
                pv = [qv(v) if v else "-" for v in (cur + [[], [], []])[:3]]
                hlines.append(f"iid {fam} {n} {modes} {qv(x)} {pv[0]} {pv[1]} {pv[2]}")
                steps.append((assign, x, [list(v) for v in cur]))
            hist_runs.append((fam, n, [list(v) for v in p], steps))
    houts = iter(ctx.lean.drive(hlines))
    for fam, n, p0, steps in hist_runs:
        def obj(v):
            return float(v[0]) if len(v) == 1 else np.array(v, dtype=float)
        kw = dict(zip(PNAMES[fam], [obj(v) for v in p0 if v]))
        with quiet():
            dist = CLS[fam](**kw, geometry=n)
        log = []
        for (assign, x, cur) in steps:
            out = next(houts)
            if assign is not None:
                with quiet():
                    setattr(dist, assign[0], obj(assign[1]))
                log.append(f"{assign[0]}:{assign[2]}")
            else:
                log.append("init")
            desc = {"family": fam, "dim": n, "initial": p0, "history": list(log), "current": cur, "x": x}
            ctx.case(f"history-{fam}", desc)
            key = f"{CLS[fam].__name__}:history:" + (assign[0] if assign else "init")
            xa = np.array(x, dtype=float)
            mstat, mt = model_parse(out)
            mval = dec(mt[1]) if mstat == "formula" else None
            istat, ival = call(lambda: dist.logpdf(xa))
            tie_ok = agree(mstat, mval, istat, ival)
            ref = reference(fam, x, cur, n)
            fail = None
            if istat != "value" or (ref is not None and not close(ref, ival, ORTOL)):
                fail = (ref, [istat, ival], "after re-assigning a parameter, logpdf is not the documented density of the current parameters")
            ps, pval = call(lambda: dist.pdf(xa))
            ls, lval = call(lambda: dist.logd(xa))
            if fail is None and ref is not None and math.isfinite(ref):
                if ps != "value" or not close(pval, math.exp(ref), 1e-8):
                    fail = (math.exp(ref), [ps, pval], "after re-assigning a parameter, pdf is not the documented density of the current parameters")
                    tie_ok = tie_ok and False
                elif ls != "value" or not close(lval, ref, ORTOL):
                    fail = (ref, [ls, lval], "after re-assigning a parameter, logd is not the documented log-density of the current parameters")
                    tie_ok = False
            if fail is None and fam in CDF and not (fam == "cauchy" and n > 1):
                P = [np.broadcast_to(np.asarray(v, dtype=float), (n,)) for v in cur if v]
                with np.errstate(all="ignore"):
                    cref = float(np.prod([CDF[fam](x[j], [Pk[j] for Pk in P]) for j in range(n)]))
                cs, cval = call(lambda: dist.cdf(xa))
                if cs != "value" or not close(cref, cval, 1e-10):
                    fail = (cref, [cs, cval], "after re-assigning a parameter, cdf is not that of the current parameters")
                    tie_ok = False
            verdict(ctx, key, desc, tie_ok, out, [istat, ival], fail, "history: model (current parameters) and implementation differ")


    # =================================================================== 2c. conditional distributions: logd with conditioning
    # variables (re-used mutable objects changed in place, parent re-assigned), multi-step conditioning of callables
    LOCLIKE = {"normal": [0], "laplace": [0], "smoothedlaplace": [0], "cauchy": [0], "gamma": [], "invgamma": [], "beta": [], "uniform": []}
    cjobs, clines = [], []

    def cline(fam, n, cur, x):
        modes = ("".join("s" if len(v) == 1 else "a" for v in cur if v) + "---")[:3]
        pv = [qv(v) if v else "-" for v in (cur + [[], [], []])[:3]]
        return f"iid {fam} {n} {modes} {qv(x)} {pv[0]} {pv[1]} {pv[2]}"

    for fam in HFAMS:
        for rep in range(3 * S):
            n = rng.choice([1, 2, 3])
            _, p = gen_params(fam, n, "in")
            for k in range(len(p)):
                if p[k] and len(p[k]) == 1 and not (fam == "laplace" and k == 1) and not (fam == "smoothedlaplace" and k == 2):
                    p[k] = [p[k][0]] * n
            cands = [k for k in range(len(PNAMES[fam])) if len(p[k]) == n and not (fam == "invgamma" and k == 1)]
            if fam == "uniform":
                cands = [1]
            k = rng.choice(cands)
            how = rng.choice(["none", "callable"])
            script = []     # (action, payload)
            cur = [list(v) for v in p]
            def mutate(vals, fam=fam, k=k):
                v = list(vals)
                j = rng.randrange(len(v))
                if k in LOCLIKE[fam]:
                    v[j] = v[j] + rng.choice([-1.5, 0.75, 2.0])
                elif fam == "uniform":
                    v[j] = v[j] + rng.choice([0.5, 1.0, 2.0])
                else:
                    v[j] = v[j] * rng.choice([2.0, 4.0, 0.5]) if v[j] * 0.5 >= 0.25 else v[j] * 2.0
                return v
            script.append(("call-kw", None))
            for _ in range(rng.choice([2, 3])):
                a = rng.choice(["inplace", "inplace", "inplace-scale", "parent", "fresh"])
                if a == "inplace":
                    cur[k] = mutate(cur[k]); script.append(("inplace", list(cur[k])))
                elif a == "inplace-scale" and k not in LOCLIKE[fam] and fam != "uniform":
                    cur[k] = [t_ * 2.0 for t_ in cur[k]]; script.append(("inplace-scale", 2.0))
                elif a == "parent":
                    others = [j for j in range(len(PNAMES[fam])) if j != k and not (fam == "invgamma" and j == 1) and fam != "uniform"]
                    if others:
                        j = rng.choice(others)
                        _, fresh = gen_params(fam, n, "in")
                        cur[j] = list(fresh[j]) if len(fresh[j]) == len(cur[j]) else [fresh[j][0]] * len(cur[j])
                        script.append(("parent", (PNAMES[fam][j], list(cur[j]))))
                else:
                    cur[k] = mutate(cur[k]); script.append(("fresh", list(cur[k])))
                x = point_for(fam, cur, n)
                script.append((rng.choice(["call-kw", "call-pos"]), None))
            # replay the script to produce one model line per call
            cur2 = [list(v) for v in p]; xs = []
            for (a, payload) in script:
                if a in ("inplace", "fresh"):
                    cur2[k] = list(payload)
                elif a == "inplace-scale":
                    cur2[k] = [t_ * payload for t_ in cur2[k]]
                elif a == "parent":
                    cur2[PNAMES[fam].index(payload[0])] = list(payload[1])
                else:
                    x = point_for(fam, cur2, n); xs.append((x, [list(v) for v in cur2])); clines.append(cline(fam, n, cur2, x))
            cjobs.append((fam, n, p, k, how, script, xs))
    couts2 = iter(ctx.lean.drive(clines))
    for fam, n, p, k, how, script, xs in cjobs:
        names = PNAMES[fam]
        obj = lambda v: float(v[0]) if len(v) == 1 else np.array(v, dtype=float)
        kw = dict(zip(names, [obj(v) for v in p if v]))
        cname = names[k] if how == "none" else "c_"
        kw[names[k]] = None if how == "none" else (lambda c_: c_)
        try:
            with quiet():
                dist = CLS[fam](**kw, geometry=n, name="x")
        except Exception as e:  # noqa
            ctx.note(f"conditional {fam} ({how}) not constructible: {type(e).__name__}")
            for _ in xs:
                next(couts2)
            continue
        arr = np.array(p[k], dtype=float)       # THE mutable conditioning object, re-used across calls
        log, ci = [], 0
        for (a, payload) in script:
            if a == "inplace":
                arr[:] = np.array(payload); log.append("in-place assignment"); continue
            if a == "inplace-scale":
                arr *= payload; log.append("in-place *="); continue
            if a == "fresh":
                arr = np.array(payload, dtype=float); log.append("fresh object"); continue
            if a == "parent":
                with quiet():
                    setattr(dist, payload[0], obj(payload[1]))
                log.append(f"parent.{payload[0]} re-assigned"); continue
            x, cur = xs[ci]; ci += 1
            out = next(couts2)
            xa = np.array(x, dtype=float)
            log.append(a)
            desc = {"family": fam, "dim": n, "conditional": f"{names[k]}={'None' if how == 'none' else 'lambda c_: c_'}", "script": list(log), "current": cur, "x": x}
            ctx.case("conditional-logd", desc)
            key = f"{CLS[fam].__name__}:conditional-logd:{how}"
            if a == "call-kw":
                istat, ival = call(lambda: dist.logd(**{cname: arr, "x": xa}))
            else:
                args = []
                for cv in dist.get_conditioning_variables():
                    args.append(arr)
                istat, ival = call(lambda: dist.logd(*args, xa))
            mstat, mt = model_parse(out)
            mval = dec(mt[1]) if mstat == "formula" else None
            tie_ok = agree(mstat, mval, istat, ival)
            ref = reference(fam, x, cur, n)
            ref = ref[0] if isinstance(ref, list) else ref
            fail = None
            if istat != "value" or (ref is not None and not close(ref, ival, ORTOL)):
                fail = (ref, [istat, ival], "logd of a conditional distribution is not the documented log-density for the CURRENT values of the conditioning variables / parameters")
            verdict(ctx, key, desc, tie_ok, out, [istat, ival], fail, "conditional logd: model (current values) and implementation differ")

    # ---- the same for Gaussian (cached factorisation) and GMRF: the conditioning array is updated in place between calls
    for rep in range(4 * S):
        n = rng.choice([2, 3, 4])
        form = rng.choice(["cov", "prec", "sqrtcov", "sqrtprec"])
        arr = np.array([dy(rng, 0.5, 3) for _ in range(n)]); mu = np.array([dy(rng, -1, 1) for _ in range(n)])
        with quiet():
            g = D.Gaussian(mu.copy(), **{form: (lambda s_: s_)}, geometry=n, name="x")
        log = []
        for step in range(3):
            if step == 1:
                arr[rng.randrange(n)] *= 4.0; log.append("in-place entry *= 4")
            elif step == 2:
                arr *= 0.5; log.append("in-place *= 0.5")
            x = mu + np.array([dy(rng, -2, 2) for _ in range(n)])
            C = np.diag({"cov": arr, "prec": 1 / arr, "sqrtcov": arr ** 2, "sqrtprec": 1 / arr ** 2}[form])
            ref = float(sps.multivariate_normal(mu, C).logpdf(x))
            st, v = call(lambda: g.logd(s_=arr, x=x))
            desc = {"form": form, "dim": n, "script": ["logd"] + list(log), "values": arr.tolist(), "x": x.tolist()}
            ctx.case("conditional-logd", desc)
            if st != "value" or not close(ref, v, ORTOL):
                ctx.disagree("Gaussian:conditional-logd:callable:model-mismatch", desc, ref, [st, v])
                ctx.fail("Gaussian:conditional-logd:callable:model-mismatch", desc, ref, [st, v],
                         "logd of a conditional Gaussian is not the density for the CURRENT contents of the conditioning array")
    for rep in range(3 * S):
        n = rng.choice([3, 4, 5]); bc = "zero"
        arr = np.array([rng.choice([0.5, 1.0, 2.0])]); mu = np.array([dy(rng, -1, 1) for _ in range(n)])
        with quiet():
            g = D.GMRF(mu.copy(), prec=lambda d_: d_, bc_type=bc, geometry=n, name="x")
            P = _dense(g._prec_op.get_matrix())
        for step in range(3):
            if step > 0:
                arr[0] = arr[0] * rng.choice([4.0, 0.25, 8.0])
            x = mu + np.array([dy(rng, -2, 2) for _ in range(n)])
            ref = float(sps.multivariate_normal(mu, np.linalg.inv(arr[0] * P)).logpdf(x))
            st, v = call(lambda: g.logd(d_=arr, x=x))
            desc = {"family": "gmrf", "dim": n, "step": step, "prec": float(arr[0]), "x": x.tolist()}
            ctx.case("conditional-logd", desc)
            if st != "value" or not close(ref, v, 1e-7):
                ctx.disagree("GMRF:conditional-logd:callable:model-mismatch", desc, ref, [st, v])
                ctx.fail("GMRF:conditional-logd:callable:model-mismatch", desc, ref, [st, v],
                         "logd of a conditional GMRF is not the density for the CURRENT contents of the conditioning array")

    # ---- multi-step conditioning of callable parameters with several arguments
    mjobs, mlines = [], []
    for fam in ("normal", "cauchy", "gamma", "beta", "laplace", "smoothedlaplace", "invgamma", "uniform"):
        for variant in ("both-callable-same-args", "first-callable-second-constant", "different-arg-names", "swapped-arg-order"):
            n = rng.choice([1, 2, 3])
            _, p = gen_params(fam, n, "in")
            for j in range(len(p)):
                if p[j] and len(p[j]) == 1 and not (fam == "laplace" and j == 1) and not (fam == "smoothedlaplace" and j == 2):
                    p[j] = [p[j][0]] * n
            av, bv, cv = rng.choice([0.5, 1.0, 2.0]), rng.choice([1.0, 2.0, 4.0]), rng.choice([0.5, 2.0])
            while av == bv:
                bv = rng.choice([1.0, 2.0, 4.0])
            loc0 = 0 in LOCLIKE[fam]
            # parameter 0 and 1 as functions of (a, b) / (c) that are NOT symmetric in their arguments (a value handed to the
            # wrong argument shows); values stay valid: positive parameters are multiplied by positive factors, location-like
            # ones shifted
            gab = lambda a, b: a * a * b
            if fam == "uniform":
                f0 = (lambda base: (lambda a, b: base - gab(a, b)))(np.array(p[0]))
                f1 = (lambda base: (lambda a, b: base + gab(a, b)))(np.array(p[1]))
                f1c = (lambda base: (lambda c: base + c))(np.array(p[1]))
                v0 = (np.array(p[0]) - gab(av, bv)).tolist(); v1ab = (np.array(p[1]) + gab(av, bv)).tolist(); v1c = (np.array(p[1]) + cv).tolist()
            else:
                f0 = (lambda base: (lambda a, b: base + a - b))(np.array(p[0])) if loc0 else (lambda base: (lambda a, b: base * gab(a, b)))(np.array(p[0]))
                v0 = (np.array(p[0]) + av - bv).tolist() if loc0 else (np.array(p[0]) * gab(av, bv)).tolist()
                base1 = np.array(p[1]) if len(p[1]) > 1 else float(p[1][0])
                f1 = (lambda base: (lambda a, b: base * gab(a, b)))(base1)
                f1c = (lambda base: (lambda c: base * c))(base1)
                v1ab = (np.array(p[1]) * gab(av, bv)).tolist(); v1c = (np.array(p[1]) * cv).tolist()
            if variant == "both-callable-same-args":
                kwf = {0: f0, 1: f1}; cur = [v0, v1ab] + p[2:]; cvals = {"a": av, "b": bv}
            elif variant == "first-callable-second-constant":
                kwf = {0: f0}; cur = [v0, list(p[1])] + p[2:]; cvals = {"a": av, "b": bv}
            elif variant == "different-arg-names":
                kwf = {0: f0, 1: f1c}; cur = [v0, v1c] + p[2:]; cvals = {"a": av, "b": bv, "c": cv}
            else:
                f1s = (lambda g: (lambda b, a: g(a, b)))(f1)
                kwf = {0: f0, 1: f1s}; cur = [v0, v1ab] + p[2:]; cvals = {"a": av, "b": bv}
            x = point_for(fam, cur, n)
            mlines.append(cline(fam, n, cur, x))
            mjobs.append((fam, n, variant, p, kwf, cur, cvals, x))
    mouts = iter(ctx.lean.drive(mlines))
    import itertools
    for fam, n, variant, p, kwf, cur, cvals, x in mjobs:
        out = next(mouts)
        names = PNAMES[fam]
        obj = lambda v: float(v[0]) if len(v) == 1 else np.array(v, dtype=float)
        kw = dict(zip(names, [obj(v) for v in p if v]))
        for j, f in kwf.items():
            kw[names[j]] = f
        xa = np.array(x, dtype=float)
        mstat, mt = model_parse(out)
        mval = dec(mt[1]) if mstat == "formula" else None
        ref = reference(fam, x, cur, n)
        ref = ref[0] if isinstance(ref, list) else ref
        orders = list(itertools.permutations(cvals.keys()))[:4]
        perms = [o for o in itertools.permutations(cvals.keys()) if list(o) != list(cvals.keys())][:3]
        routes = [("one-step", None)] + [("steps:" + ">".join(o), o) for o in orders] + [("logd-kwargs", "logd")] \
            + [("one-step-permuted-keywords:" + ",".join(o), ("perm", o)) for o in perms] \
            + [("logd-permuted-keywords:" + ",".join(o), ("logdperm", o)) for o in perms[:2]] + [("logd-positional", "logdpos")]
        for label, route in routes:
            desc = {"family": fam, "dim": n, "variant": variant, "route": label, "cond_values": cvals, "parameters_demanded": cur, "x": x}
            ctx.case("multi-step-conditioning", desc)
            key = f"{CLS[fam].__name__}:conditioning:{variant}:" + (label.split(":")[0] if (route in (None, "logd", "logdpos") or route[0] in ("perm", "logdperm")) else "multi-step")
            def run_route(route=route):
                d = CLS[fam](**kw, geometry=n, name="x")
                if route is None:
                    return d(**cvals).logpdf(xa)
                if route == "logd":
                    return d.logd(**cvals, x=xa)
                if route == "logdpos":         # positional arguments follow the distribution's own order of conditioning variables
                    return d.logd(*[cvals[nm] for nm in d.get_conditioning_variables()], xa)
                if route[0] == "perm":         # all conditioning values in ONE call, keywords in another order than the signatures
                    return d(**{nm: cvals[nm] for nm in route[1]}).logpdf(xa)
                if route[0] == "logdperm":
                    return d.logd(**{nm: cvals[nm] for nm in route[1]}, x=xa)
                for nm in route:
                    d = d(**{nm: cvals[nm]})
                return d.logpdf(xa)
            istat, ival = call(run_route)
            tie_ok = agree(mstat, mval, istat, ival)
            fail = None
            if istat != "value" or (ref is not None and not close(ref, ival, ORTOL)):
                fail = (ref, [istat, ival], "conditioning a callable parameter step by step does not give the documented density of the parameters the user's functions return")
            verdict(ctx, key, desc, tie_ok, out, [istat, ival], fail, "multi-step conditioning: model and implementation differ")

    # =================================================================== 3. Gaussian parameterisations
    _timed(gauss_section, ctx, D, G, rng, nrng, S, thorough, bump, fam_hist)

    # =================================================================== 4. Lognormal
    _timed(lognormal_section, ctx, D, rng, S)

    # =================================================================== 5. Markov random fields
    _timed(mrf_section, ctx, D, G, rng, S, thorough)

    # =================================================================== 5b. covariance / cdf of non-diagonal Gaussians, re-assignment histories
    _timed(gauss_cov_cdf_section, ctx, D, G, rng, S)
    _timed(gauss_sparse_cov_cdf_section, ctx, D, rng, S)
    _timed(gmrf_threshold_section, ctx, D, thorough)
    _timed(lognormal_history_section, ctx, D, rng, S)
    _timed(mrf_history_section, ctx, D, G, rng, S)
    _timed(gauss_scale_section, ctx, D, rng, S)
    _timed(gauss_scale_bigdim_section, ctx, D, rng, S)
    _timed(dtype_section, ctx, D, G, rng, S)
    _timed(gauss_structured_bigdim_section, ctx, D, rng, S, thorough)

    # =================================================================== 5c. session 3: the Gaussian object (storage formats,
    # constructor / setter validation, covariance cache, compute_cov) — Model/C04_gaussobj.lean
    from harness.props.c04_gaussobj import gaussobj_section
    _timed(gaussobj_section, ctx, D, rng, S)
    from harness.props.c04_eig import gauss_eig_section
    _timed(gauss_eig_section, ctx, D, rng, S, thorough)
    from harness.props.c04_dim import dim_section
    _timed(dim_section, ctx, D, G, rng, S)

    # =================================================================== 6. normalisation by quadrature
    _timed(quadrature_section, ctx, D, G, rng, S)

    # margins of all passing float comparisons of this run (ratio deviation / tolerance per call site)
    top = sorted(MARGINS.items(), key=lambda kv: -kv[1])
    ctx.extra_cov["float_margins"] = {"sites": len(top), "max_ratio": top[0][1] if top else 0.0,
                                      "sites_with_less_than_10x_headroom": {k: round(v, 4) for k, v in top if v > 0.1},
                                      "largest": {k: float(f"{v:.3g}") for k, v in top[:12]}}


# --------------------------------------------------------------------------------------------------
def oracle_mhn(dist, x, p, n, istat, ival):
    """documented kernel x^(a-1) exp(-b x^2 + c x) on x>0 (up to its constant): differences of the
    log-density between two points are the differences of the documented kernel; -inf outside."""
    if dist is None or istat == "raise":
        return None
    a, b, c = p[0][0], p[1][0], p[2][0]
    x = np.asarray(x, dtype=float)
    if np.any(x < 0):
        if ival != float("-inf"):
            return ("-inf", ival, "density does not vanish outside the support")
        return None
    x0 = np.ones(n)
    with quiet():
        v0 = fnum(dist.logpdf(x0))
    doc = lambda z: float(np.sum((a - 1) * np.log(z) - b * z * z + c * z))
    if not close(ival - v0, doc(x) - doc(x0), ORTOL):
        return (doc(x) - doc(x0), ival - v0, "logpdf(x)-logpdf(1) is not that of the documented kernel x^(alpha-1) exp(-beta x^2 + gamma x)")
    return None


def band(n, d, o, o2=None):
    M = np.zeros((n, n))
    for i in range(n):
        M[i, i] = d
        if i + 1 < n:
            M[i, i + 1] = o; M[i + 1, i] = o if o2 is None else o2
    return M


def gauss_section(ctx, D, G, rng, nrng, S, thorough, bump, hist):
    from cuqi import config
    # the constant and the storage switch
    o = ctx.lean.drive(["mindimsparse"] + [f"sparseflag {d}" for d in (1, 74, 75, 76, 77, 80)])
    ctx.case("config", {"MIN_DIM_SPARSE": config.MIN_DIM_SPARSE})
    if int(o[0]) != config.MIN_DIM_SPARSE:
        ctx.disagree("config:MIN_DIM_SPARSE", {}, o[0], config.MIN_DIM_SPARSE, "the model's constant is not the configuration's")
        ctx.note("MIN_DIM_SPARSE changed; dimensions around the new threshold are not generated by this check")
    flags = dict(zip((1, 74, 75, 76, 77, 80), o[1:]))

    small_dims = [1, 2, 3, 4, 5, 6]
    big_dims = [74, 75, 76, 77, 80]
    cases = []

    def rand_spd(n):
        A = np.array([[dy(rng, -1, 1, 2) for _ in range(n)] for _ in range(n)])
        return A @ A.T + np.eye(n) * rng.choice([0.5, 1.0, 2.0])

    def rand_sq(n, sym=False):
        while True:
            A = np.array([[dy(rng, -2, 2, 2) for _ in range(n)] for _ in range(n)]) + np.eye(n) * 2
            if sym:
                A = (A + A.T) / 2
            if abs(np.linalg.det(A)) > 0.2:
                return A

    forms = ["cov", "prec", "sqrtcov", "sqrtprec"]
    # small dimensions: all 4 forms x all kinds
    reps = 2 * S
    for form in forms:
        for n in small_dims:
            for kind in ["scalar", "vector", "diag", "dense", "dense-nonsym", "sparse-diag", "sparse-full"]:
                if n == 1 and kind in ("dense-nonsym", "sparse-full", "sparse-diag", "diag", "vector"):
                    continue
                for _ in range(reps if kind.startswith("dense") else 1):
                    cases.append((form, kind, n))
    # around the sparse-storage threshold: banded matrices
    for n in big_dims:
        for form in forms:
            kinds = ["scalar", "vector", "dense"] if not thorough else ["scalar", "vector", "diag", "dense", "dense-nonsym", "sparse-diag"]
            for kind in kinds:
                if kind == "dense" and not thorough and (n, form) not in [(75, "cov"), (76, "cov"), (77, "prec"), (76, "prec"),
                                                                             (76, "sqrtcov"), (75, "sqrtprec"), (80, "sqrtprec")]:
                    continue
                cases.append((form, kind, n))
    # malformed stream
    for form in forms:
        cases += [(form, "bad-nonsquare", 3), (form, "bad-indefinite", 2), (form, "bad-negative", 2), (form, "bad-wrongdim", 3), (form, "bad-singular", 2)]

    lines, meta = [], []
    for (form, kind, n) in cases:
        pos = lambda: dy(rng, 0.25, 4)
        anysign = lambda: rng.choice([-1, 1]) * dy(rng, 0.25, 3)
        ent = pos if form in ("cov", "prec") else anysign
        mkind = kind
        if kind == "scalar":
            Mv = [[ent()]]; obj = float(Mv[0][0]); mkind = "scalar"
        elif kind == "vector":
            v = [ent() for _ in range(n)]; Mv = [v]; obj = np.array(v); mkind = "vector"
        elif kind in ("diag", "sparse-diag"):
            v = [ent() for _ in range(n)]; A = np.diag(v); Mv = A.tolist()
            obj = A if kind == "diag" else (spa.diags(v, format="csr") if rng.random() < 0.5 else spa.diags(v))
            mkind = "dense" if kind == "diag" else "sparse"
        elif kind in ("dense", "dense-nonsym", "sparse-full"):
            if n > 8:
                if form in ("cov", "prec"):
                    A = band(n, rng.choice([2.0, 3.0, 4.0]), rng.choice([1.0, -1.0, 0.5]))
                elif kind == "dense-nonsym":
                    A = band(n, rng.choice([2.0, 3.0]), rng.choice([1.0, 0.5]), 0.0)     # bidiagonal: R R^T != R^T R
                else:
                    A = band(n, rng.choice([2.0, 3.0]), rng.choice([0.5, -0.5]))
            elif form in ("cov", "prec"):
                A = rand_spd(n)
            else:
                A = rand_sq(n, sym=(kind != "dense-nonsym" and rng.random() < 0.5))
                if kind == "dense-nonsym":
                    A = A + np.triu(np.ones((n, n)), 1) * 0.5        # make sure it is not symmetric
            if kind == "dense-nonsym" and form in ("cov", "prec"):
                A = A + np.triu(np.ones((n, n)), 1) * 0.5            # malformed: not symmetric => ValueError
            Mv = A.tolist()
            obj = A if kind != "sparse-full" else spa.csr_matrix(A)
            mkind = "sparse" if kind == "sparse-full" else "dense"
        elif kind == "bad-nonsquare":
            A = np.array([[1.0, 0.5], [0.0, 2.0], [1.0, 1.0]]); Mv = A.tolist(); obj = A; mkind = "dense"
        elif kind == "bad-indefinite":
            A = np.array([[1.0, 2.0], [2.0, 1.0]]); Mv = A.tolist(); obj = A; mkind = "dense"
        elif kind == "bad-negative":
            v = [1.0, -2.0]; Mv = [v]; obj = np.array(v); mkind = "vector"
        elif kind == "bad-wrongdim":
            v = [1.0, 2.0]; Mv = [v]; obj = np.array(v); mkind = "vector"
        elif kind == "bad-singular":
            A = np.array([[1.0, 1.0], [1.0, 1.0]]); Mv = A.tolist(); obj = A; mkind = "dense"
        mu = [dy(rng, -2, 2)] if rng.random() < 0.4 else [dy(rng, -2, 2) for _ in range(n)]
        x = [dy(rng, -3, 3) for _ in range(n)]
        if rng.random() < 0.12:
            x = [mu[0] if len(mu) == 1 else mu[j] for j in range(n)] if rng.random() < 0.5 else [0.0] * n   # x = mean exactly / all-zero point
        lines.append(f"gauss {form} {mkind} {n} {qv(x)} {qv(mu)} {qm(Mv)}")
        meta.append((form, kind, mkind, n, obj, Mv, mu, x))
    outs = ctx.lean.drive(lines)

    def documented_cov(form, Mv, kind, n):
        """covariance the documentation assigns to the specification"""
        A = np.array(Mv, dtype=float)
        if A.shape[0] == 1:
            v = np.broadcast_to(A.ravel(), (n,)).astype(float)
            A = np.diag(v)
        if form == "cov":
            return A
        if form == "prec":
            return np.linalg.inv(A)
        if form == "sqrtcov":
            return A.T @ A            # "Defined as matrix R, where R.T@R = cov"
        return np.linalg.inv(A.T @ A)  # "R.T@R = prec"

    for (form, kind, mkind, n, obj, Mv, mu, x), out in zip(meta, outs):
        desc = {"form": form, "kind": kind, "dim": n, "mean": mu, "x": x if n <= 6 else "(long)", "M": Mv if n <= 6 else "(banded)"}
        ctx.case(f"gauss-{form}-{kind}", desc)
        bump(hist, f"gauss:{form}:{kind}:{'dim<=75' if n <= 75 else 'dim>75'}")
        nonsym = kind == "dense-nonsym" or (kind == "dense" and n <= 8 and form in ("sqrtcov", "sqrtprec") and not np.allclose(np.array(Mv), np.array(Mv).T))
        key = f"Gaussian:{form}:{kind}" + (":nonsymmetric" if nonsym and form == "sqrtcov" else "")
        mean = mu[0] if len(mu) == 1 else np.array(mu)
        xa = np.array(x, dtype=float)
        geom = G.Image2D((2, n // 2)) if n in (4, 6) and rng.random() < 0.5 else n
        desc["geometry"] = "Image2D" if not isinstance(geom, int) else "int"
        try:
            with quiet():
                g = D.Gaussian(mean, **{form: obj}, geometry=geom)
        except Exception as e:  # noqa
            g = None; cerr = type(e).__name__
        istat, ival = call(lambda: g.logpdf(xa)) if g is not None else ("raise", cerr)
        t = out.split()
        mism = []          # tie mismatches
        fail = oracle_gauss(form, Mv, kind, n, mu, xa, istat, ival, documented_cov)
        if t[0] == "unsupported":
            ctx.note(f"model declines {form}/{kind}/{n} (singular full matrix)")
            if fail:
                ctx.fail(key, desc, *fail)
            continue
        if t[0] in ("raise", "nologdet"):
            if istat != "raise":
                mism.append("model: logpdf refused; implementation returned a value")
            elif t[0] == "nologdet":
                if g is None:
                    # both are refusals of the normalised log-density; `sparse_cholesky` (splu with natural ordering) may
                    # already refuse in the constructor — its pivoting is not modelled
                    ctx.note(f"sparse-full {form} dim {n}: constructor refuses ({cerr}) where the model refuses only logpdf")
                else:
                    # un-normalised density is still offered: -0.5 * quad
                    with quiet():
                        lu = fnum(g._logupdf(xa))
                    if not close(-0.5 * dec(t[1]), lu, TOL):
                        mism.append(f"logupdf {lu} vs model {-0.5 * dec(t[1])}")
                        fail = fail or (-0.5 * dec(t[1]), lu, "un-normalised log-density is not -1/2 (x-mu)^T P (x-mu)")
        elif t[0] == "nan":
            if istat == "value" and math.isfinite(ival):
                mism.append("non-positive variance gives a finite log-density")
                fail = fail or ("no finite density for a non-positive variance", ival, "finite log-density for a non-positive variance")
        else:
            rank, detcov, quad, lp, lup = int(t[1]), Fraction(t[2][2:]), dec(t[3]), dec(t[4]), dec(t[5])
            if istat != "value" or not close(lp, ival, TOL):
                mism.append(f"logpdf {[istat, ival]} vs model {lp}")
            if g is not None and istat == "value":
                with quiet():
                    S_ = g.sqrtprec
                    Pi = np.asarray((S_.T @ S_).todense()) if spa.issparse(S_) else np.asarray(S_.T @ S_)
                    lu = fnum(g._logupdf(xa))
                    ld = fnum(g.logdet)
                    sparse_stored = spa.issparse(S_)
                if int(g.rank) != rank:
                    mism.append(f"rank {int(g.rank)} vs model {rank}")
                logdet_model = float(math.log(detcov.numerator) - math.log(detcov.denominator))
                if not close(logdet_model, ld, 1e-9):
                    mism.append(f"logdet {ld} vs model {logdet_model}")
                if not close(lup, lu, TOL):
                    mism.append(f"logupdf {lu} vs model {lup}")
                if not close(ival - lu, -0.5 * (int(g.rank) * math.log(2 * math.pi) + ld), 1e-9):
                    ctx.fail(key + ":logd-const", desc, "logpdf - logupdf = -1/2 (rank log 2pi + logdet)", ival - lu,
                             "un-normalised and normalised log-density differ by more than the constant")
                if len(t) > 6 and t[6] != "-":
                    Pm = np.array([[float(Fraction(v)) for v in r.split(",")] for r in t[6].split(";")])
                    if Pi.shape != Pm.shape or not np.allclose(Pi, Pm, rtol=1e-9, atol=1e-9):
                        mism.append("sqrtprec^T sqrtprec is not the model's precision")
                    if hasattr(g, "_prec") and form in ("cov", "sqrtcov"):
                        Pp = g._prec; Pp = np.asarray(Pp.todense()) if spa.issparse(Pp) else np.asarray(Pp)
                        if not np.allclose(Pp, Pm, rtol=1e-9, atol=1e-9):
                            mism.append("_prec is not the model's precision")
                            if not np.allclose(Pp, Pi, rtol=1e-8, atol=1e-8):
                                fail = fail or ("prec == sqrtprec^T sqrtprec", "differs", "the stored precision is not the one the log-density uses")
                # storage switch (matrices built by the class itself)
                if kind in ("scalar", "vector") or (kind == "diag" and form != "sqrtprec"):
                    want = flags.get(n)
                    if want is not None and str(int(sparse_stored)) != want:
                        ctx.disagree("Gaussian:storage-switch", desc, want, int(sparse_stored), "sparse storage on the wrong side of MIN_DIM_SPARSE")
        verdict(ctx, key, desc, not mism, out[:160], mism, fail, "Gaussian: model and implementation differ: " + "; ".join(mism))

    # ---- the same distribution through all four forms (small and around the threshold)
    for n in small_dims[1:] + ([76] if not thorough else [75, 76, 80]):
        for _ in range(2 * S if n < 10 else 1):
            if n < 10:
                C = rand_spd(n)
            else:
                C = band(n, 3.0, 1.0)
            L = np.linalg.cholesky(C)              # C = L L^T
            Pm = np.linalg.inv(C)
            Lp = np.linalg.cholesky(Pm)            # P = Lp Lp^T
            x = np.array([dy(rng, -3, 3) for _ in range(n)]); mu = np.array([dy(rng, -2, 2) for _ in range(n)])
            vals = {}
            with quiet():
                vals["cov"] = fnum(D.Gaussian(mu, cov=C).logpdf(x))
                vals["prec"] = fnum(D.Gaussian(mu, prec=Pm).logpdf(x))
                vals["sqrtcov-sym"] = fnum(D.Gaussian(mu, sqrtcov=np.real(sqrtm_sym(C))).logpdf(x))
                vals["sqrtprec"] = fnum(D.Gaussian(mu, sqrtprec=Lp.T).logpdf(x))
                vals["sqrtcov-doc"] = fnum(D.Gaussian(mu, sqrtcov=L.T).logpdf(x))     # documented: R^T R = cov with R = L^T
                # callable parameter, conditioned afterwards
                vals["cov-conditioned"] = fnum(D.Gaussian(mu, cov=lambda c_: c_ * C, geometry=n)(c_=1.0).logpdf(x))
                vals["prec-conditioned"] = fnum(D.Gaussian(mu, prec=lambda c_: c_ * Pm, geometry=n)(c_=1.0).logpdf(x))
                vals["mean-conditioned"] = fnum(D.Gaussian(lambda c_: c_ * mu, sqrtprec=Lp.T, geometry=n)(c_=1.0).logpdf(x))
                if n < 10:
                    vals["cov-sparse-diag+dense"] = fnum(D.Gaussian(mu, cov=spa.csr_matrix(np.diag(np.diag(C)))).logpdf(x)) \
                        - float(sps.multivariate_normal(mu, np.diag(np.diag(C))).logpdf(x)) + float(sps.multivariate_normal(mu, C).logpdf(x))
            ref = float(sps.multivariate_normal(mu, C).logpdf(x))
            ctx.case("gauss-forms-agree", {"dim": n})
            for k, v in vals.items():
                key = "Gaussian:sqrtcov:dense:nonsymmetric" if k == "sqrtcov-doc" else f"Gaussian:forms-agree:{k}"
                if not close(v, ref, 1e-8):
                    ctx.fail(key, {"dim": n, "form": k, "cov": C.tolist() if n < 10 else "band(3,1)"}, ref, v,
                             "the same Gaussian specified through another parameterisation has a different log-density")


def sqrtm_sym(C):
    w, V = np.linalg.eigh(C)
    return (V * np.sqrt(w)) @ V.T


def oracle_gauss(form, Mv, kind, n, mu, xa, istat, ival, documented_cov):
    """implementation-only: scipy's multivariate normal with the covariance the documentation assigns"""
    if kind.startswith("bad") or istat != "value":
        return None
    if kind == "dense-nonsym" and form in ("cov", "prec"):
        return ("refusal", ival, "a non-symmetric covariance/precision is accepted")
    try:
        C = documented_cov(form, Mv, kind, n)
        mean = np.broadcast_to(np.array(mu, dtype=float), (n,))
        ref = float(sps.multivariate_normal(mean, C, allow_singular=False).logpdf(xa))
    except Exception:
        return None
    if not close(ref, ival, 1e-8):
        return (ref, ival, "Gaussian.logpdf is not the documented density for this parameterisation")
    return None


def lognormal_section(ctx, D, rng, S):
    lines, meta = [], []
    for i in range(14 * S):
        n = rng.choice([1, 2, 3])
        kind = rng.choice(["scalar", "vector", "dense"]) if n > 1 else "scalar"
        if kind == "scalar":
            Mv = [[dy(rng, 0.25, 3)]]; obj = float(Mv[0][0])
        elif kind == "vector":
            v = [dy(rng, 0.25, 3) for _ in range(n)]; Mv = [v]; obj = np.array(v)
        else:
            A = np.array([[dy(rng, -1, 1, 2) for _ in range(n)] for _ in range(n)]); A = A @ A.T + np.eye(n); Mv = A.tolist(); obj = A
        mu = [dy(rng, -1, 1) for _ in range(n)]
        x = [dy(rng, 0.25, 4, 8) for _ in range(n)]
        if i % 5 == 4:
            x[rng.randrange(n)] = rng.choice([0.0, -1.0])
        logx = [math.log(v) if v > 0 else 0.0 for v in x]
        lines.append(f"logn {kind} {n} {qv(x)} {qv(logx)} {qv(mu)} {qm(Mv)}")
        meta.append((n, kind, obj, Mv, mu, x))
    outs = ctx.lean.drive(lines)
    for (n, kind, obj, Mv, mu, x), out in zip(meta, outs):
        desc = {"dim": n, "kind": kind, "cov": Mv, "mean": mu, "x": x}
        ctx.case("lognormal", desc)
        key = f"Lognormal:logpdf:{kind}" + (":outside" if min(x) <= 0 else "")
        with quiet():
            dist = D.Lognormal(np.array(mu) if n > 1 else mu[0], obj)
        istat, ival = call(lambda: dist.logpdf(np.array(x)))
        t = out.split()
        mval = float("-inf") if t[0] == "-inf" else (dec(t[1]) if t[0] == "ok" else None)
        tie_ok = not (mval is None or istat != "value" or not close(mval, ival, TOL))
        if min(x) <= 0:
            ref = float("-inf")
        else:
            A = np.array(Mv, dtype=float)
            C = np.diag(np.broadcast_to(A.ravel(), (n,))) if A.shape[0] == 1 else A
            ref = float(sps.multivariate_normal(np.array(mu), C).logpdf(np.log(x)) - np.sum(np.log(x)))
        fail = None
        if istat != "value" or not close(ref, ival, ORTOL):
            fail = (ref, ival, "Lognormal.logpdf is not log N(log x; mean, cov) - sum log x")
        verdict(ctx, key, desc, tie_ok, out, [istat, ival], fail, "Lognormal.logpdf: model and implementation differ")


def mrf_section(ctx, D, G, rng, S, thorough):
    lines, meta = [], []
    g1 = list(range(2, 11)) if not thorough else list(range(2, 20))
    g2 = [2, 3] if not thorough else [2, 3, 4, 5]
    for order in (0, 1, 2):
        for bc in ("zero", "periodic", "neumann"):
            for pd, ns in ((1, g1), (2, g2)):
                for n in ns:
                    if order == 2 and n < 3:
                        continue
                    dim = n if pd == 1 else n * n
                    prec = rng.choice([0.5, 1.0, 2.0, 4.0])
                    mu = [dy(rng, -2, 2)] if rng.random() < 0.3 else [dy(rng, -2, 2) for _ in range(dim)]
                    x = [dy(rng, -3, 3) for _ in range(dim)]
                    if rng.random() < 0.15:
                        x = [mu[0] if len(mu) == 1 else mu[j] for j in range(dim)] if rng.random() < 0.5 else [0.0] * dim   # x = mean exactly / all-zero point
                    lines.append(f"gmrf {pd} {order} {bc} {n} {q(prec)} {qv(x)} {qv(mu)}")
                    meta.append(("gmrf", pd, order, bc, n, prec, mu, x))
    for fam in ("lmrf", "cmrf"):
        for bc in ("zero", "periodic", "neumann"):
            for pd, ns in ((1, g1), (2, g2)):
                for n in ns:
                    dim = n if pd == 1 else n * n
                    s = rng.choice([0.5, 1.0, 2.0, 0.25])
                    loc = [dy(rng, -2, 2)] if rng.random() < 0.3 else [dy(rng, -2, 2) for _ in range(dim)]
                    x = [dy(rng, -3, 3) for _ in range(dim)]
                    if rng.random() < 0.15:
                        x = [loc[0] if len(loc) == 1 else loc[j] for j in range(dim)] if rng.random() < 0.5 else [0.0] * dim   # exact-zero differences / all-zero point
                    lines.append(f"mrf {fam} {pd} {bc} {n} {q(s)} {qv(x)} {qv(loc)}")
                    meta.append((fam, pd, 1, bc, n, s, loc, x))
    outs = ctx.lean.drive(lines)
    for (fam, pd, order, bc, n, par, loc, x), out in zip(meta, outs):
        dim = n if pd == 1 else n * n
        desc = {"family": fam, "physical_dim": pd, "order": order, "bc": bc, "n": n, "param": par, "location": loc, "x": x}
        ctx.case(f"{fam}{pd}", desc)
        geom = {} if pd == 1 else {"geometry": G.Image2D((n, n))}
        locv = loc[0] if len(loc) == 1 else np.array(loc)
        if pd == 1 and len(loc) == 1:
            geom = {"geometry": dim}
        xa = np.array(x, dtype=float)
        t = out.split()
        try:
            with quiet():
                if fam == "gmrf":
                    dist = D.GMRF(locv, par, bc_type=bc, order=order, **geom)
                elif fam == "lmrf":
                    dist = D.LMRF(locv, par, bc_type=bc, **geom)
                else:
                    dist = D.CMRF(locv, par, bc_type=bc, **geom)
        except Exception as e:  # noqa
            ctx.note(f"{fam} constructor refused {desc['bc']}/{order}/{n}: {type(e).__name__}")
            continue
        istat, ival = call(lambda: dist.logpdf(xa))
        locb = np.broadcast_to(np.array(loc, dtype=float), (dim,))
        if fam == "gmrf":
            key = f"GMRF:{pd}D:order{order}:{bc}" + (":n<3" if n < 3 else "")
            decl, true_rank = int(t[1]), int(t[2])
            mism = []
            if int(dist._rank) != decl:
                mism.append(f"declared rank {int(dist._rank)} vs model {decl}")
            with quiet():
                Pi = dist._prec_op.get_matrix(); Pi = np.asarray(Pi.todense()) if spa.issparse(Pi) else np.asarray(Pi)
            quad = dec(t[4])
            qi = float((xa - locb) @ (Pi @ (xa - locb)))
            if not close(quad, qi, 1e-10):
                mism.append(f"quadratic form of the structure matrix {qi} vs model {quad}")
            if t[5] != "-" and (istat != "value" or not close(dec(t[5]), ival, 1e-8)):
                mism.append(f"logpdf {[istat, ival]} vs model {dec(t[5])}")
            # oracle 1 (independent of the constant): logpdf(x) - logpdf(mean) = -prec/2 (x-mean)^T D^T D (x-mean)
            fail = None
            with quiet():
                s0, v0 = call(lambda: dist.logpdf(locb.copy()))
            if istat == "value" and s0 == "value" and math.isfinite(v0) and math.isfinite(ival):
                if not close(ival - v0, -0.5 * par * qi, 1e-8):
                    fail = (-0.5 * par * qi, ival - v0, "GMRF.logpdf(x)-logpdf(mean) is not -prec/2 |D(x-mean)|^2: the shifted variable is not evaluated through the operator")
            if fail:
                verdict(ctx, key + ":quadratic", desc, not mism, out[:120], mism, fail, "GMRF: model and implementation differ: " + "; ".join(mism))
                continue
            # oracle 2: documented (possibly degenerate) Gaussian density with precision prec * D^T D
            ev = np.linalg.eigvalsh(Pi)
            pos = ev > 1e-9 * max(1.0, ev.max())
            r_true = int(pos.sum())
            ref = 0.5 * (r_true * (math.log(par) - math.log(2 * math.pi)) + float(np.log(ev[pos]).sum())) - 0.5 * par * qi
            k2 = key + (":rank" if int(dist._rank) != r_true else ":logpdf")
            if istat != "value" or not close(ref, ival, 1e-7):
                fail = (ref, ival, "GMRF.logpdf is not the documented density of the differences of the shifted variable (rank / log-determinant of its own precision)")
            verdict(ctx, k2, desc, not mism, out[:120], mism, fail, "GMRF: model and implementation differ: " + "; ".join(mism))
        else:
            key = f"{fam.upper()}:{pd}D:{bc}:logpdf"
            mism = []
            if istat != "value" or not close(dec(t[2]), ival, TOL):
                mism.append(f"logpdf {[istat, ival]} vs model {dec(t[2])}")
            with quiet():
                Dm = dist._diff_op.get_matrix(); Dm = np.asarray(Dm.todense()) if spa.issparse(Dm) else np.asarray(Dm)
            u = Dm @ (xa - locb)
            if int(t[1]) != len(u):
                mism.append(f"number of differences {len(u)} vs model {t[1]}")
            if fam == "lmrf":
                ref = float(sum(sps.laplace.logpdf(v, 0, par) for v in u))
            else:
                ref = float(sum(sps.cauchy.logpdf(v, 0, par) for v in u))
            fail = None
            if istat != "value" or not close(ref, ival, ORTOL):
                fail = (ref, ival, f"{fam.upper()}.logpdf is not the sum of the documented densities of the differences D(x-location)")
            verdict(ctx, key, desc, not mism, out[:120], mism, fail, f"{fam.upper()}: model and implementation differ: " + "; ".join(mism))


def _dense(M):
    return np.asarray(M.todense()) if spa.issparse(M) else np.asarray(M)


def gauss_cov_cdf_section(ctx, D, G, rng, S):
    """(A) compute_cov() / cov-after-compute / cdf of Gaussians given by NON-DIAGONAL matrices (symmetric and, for
    the square-root forms, non-symmetric), dims 2..4, against the model's exact covariance of the distribution whose
    logpdf is evaluated; (B) the same reads after re-assigning the matrix or the mean on the same object."""
    from scipy import integrate
    forms = ["cov", "prec", "sqrtcov", "sqrtprec"]

    def spd(n):
        A = np.array([[dy(rng, -1, 1, 2) for _ in range(n)] for _ in range(n)])
        A = A @ A.T + np.eye(n) * rng.choice([0.5, 1.0, 2.0])
        if np.count_nonzero(A - np.diag(np.diag(A))) == 0:
            A[0, 1] = A[1, 0] = 0.25
        return A

    def sq(n, sym):
        while True:
            A = np.array([[dy(rng, -2, 2, 2) for _ in range(n)] for _ in range(n)]) + np.eye(n) * 2
            if sym:
                A = (A + A.T) / 2
            else:
                A[0, n - 1] += 1.0; A[n - 1, 0] = 0.0
            if abs(np.linalg.det(A)) > 0.3 and np.count_nonzero(A - np.diag(np.diag(A))) > 0:
                return A

    def perturb(M, form):
        """new matrix sharing most entries with M (one diagonal entry raised) — stays SPD / non-singular"""
        M2 = M.copy(); j = rng.randrange(M.shape[0]); M2[j, j] += rng.choice([0.5, 1.0, 2.0])
        if abs(np.linalg.det(M2)) < 0.2:
            M2[j, j] += 3.0
        return M2

    runs, lines = [], []
    for form in forms:
        for n in (2, 2, 3, 4):
            for rep in range(1 * S):
                sym = form in ("cov", "prec") or rng.random() < 0.4
                M = spd(n) if form in ("cov", "prec") else sq(n, sym)
                mu = [dy(rng, -2, 2) for _ in range(n)]
                steps = []
                for step in range(rng.choice([2, 3, 4])):
                    assign = None
                    if step > 0:
                        if rng.random() < 0.6:
                            how = rng.choice(["some", "all", "none"])
                            M = perturb(M, form) if how == "some" else ((spd(n) if form in ("cov", "prec") else sq(n, sym)) if how == "all" else M.copy())
                            assign = (form, M.copy(), how)
                        else:
                            mu2 = [dy(rng, -2, 2) for _ in range(n)]
                            for j in rng.sample(range(n), rng.randint(0, n - 1)):
                                mu2[j] = mu[j]
                            mu = mu2; assign = ("mean", np.array(mu), "some")
                    x = [dy(rng, -2, 3) for _ in range(n)]
                    lines.append(f"gauss {form} dense {n} {qv(x)} {qv(mu)} {qm(M.tolist())}")
                    lines.append(f"gausscov {form} dense {n} {qm(M.tolist())}")
                    steps.append((assign, x, list(mu), M.copy()))
                runs.append((form, n, sym, steps))
    outs = iter(ctx.lean.drive(lines))
    nquad = 0
    st = np.random.get_state()
    try:
        for form, n, sym, steps in runs:
            a0, x0, mu0, M0 = steps[0]
            with quiet():
                g = D.Gaussian(np.array(mu0), **{form: M0.copy()})
            log = []
            for (assign, x, mu, M) in steps:
                o1, o2 = next(outs), next(outs)
                if assign is not None:
                    with quiet():
                        setattr(g, assign[0], assign[1].copy() if hasattr(assign[1], "copy") else assign[1])
                    log.append(f"{assign[0]}:{assign[2]}")
                else:
                    log.append("init")
                nonsym = not np.allclose(M, M.T)
                desc = {"form": form, "dim": n, "history": list(log), "mean": mu, "M": M.tolist(), "x": x}
                ctx.case("gauss-cov-cdf", desc)
                key = f"Gaussian:{form}:covariance" + (":history" if len(log) > 1 else "")
                xa = np.array(x, dtype=float)
                t1, t2 = o1.split(), o2.split()
                mism, fail = [], None
                if t1[0] != "ok" or t2[0] != "ok":
                    ctx.note(f"model declines a generated SPD/non-singular case: {o1[:30]} {o2[:30]}"); continue
                Cm = np.array([[float(Fraction(v)) for v in r.split(",")] for r in t2[1].split(";")])
                istat, ival = call(lambda: g.logpdf(xa))
                if istat != "value" or not close(dec(t1[4]), ival, TOL):
                    mism.append(f"logpdf {[istat, ival]} vs model {dec(t1[4])}")
                with quiet():
                    S_ = _dense(g.sqrtprec)
                    Cself = np.linalg.inv(S_.T @ S_)          # covariance of the density logpdf evaluates
                    try:
                        Ci = _dense(g.compute_cov())
                        Cattr = _dense(g.cov)
                    except Exception as e:  # noqa
                        Ci = None; mism.append(f"compute_cov raised {type(e).__name__}")
                if not np.allclose(Cself, Cm, rtol=1e-8, atol=1e-10):
                    mism.append("inverse of sqrtprec^T sqrtprec is not the model's covariance")
                if Ci is not None:
                    if Ci.shape != Cm.shape or not np.allclose(Ci, Cm, rtol=1e-8, atol=1e-10):
                        mism.append("compute_cov() is not the model's exact covariance")
                    if not np.allclose(Ci, Cself, rtol=1e-7, atol=1e-9):
                        fail = (Cself.tolist(), Ci.tolist(), "compute_cov() is not the covariance of the density that logpdf evaluates (inverse of sqrtprec^T sqrtprec)")
                    elif not np.allclose(Cattr, Ci, rtol=1e-12, atol=1e-12):
                        fail = (Ci.tolist(), Cattr.tolist(), "`cov` read after compute_cov() differs from what compute_cov() returned")
                # cdf = integral of that density
                if fail is None:
                    cs, cval = call(lambda: g.cdf(xa))
                    with quiet():
                        cref = float(sps.multivariate_normal(np.array(mu), Cself, allow_singular=False).cdf(xa))
                    if cs != "value" or abs(cval - cref) > 2e-3:
                        fail = (cref, [cs, cval], "Gaussian.cdf is not the integral of the density (reference: scipy mvn cdf with the covariance logpdf uses)")
                    elif n == 2 and nquad < 3 * S and len(log) == 1:
                        nquad += 1
                        sd = np.sqrt(np.diag(Cself))
                        f = lambda b, a: float(np.exp(fnum(g.logpdf(np.array([a, b])))))
                        with quiet():
                            integ = integrate.dblquad(f, mu[0] - 9 * sd[0], x[0], mu[1] - 9 * sd[1], x[1], epsabs=1e-7, epsrel=1e-7)[0] \
                                if x[0] > mu[0] - 9 * sd[0] and x[1] > mu[1] - 9 * sd[1] else 0.0
                        ctx.case("gauss-cdf-quadrature-2d", {"form": form})
                        if abs(integ - cval) > 2e-3:
                            fail = (integ, cval, "Gaussian.cdf is not the 2-D quadrature of the implementation's own pdf")
                # documented covariance (sqrtcov: R^T R) — known finding for non-symmetric R
                if fail is None and not mism and form == "sqrtcov" and nonsym:
                    ctx.fail("Gaussian:sqrtcov:covariance:nonsymmetric", desc, (M.T @ M).tolist(), Ci.tolist(),
                             "compute_cov() of Gaussian(sqrtcov=R) is R R^T, documented R^T R")
                verdict(ctx, key, desc, not mism, o2[:120], mism, fail, "Gaussian covariance: model and implementation differ: " + "; ".join(mism))
    finally:
        np.random.set_state(st)


def gauss_sparse_cov_cdf_section(ctx, D, rng, S):
    """compute_cov() and cdf of Gaussians whose matrix is a scipy.sparse NON-diagonal matrix (tridiagonal cov / prec,
    bidiagonal sqrtcov / sqrtprec as in the class docstring), csr / csc / dia formats, dims 2..5."""
    jobs, lines = [], []
    for form in ("prec", "sqrtprec", "sqrtcov", "cov"):
        for rep in range(3 * S):
            n = rng.choice([2, 3, 4, 5])
            if form in ("cov", "prec"):
                A = band(n, rng.choice([2.5, 3.0, 2.0]), rng.choice([-1.0, 1.0, 0.5]))
            else:
                A = band(n, rng.choice([1.0, 2.0]), rng.choice([-1.0, -0.5, 0.5]), 0.0)      # upper bidiagonal
            fmt = rng.choice(["csr", "csc", "dia"])
            mu = [dy(rng, -1, 1) for _ in range(n)]
            x = [mu[j] + dy(rng, -1, 2) for j in range(n)]
            lines.append(f"gausscov {form} sparse {n} {qm(A.tolist())}")
            jobs.append((form, n, A, fmt, mu, x))
    outs = ctx.lean.drive(lines)
    st = np.random.get_state()
    try:
        for (form, n, A, fmt, mu, x), out in zip(jobs, outs):
            desc = {"form": form, "dim": n, "format": fmt, "M": A.tolist(), "mean": mu, "x": x}
            ctx.case("gauss-sparse-cov-cdf", desc)
            key = f"Gaussian:{form}:sparse-full:covariance"
            obj = {"csr": spa.csr_matrix, "csc": spa.csc_matrix, "dia": spa.dia_matrix}[fmt](A)
            try:
                with quiet():
                    g = D.Gaussian(np.array(mu), **{form: obj})
                    S_ = _dense(g.sqrtprec); Cself = np.linalg.inv(S_.T @ S_)
            except Exception as e:  # noqa
                ctx.note(f"sparse {form} ({fmt}) refused by the constructor: {type(e).__name__}"); continue
            mism, fail = [], None
            t = out.split()
            if t[0] == "ok":
                Cm = np.array([[float(Fraction(v)) for v in r.split(",")] for r in t[1].split(";")])
                if not np.allclose(Cself, Cm, rtol=1e-8, atol=1e-10):
                    mism.append("inverse of sqrtprec^T sqrtprec is not the model's covariance")
            xa = np.array(x, dtype=float)
            try:
                with quiet():
                    Ci = _dense(g.compute_cov())
            except Exception as e:  # noqa
                ctx.note(f"sparse {form} ({fmt}): compute_cov / cdf refused ({type(e).__name__})"); Ci = None
            if Ci is not None:
                if t[0] == "ok" and not np.allclose(Ci, Cm, rtol=1e-8, atol=1e-10):
                    mism.append("compute_cov() is not the model's exact covariance")
                if not np.allclose(Ci, Cself, rtol=1e-7, atol=1e-9):
                    fail = (Cself.tolist(), Ci.tolist(), "compute_cov() is not the covariance of the density (inverse of sqrtprec^T sqrtprec)")
                else:
                    cs, cval = call(lambda: g.cdf(xa))
                    with quiet():
                        cref = float(sps.multivariate_normal(np.array(mu), Cself).cdf(xa))
                    if cs == "raise":
                        ctx.note(f"sparse {form} ({fmt}): cdf refused ({cval})")        # a refusal, not a wrong value
                    elif abs(cval - cref) > 2e-3:
                        fail = (cref, [cs, cval], "Gaussian.cdf of a Gaussian given by a sparse non-diagonal matrix is not the integral of its density (correlations dropped?)")
                        mism.append(f"cdf {[cs, cval]} vs multivariate normal cdf with the model's covariance {cref}")
            verdict(ctx, key, desc, not mism, out[:100], mism, fail, "sparse Gaussian covariance / cdf: model and implementation differ: " + "; ".join(mism))
    finally:
        np.random.set_state(st)


def gmrf_threshold_section(ctx, D, thorough):
    """GMRF on both sides of config.MAX_DIM_INV (the log-determinant switches from eigenvalues to the Cholesky factor of
    the regularised matrix); float64 reference (pseudo-determinant of the structure matrix), tolerance 1e-6 relative"""
    from cuqi import config
    T = int(config.MAX_DIM_INV)
    dims = [T + 1] + ([T] if thorough else [])
    for n in dims:
        for bc in ("zero", "periodic", "neumann"):
            with quiet():
                g = D.GMRF(np.zeros(n), 2.0, bc_type=bc)
                P = _dense(g._prec_op.get_matrix())
            x = np.sin(np.arange(n) / 50.0)
            ev = np.linalg.eigvalsh(P); pos = ev > 1e-9 * ev.max(); r = int(pos.sum())
            ref = 0.5 * (r * (math.log(2.0) - math.log(2 * math.pi)) + float(np.log(ev[pos]).sum())) - 0.5 * 2.0 * float(x @ (P @ x))
            st, v = call(lambda: g.logpdf(x))
            desc = {"family": "gmrf", "bc": bc, "dim": n, "MAX_DIM_INV": T}
            ctx.case("gmrf-threshold", desc)
            if st != "value" or not relclose(ref, v, 1e-6):
                ctx.fail(f"GMRF:1D:order1:{bc}:dim>MAX_DIM_INV:logdet" if n > T else f"GMRF:1D:order1:{bc}:dim=MAX_DIM_INV:logpdf", desc, ref, [st, v],
                         "GMRF.logpdf is not the documented (degenerate) Gaussian density: log-determinant of the structure matrix")


def lognormal_history_section(ctx, D, rng, S):
    """Lognormal keeps an internal Gaussian; `mean` / `cov` re-assigned with values sharing some / all / no entries"""
    runs, lines = [], []
    for rep in range(8 * S):
        n = rng.choice([2, 3, 3, 4])
        kind = rng.choice(["vector", "dense", "vector"])
        mu = [dy(rng, -1, 1) for _ in range(n)]
        if kind == "vector":
            C = [dy(rng, 0.25, 3) for _ in range(n)]
        else:
            A = np.array([[dy(rng, -1, 1, 2) for _ in range(n)] for _ in range(n)]); C = A @ A.T + np.eye(n)
        steps = []
        for step in range(rng.choice([3, 4, 5])):
            assign = None
            if step > 0:
                how = rng.choice(["some", "some", "all", "none"])
                if rng.random() < 0.5:
                    mu2 = [dy(rng, -1, 1) + (0.125 if how != "none" else 0) for _ in range(n)]
                    if how == "none":
                        mu2 = list(mu)
                    elif how == "some":
                        for j in rng.sample(range(n), rng.randint(1, n - 1)):
                            mu2[j] = mu[j]
                    mu = mu2; assign = ("mean", np.array(mu), how)
                else:
                    if kind == "vector":
                        C2 = [dy(rng, 0.25, 3) for _ in range(n)]
                        if how == "none":
                            C2 = list(C)
                        elif how == "some":
                            for j in rng.sample(range(n), rng.randint(1, n - 1)):
                                C2[j] = C[j]
                        C = C2
                    else:
                        if how == "some":
                            C = C.copy(); j = rng.randrange(n); C[j, j] += rng.choice([0.5, 1.0])
                        elif how == "all":
                            A = np.array([[dy(rng, -1, 1, 2) for _ in range(n)] for _ in range(n)]); C = A @ A.T + 2 * np.eye(n) + 0.25
                        else:
                            C = C.copy()
                    assign = ("cov", np.array(C, dtype=float), how)
            x = [dy(rng, 0.25, 4, 8) for _ in range(n)]
            logx = [math.log(v) for v in x]
            Mv = [list(C)] if kind == "vector" else np.asarray(C).tolist()
            lines.append(f"logn {kind} {n} {qv(x)} {qv(logx)} {qv(mu)} {qm(Mv)}")
            steps.append((assign, x, list(mu), np.array(C, dtype=float)))
        runs.append((n, kind, steps))
    outs = iter(ctx.lean.drive(lines))
    for n, kind, steps in runs:
        a0, x0, mu0, C0 = steps[0]
        with quiet():
            dist = D.Lognormal(np.array(mu0), C0.copy())
        log = []
        for (assign, x, mu, C) in steps:
            out = next(outs)
            if assign is not None:
                with quiet():
                    setattr(dist, assign[0], assign[1].copy())
                log.append(f"{assign[0]}:{assign[2]}")
            else:
                log.append("init")
            desc = {"dim": n, "kind": kind, "history": list(log), "mean": mu, "cov": C.tolist(), "x": x}
            ctx.case("history-lognormal", desc)
            key = "Lognormal:history:" + (assign[0] if assign else "init")
            istat, ival = call(lambda: dist.logpdf(np.array(x)))
            t = out.split()
            mval = dec(t[1]) if t[0] == "ok" else None
            tie_ok = mval is not None and istat == "value" and close(mval, ival, TOL)
            Cfull = np.diag(C) if C.ndim == 1 else C
            ref = float(sps.multivariate_normal(np.array(mu), Cfull).logpdf(np.log(x)) - np.sum(np.log(x)))
            fail = None
            if istat != "value" or not close(ref, ival, ORTOL):
                fail = (ref, [istat, ival], "after re-assigning mean/cov, Lognormal.logpdf is not that of the current parameters (stale internal Gaussian)")
            else:
                ps, pval = call(lambda: dist.pdf(np.array(x)))
                if ps != "value" or not close(pval, math.exp(ref), 1e-8):
                    fail = (math.exp(ref), [ps, pval], "after re-assigning mean/cov, Lognormal.pdf is not that of the current parameters")
                    tie_ok = False
            verdict(ctx, key, desc, tie_ok, out, [istat, ival], fail, "Lognormal history: model (current parameters) and implementation differ")


def mrf_history_section(ctx, D, G, rng, S):
    """GMRF (prec, mean), LMRF / CMRF (location, scale) re-assigned on one object"""
    runs, lines = [], []
    for fam in ("gmrf", "lmrf", "cmrf"):
        for rep in range(4 * S):
            n = rng.choice([3, 4, 5, 6]); bc = rng.choice(["zero", "zero", "periodic", "neumann"])
            order = rng.choice([1, 2]) if fam == "gmrf" else 1
            if fam == "gmrf" and order == 2 and bc == "neumann":
                bc = "zero"                      # known-finding class (rank) stays in mrf_section
            par = rng.choice([0.5, 1.0, 2.0]); loc = [dy(rng, -2, 2) for _ in range(n)]
            steps = []
            for step in range(rng.choice([3, 4])):
                assign = None
                if step > 0:
                    if rng.random() < 0.5:
                        par = rng.choice([0.25, 0.5, 1.0, 2.0, 4.0]); assign = ("prec" if fam == "gmrf" else "scale", par, "all")
                    else:
                        l2 = [dy(rng, -2, 2) for _ in range(n)]
                        for j in rng.sample(range(n), rng.randint(0, n - 1)):
                            l2[j] = loc[j]
                        loc = l2; assign = ("mean" if fam == "gmrf" else "location", np.array(loc), "some")
                x = [dy(rng, -3, 3) for _ in range(n)]
                if fam == "gmrf":
                    lines.append(f"gmrf 1 {order} {bc} {n} {q(par)} {qv(x)} {qv(loc)}")
                else:
                    lines.append(f"mrf {fam} 1 {bc} {n} {q(par)} {qv(x)} {qv(loc)}")
                steps.append((assign, x, list(loc), par))
            runs.append((fam, n, bc, order, steps))
    outs = iter(ctx.lean.drive(lines))
    for fam, n, bc, order, steps in runs:
        a0, x0, loc0, par0 = steps[0]
        try:
            with quiet():
                dist = {"gmrf": lambda: D.GMRF(np.array(loc0), par0, bc_type=bc, order=order),
                        "lmrf": lambda: D.LMRF(np.array(loc0), par0, bc_type=bc),
                        "cmrf": lambda: D.CMRF(np.array(loc0), par0, bc_type=bc)}[fam]()
        except Exception:
            for _ in steps:
                next(outs)
            continue
        log = []
        for (assign, x, loc, par) in steps:
            out = next(outs)
            if assign is not None:
                with quiet():
                    setattr(dist, assign[0], assign[1])
                log.append(f"{assign[0]}:{assign[2]}")
            else:
                log.append("init")
            desc = {"family": fam, "n": n, "bc": bc, "order": order, "history": list(log), "param": par, "location": loc, "x": x}
            ctx.case(f"history-{fam}", desc)
            key = f"{fam.upper()}:history:{bc}:" + (assign[0] if assign else "init")
            xa, lb = np.array(x, dtype=float), np.array(loc, dtype=float)
            istat, ival = call(lambda: dist.logpdf(xa))
            t = out.split()
            tok = t[5] if fam == "gmrf" else t[2]
            tie_ok = True if tok == "-" else (istat == "value" and close(dec(tok), ival, 1e-8))
            fail = None
            with quiet():
                if fam == "gmrf":
                    Pi = _dense(dist._prec_op.get_matrix())
                    qi = float((xa - lb) @ (Pi @ (xa - lb)))
                    s0, v0 = call(lambda: dist.logpdf(lb.copy()))
                    c0 = 0.5 * (int(dist._rank) * (math.log(par) - math.log(2 * math.pi)) + float(dist._logdet))
                    if istat != "value" or s0 != "value" or not close(ival - v0, -0.5 * par * qi, 1e-8):
                        fail = (-0.5 * par * qi, [istat, ival], "after re-assigning prec/mean, GMRF.logpdf(x)-logpdf(mean) is not -prec/2 |D(x-mean)|^2 for the current parameters")
                    elif not close(v0, c0, 1e-8):
                        fail = (c0, v0, "after re-assigning prec, the GMRF normalising constant is not that of the current precision")
                else:
                    Dm = _dense(dist._diff_op.get_matrix()); u = Dm @ (xa - lb)
                    ref = float(sum((sps.laplace if fam == "lmrf" else sps.cauchy).logpdf(v, 0, par) for v in u))
                    if istat != "value" or not close(ref, ival, ORTOL):
                        fail = (ref, [istat, ival], f"after re-assigning location/scale, {fam.upper()}.logpdf is not that of the current parameters")
            verdict(ctx, key, desc, tie_ok, out[:120], [istat, ival], fail, f"{fam.upper()} history: model (current parameters) and implementation differ")


def relclose(a, b, tol):
    a = float(a); b = float(b)
    if a != a or b != b:
        return (a != a) and (b != b)
    if math.isinf(a) or math.isinf(b):
        return a == b
    ok = abs(a - b) <= tol * (1.0 + max(abs(a), abs(b)))
    _record_margin(a, b, tol, ok)
    return ok


def mat_relclose(A, B, tol):
    A = np.asarray(A, dtype=float); B = np.asarray(B, dtype=float)
    return A.shape == B.shape and float(np.max(np.abs(A - B))) <= tol * float(np.max(np.abs(B)))


def doc_cov(form, A):
    """covariance the documentation assigns (A symmetric in these sections, so R R^T = R^T R)"""
    if form == "cov":
        return A
    if form == "prec":
        return np.linalg.inv(A)
    if form == "sqrtcov":
        return A.T @ A
    return np.linalg.inv(A.T @ A)


INVERSE_FORM = {"cov": "prec", "prec": "cov", "sqrtcov": "sqrtprec", "sqrtprec": "sqrtcov"}


def gauss_scale_section(ctx, D, rng, S):
    """Gaussians whose matrices are scaled by 1e-10 … 1e10, and nearly-diagonal matrices (off-diagonals 1e-9 / 1e-12
    next to O(1) diagonals): every structural decision of the code (is scalar / is diagonal / is symmetric) must be
    exact — a decision taken with a tolerance shows as a wrong log-density.  The model is exact at any scale."""
    def tri(n, d=2.0, o=1.0):
        return band(n, d, o)
    cases = []
    for form in ("cov", "prec", "sqrtcov", "sqrtprec"):
        for sc in (1e-10, 1e-8, 1e-6, 1e6, 1e10):
            for kind in ("dense", "sparse"):
                n = rng.choice([2, 3, 4, 5, 6])
                cases.append((form, kind, n, tri(n, rng.choice([2.0, 3.0]), rng.choice([1.0, -1.0, 0.5])) * sc, f"scaled:{sc:g}"))
            n = rng.choice([2, 3, 4])
            v = np.array([dy(rng, 0.5, 3) for _ in range(n)]) * sc
            cases.append((form, "dense", n, np.diag(v), f"scaled-diagonal:{sc:g}"))
            cases.append((form, "vector", n, v, f"scaled-vector:{sc:g}"))
            cases.append((form, "scalar", n, float(v[0]), f"scaled-scalar:{sc:g}"))
        for eps in (1e-9, 1e-12):
            for kind in ("dense", "sparse"):
                n = rng.choice([2, 3, 4, 5, 6])
                A = np.diag([dy(rng, 0.5, 3) for _ in range(n)])
                for i in range(n - 1):
                    A[i, i + 1] = A[i + 1, i] = eps
                cases.append((form, kind, n, A, f"nearly-diagonal:{eps:g}"))
    lines, meta = [], []
    for (form, kind, n, A, label) in cases:
        if kind == "scalar":
            Mv = [[A]]; obj = A; Afull = np.eye(n) * A
        elif kind == "vector":
            Mv = [A.tolist()]; obj = A.copy(); Afull = np.diag(A)
        else:
            Mv = A.tolist(); obj = A.copy() if kind == "dense" else spa.csr_matrix(A); Afull = A
        C = doc_cov(form, Afull)
        sd = np.sqrt(np.diag(C))
        mu = np.array([dy(rng, -2, 2) for _ in range(n)])
        x = mu + sd * np.array([dy(rng, -2, 2) for _ in range(n)])      # deviations of the order of the standard deviations
        lines.append(f"gauss {form} {kind} {n} {qv(x)} {qv(mu)} {qm(Mv)}")
        meta.append((form, kind, n, obj, Afull, C, mu, x, label))
    outs = ctx.lean.drive(lines)
    for (form, kind, n, obj, Afull, C, mu, x, label), out in zip(meta, outs):
        desc = {"form": form, "kind": kind, "dim": n, "class": label, "M": Afull.tolist(), "mean": mu.tolist(), "x": x.tolist()}
        ctx.case("gauss-scale", desc)
        key = f"Gaussian:{form}:{kind}:{label.split(':')[0]}"
        t = out.split()
        try:
            with quiet():
                g = D.Gaussian(mu.copy(), **{form: obj}, geometry=n)
        except Exception as e:  # noqa
            g = None; cerr = type(e).__name__
        istat, ival = call(lambda: g.logpdf(x)) if g is not None else ("raise", cerr)
        mism, fail = [], None
        full_sparse = kind == "sparse"       # non-diagonal scipy-sparse: no normalised logpdf without cholmod
        if t[0] == "nologdet":
            if istat != "raise" or g is None:
                mism.append(f"model: logpdf refused (sparse full matrix); implementation {[istat, ival]}")
                if istat == "value":
                    with quiet():
                        ref = float(sps.multivariate_normal(mu, C).logpdf(x))
                    if not relclose(ref, ival, 1e-7):
                        fail = (ref, ival, "a value is returned for a non-diagonal sparse matrix and it is not the documented density (treated as diagonal?)")
            else:
                with quiet():
                    lu = fnum(g._logupdf(x))
                if not relclose(-0.5 * dec(t[1]), lu, 1e-8):
                    mism.append(f"logupdf {lu} vs model {-0.5 * dec(t[1])}")
                ref = -0.5 * float((x - mu) @ np.linalg.solve(C, x - mu))
                if not relclose(ref, lu, 1e-7):
                    fail = (ref, lu, "un-normalised log-density is not -1/2 (x-mu)^T Sigma^-1 (x-mu) (a structural decision taken with a tolerance?)")
        elif t[0] == "ok":
            rank, detcov, lp = int(t[1]), Fraction(t[2][2:]), dec(t[4])
            if istat != "value" or not relclose(lp, ival, 1e-8):
                mism.append(f"logpdf {[istat, ival]} vs model {lp}")
            if g is not None and istat == "value":
                with quiet():
                    S_ = _dense(g.sqrtprec); Pi = S_.T @ S_
                if int(g.rank) != rank:
                    mism.append(f"rank {int(g.rank)} vs model {rank}")
                ldm = float(math.log(detcov.numerator) - math.log(detcov.denominator))
                if not relclose(ldm, fnum(g.logdet), 1e-8):
                    mism.append(f"logdet {fnum(g.logdet)} vs model {ldm}")
                if len(t) > 6 and t[6] != "-":
                    Pm = np.array([[float(Fraction(v)) for v in r.split(",")] for r in t[6].split(";")])
                    if not mat_relclose(Pi, Pm, 1e-8):
                        mism.append("sqrtprec^T sqrtprec is not the model's precision (relative 1e-8)")
            with quiet():
                ref = float(sps.multivariate_normal(mu, C).logpdf(x))
            if istat != "value" or not relclose(ref, ival, 1e-7):
                fail = (ref, [istat, ival], "Gaussian.logpdf is not the documented density at this scale (a structural decision taken with a tolerance?)")
            elif kind in ("dense",):
                # the same distribution through the inverse form
                inv = INVERSE_FORM[form]
                with quiet():
                    try:
                        v2 = fnum(D.Gaussian(mu.copy(), **{inv: np.linalg.inv(Afull)}, geometry=n).logpdf(x))
                    except Exception as e:  # noqa
                        v2 = f"raises {type(e).__name__}"
                if isinstance(v2, str) or not relclose(v2, ival, 1e-7):
                    fail = (ival, v2, f"the same Gaussian given through {inv} = inverse matrix has a different log-density")
        else:
            mism.append(f"model answer {out[:40]} for a valid specification")
        verdict(ctx, key, desc, not mism, out[:120], mism, fail, "Gaussian at extreme scale: model and implementation differ: " + "; ".join(mism))


def gauss_scale_bigdim_section(ctx, D, rng, S):
    """dim > MIN_DIM_SPARSE, dense FULL (tridiagonal, well conditioned) matrices scaled by powers of two from 2^-40 (1e-12) to
    2^33 (1e10): the eigen-decomposition branches decide which eigenvalues are 'zero' RELATIVE to the largest one, so rank,
    log-determinant and precision must not depend on the overall scale.  The model is exact at any scale (the scaling by a
    power of two is exact in floating point); float64 reference: scipy mvn with the documented covariance."""
    cases = []
    for i, form in enumerate(("cov", "prec", "sqrtcov", "sqrtprec")):
        exps = (-40, -33, 20, 33) if form in ("cov", "prec") else (-20, -17, 10, 16)      # square roots: the product is scaled by the square
        if ctx.tier != "thorough":       # quick: one small and one large scale per form (alternating with the seed); thorough: all four
            exps = (exps[(i + ctx.seed) % 2],) if (i + ctx.seed // 2) % 2 == 0 else (exps[2 + (i + ctx.seed) % 2],)   # 4 cases; the eig stream (c04_eig.py) scales too
        for j, e in enumerate(exps):
            n = (76, 80, 77, 84)[(i + j + ctx.seed) % 4]
            A = band(n, rng.choice([2.0, 3.0]), rng.choice([1.0, -1.0, 0.5])) * (2.0 ** e)
            cases.append((form, n, e, A))
    lines, meta = [], []
    for (form, n, e, A) in cases:
        C = doc_cov(form, A)
        sd = np.sqrt(np.diag(C))
        mu = np.array([dy(rng, -2, 2) for _ in range(n)])
        x = mu + sd * np.array([dy(rng, -2, 2) for _ in range(n)])
        lines.append(f"gauss {form} dense {n} {qv(x)} {qv(mu)} {qm(A.tolist())}")
        meta.append((form, n, e, A, C, mu, x))
    outs = ctx.lean.drive(lines)
    for (form, n, e, A, C, mu, x), out in zip(meta, outs):
        desc = {"form": form, "dim": n, "class": f"tridiagonal scaled by 2^{e}", "diag": float(A[0, 0]), "offdiag": float(A[0, 1]),
                "mean": "(dyadic, length dim)", "x": "mean + sd * dyadic"}
        ctx.case("gauss-scale-dim>75", desc)
        key = f"Gaussian:{form}:dense:dim>75:scaled"
        t = out.split()
        try:
            with quiet():
                g = D.Gaussian(mu.copy(), **{form: A.copy()})
        except Exception as ex:  # noqa
            g = None; cerr = type(ex).__name__
        istat, ival = call(lambda: g.logpdf(x)) if g is not None else ("raise", cerr)
        mism, fail = [], None
        if t[0] != "ok":
            mism.append(f"model answer {out[:40]} for an SPD specification")
        else:
            # the model's determinant of the covariance is an exact rational far outside the double range (2^(-40*76)): the
            # log-density is assembled here from the model's exact rank / determinant / quadratic form
            dc = Fraction(t[2][2:])
            mlp = -0.5 * (int(t[1]) * math.log(2 * math.pi) + math.log(dc.numerator) - math.log(dc.denominator)) - 0.5 * dec(t[3])
            if istat != "value" or not relclose(mlp, ival, 1e-7):      # float64 eigh-based evaluation at dim ~80: observed noise 1e-9
                mism.append(f"logpdf {[istat, ival]} vs model {mlp}")
            if g is not None:
                if int(g.rank) != int(t[1]):
                    mism.append(f"rank {int(g.rank)} vs model {t[1]}")
                if not relclose(math.log(dc.numerator) - math.log(dc.denominator), fnum(g.logdet), 1e-8):
                    mism.append(f"logdet {fnum(g.logdet)} vs model {math.log(dc.numerator) - math.log(dc.denominator)}")
        if g is None:
            fail = ("a Gaussian", f"raises {cerr}", "a well-conditioned SPD specification is refused at this scale")
        else:
            with quiet():
                ref = float(sps.multivariate_normal(mu, C).logpdf(x))
            if int(g.rank) != n:
                fail = (n, int(g.rank), f"rank of a well-conditioned (condition number < 10) matrix scaled by 2^{e} is not the dimension: eigenvalues are cut off by an absolute tolerance")
            elif istat != "value" or not relclose(ref, ival, 1e-7):
                fail = (ref, [istat, ival], f"Gaussian.logpdf is not the documented density for a dense matrix scaled by 2^{e} at dim > 75")
        verdict(ctx, key, desc, not mism, out[:100], mism, fail, "scaled dense Gaussian, dim > 75: model and implementation differ: " + "; ".join(mism))


def gauss_structured_bigdim_section(ctx, D, rng, S, thorough):
    """dim > MIN_DIM_SPARSE, dense NON-banded matrices whose eigenvector matrices contain exact zeros: block-diagonal of
    two dense SPD blocks, identity block + dense block, a permutation of a block structure, identity + low rank on a
    subset of the coordinates; through prec, cov, sqrtcov, sqrtprec."""
    nrs = np.random.RandomState(ctx.seed + 4040)

    def spd(k):
        A = nrs.randint(-2, 3, size=(k, k)) / 2.0
        return A @ A.T + np.eye(k) * 2

    def structure(kind, n):
        M = np.zeros((n, n))
        if kind == "two-blocks":
            k = n // 2; M[:k, :k] = spd(k); M[k:, k:] = spd(n - k)
        elif kind == "identity+block":
            k = n - 30; M[:k, :k] = np.eye(k) * float(nrs.choice([1.0, 2.0, 0.5])); M[k:, k:] = spd(30)
        elif kind == "permuted-blocks":
            k = n // 3; M[:k, :k] = spd(k); M[k:, k:] = spd(n - k)
            perm = nrs.permutation(n); M = M[np.ix_(perm, perm)]
        else:  # identity + low rank supported on the first 30 coordinates
            V = np.zeros((n, 2)); V[:30, :] = nrs.randint(-2, 3, size=(30, 2)) / 2.0
            M = np.eye(n) + V @ V.T
        return M

    kinds = ["two-blocks", "identity+block", "permuted-blocks", "identity+lowrank"]
    cases = []
    for form in ("prec", "cov", "sqrtcov", "sqrtprec"):
        for kind in kinds:
            for _ in range(1 if not thorough else 3):
                n = int(nrs.choice([76, 80, 84, 90]))
                cases.append((form, kind, n, structure(kind, n)))
    lines, meta = [], []
    for i, (form, kind, n, M) in enumerate(cases):
        mu = nrs.randint(-4, 5, size=n) / 2.0
        x = mu + nrs.randint(-4, 5, size=n) / 4.0
        use_model = form == "prec" or (i % 4 == (ctx.seed + {"cov": 0, "sqrtcov": 1, "sqrtprec": 2}.get(form, 0)) % 4) or thorough
        if use_model:
            lines.append(f"gauss {form} dense {n} {qv(x)} {qv(mu)} {qm(M.tolist())}")
        meta.append((form, kind, n, M, mu, x, use_model))
    outs = iter(ctx.lean.drive(lines))
    for (form, kind, n, M, mu, x, use_model) in meta:
        desc = {"form": form, "structure": kind, "dim": n, "seed_stream": ctx.seed + 4040}
        ctx.case("gauss-structured-dim>75", desc)
        key = f"Gaussian:{form}:dense:dim>75:{kind}"
        out = next(outs) if use_model else None
        C = doc_cov(form, M)
        Pref = np.linalg.inv(C)
        sign, ld = np.linalg.slogdet(C)
        mism, fail = [], None
        try:
            with quiet():
                g = D.Gaussian(mu.copy(), **{form: M.copy()})
        except Exception as e:  # noqa
            g = None; cerr = type(e).__name__
        istat, ival = call(lambda: g.logpdf(x)) if g is not None else ("raise", cerr)
        if out is not None:
            t = out.split()
            if t[0] != "ok":
                mism.append(f"model answer {out[:40]} for an SPD specification")
            else:
                if istat != "value" or not relclose(dec(t[4]), ival, 1e-8):
                    mism.append(f"logpdf {[istat, ival]} vs model {dec(t[4])}")
                if g is not None and int(g.rank) != int(t[1]):
                    mism.append(f"rank {int(g.rank)} vs model {t[1]}")
                dc = Fraction(t[2][2:])
                if g is not None and not relclose(math.log(dc.numerator) - math.log(dc.denominator), fnum(g.logdet), 1e-8):
                    mism.append(f"logdet {fnum(g.logdet)} vs model")
        # float64 reference (stated tolerances): precision 1e-8 relative, log-density 1e-8, rank exact, logdet 1e-8
        if g is None:
            fail = ("a Gaussian", f"raises {cerr}", "an SPD specification is refused")
        else:
            with quiet():
                S_ = _dense(g.sqrtprec); Pi = S_.T @ S_
                ref = float(sps.multivariate_normal(mu, C).logpdf(x))
            if not mat_relclose(Pi, Pref, 1e-8):
                fail = ("sqrtprec^T sqrtprec = precision", f"max deviation {float(np.max(np.abs(Pi - Pref))):.3g}",
                        "the stored square-root precision is not a square root of the precision (dim > 75 eigen-decomposition branch)")
            elif istat != "value" or not relclose(ref, ival, 1e-8):
                fail = (ref, [istat, ival], "Gaussian.logpdf is not the documented density (dim > 75 branch)")
            elif int(g.rank) != n:
                fail = (n, int(g.rank), "rank of a non-singular covariance is not the dimension")
            elif not relclose(ld, fnum(g.logdet), 1e-8):
                fail = (float(ld), fnum(g.logdet), "log-determinant of the covariance is wrong")
        verdict(ctx, key, desc, not mism, (out or "float64 reference only")[:100], mism, fail,
                "structured dense Gaussian, dim > 75: model and implementation differ: " + "; ".join(mism))


# ------------------------------------------------------------------------------------------------ dtypes
F32TOL = 2e-5      # float32 parameters make numpy compute in single precision (eps 6e-8; eigh / logs at dim 80): relative tolerance
SCALAR_VARIANTS = [("pyint", lambda v: int(v)), ("np.int64", lambda v: np.int64(v)), ("np.int32", lambda v: np.int32(v)),
                   ("np.float32", lambda v: np.float32(v)), ("len1-int-array", lambda v: np.array([int(v)])),
                   ("0d-int-array", lambda v: np.array(int(v))), ("0d-float-array", lambda v: np.array(float(v)))]
def _readonly(a):
    a = np.array(a); a.setflags(write=False); return a


def _strided(a):
    a = np.array(a, dtype=float)
    big = np.zeros(tuple(2 * k for k in a.shape)); big[tuple(slice(None, None, 2) for _ in a.shape)] = a
    return big[tuple(slice(None, None, 2) for _ in a.shape)]          # non-contiguous view holding the same numbers


VECTOR_VARIANTS = [("int-list", lambda v: [int(t) for t in v]), ("int64-array", lambda v: np.array(v).astype(np.int64)),
                   ("int32-array", lambda v: np.array(v).astype(np.int32)), ("float32-array", lambda v: np.array(v).astype(np.float32)),
                   ("strided-float64-array", _strided), ("readonly-float64-array", lambda v: _readonly(np.array(v, dtype=float)))]


def dtype_section(ctx, D, G, rng, S):
    """The same numbers passed as Python ints, numpy integer scalars, integer lists / arrays / sparse matrices, float32
    and 0-d arrays must give the log-density of the float64 version (the model's parameters are rationals: it does
    not care), for every family and parameter, on both sides of the sparse threshold for the Gaussian forms, and the
    four Gaussian parameterisations of one covariance must agree.  Integer evaluation points as well."""
    zd = dict(zip(["gaussian", "uniform", "laplace", "lognormal", "gmrf", "lmrf", "cmrf", "normal", "gamma", "cauchy", "beta", "invgamma", "smoothedlaplace"],
                  ctx.lean.drive([f"zerodim {f}" for f in ["gaussian", "uniform", "laplace", "lognormal", "gmrf", "lmrf", "cmrf", "normal", "gamma", "cauchy", "beta", "invgamma", "smoothedlaplace"]])))

    def evaluate(make, x, what=("logpdf", "pdf", "logd", "cdf")):
        """dict of the values the object offers at x (missing / raising entries -> ('raise', cls))"""
        try:
            with quiet():
                d = make()
        except Exception as e:  # noqa
            return {"ctor": ("raise", type(e).__name__)}
        out = {}
        for w in what:
            if hasattr(d, w):
                out[w] = call(lambda: getattr(d, w)(x))
        return out

    def compare(key, desc, base, got, tol, model_val=None, model_raises=False, skip=()):
        mism, fail = [], None
        if "ctor" in got or got.get("logpdf", ("value",))[0] == "raise":
            why = got.get("ctor", got.get("logpdf"))
            if not model_raises:
                mism.append(f"model: value; implementation raises {why[1]}")
            fail = (base.get("logpdf"), f"raises {why[1]}", "no log-density for this way (dtype) of passing the same numbers")
            verdict(ctx, key + (":raises" if model_raises else ""), desc, not mism, "value" if not model_raises else "raise", mism, fail,
                    "dtype: model and implementation differ: " + "; ".join(mism))
            return
        if model_raises:
            mism.append("model: refused; implementation returns a value")
        for w, (st, v) in got.items():
            if w in skip or w not in base or base[w][0] != "value":
                continue
            if st != "value" or not relclose(base[w][1], v, tol):
                fail = fail or (base[w][1], [st, v], f"{w} differs from the value for the float64 version of the same numbers")
        if model_val is not None and got["logpdf"][0] == "value" and not relclose(model_val, got["logpdf"][1], max(tol, 1e-8)):  # float32: F32TOL
            mism.append(f"logpdf {got['logpdf'][1]} vs model {model_val}")
        verdict(ctx, key, desc, not mism, model_val, mism, fail, "dtype: model and implementation differ: " + "; ".join(mism))

    # ---------------------------------------------------------------- i.i.d. families, MRFs, Lognormal
    # integer-valued valid parameters: (family key, class, names, scalar-like params, designated 0-d parameter index)
    def base_params(fam, n):
        r = lambda a, b: float(rng.randint(a, b))
        vec = lambda a, b: [r(a, b) for _ in range(n)]
        if fam == "normal":
            return [vec(-2, 2), vec(1, 3)], [x / 4 for x in range(-6, 7)]
        if fam == "laplace":
            return [vec(-2, 2), [r(1, 3)]], None
        if fam == "smoothedlaplace":
            return [vec(-2, 2), vec(1, 3), [r(1, 2)]], None
        if fam == "cauchy":
            return [vec(-2, 2), vec(1, 3)], None
        if fam == "gamma":
            return [vec(1, 4), vec(1, 3)], None
        if fam == "invgamma":
            return [vec(1, 4), vec(-2, 0), vec(1, 3)], None
        if fam == "beta":
            return [vec(1, 4), vec(1, 4)], None
        if fam == "uniform":
            return [vec(-3, 0), vec(2, 5)], None
        raise ValueError(fam)
    NAMES = {"normal": ["mean", "std"], "laplace": ["location", "scale"], "smoothedlaplace": ["location", "scale", "beta"],
             "cauchy": ["location", "scale"], "gamma": ["shape", "rate"], "invgamma": ["shape", "location", "scale"],
             "beta": ["alpha", "beta"], "uniform": ["low", "high"]}
    CLASS = {"normal": D.Normal, "laplace": D.Laplace, "smoothedlaplace": D.SmoothedLaplace, "cauchy": D.Cauchy, "gamma": D.Gamma,
             "invgamma": D.InverseGamma, "beta": D.Beta, "uniform": D.Uniform}
    jobs, lines = [], []
    for fam in NAMES:
        for rep in range(1 * S):
            n = rng.choice([2, 3])
            p, _ = base_params(fam, n)
            if fam == "beta":
                x = [rng.randint(2, 30) / 32 for _ in range(n)]
            elif fam == "uniform":
                x = [p[0][j] + (p[1][j] - p[0][j]) * rng.randint(1, 7) / 8 for j in range(n)]
            elif fam == "invgamma":
                x = [p[1][j] + float(rng.randint(1, 4)) for j in range(n)]
            elif fam == "gamma":
                x = [float(rng.randint(1, 5)) for _ in range(n)]
            else:
                x = [float(rng.randint(-3, 4)) for _ in range(n)]
            modes = ("".join("s" if len(v) == 1 else "a" for v in p) + "---")[:3]
            pv = [qv(v) for v in p] + ["-", "-"]
            lines.append(f"iid {fam} {n} {modes} {qv(x)} {pv[0]} {pv[1]} {pv[2]}")
            # the same with every vector parameter replaced by its first entry (scalar broadcast), for the scalar variants
            ps = [[v[0]] for v in p]
            if fam == "uniform":
                xs = [ps[0][0] + (ps[1][0] - ps[0][0]) * rng.randint(1, 7) / 8 for _ in range(n)]
            elif fam == "invgamma":
                xs = [ps[1][0] + float(rng.randint(1, 4)) for _ in range(n)]
            else:
                xs = list(x)
            lines.append(f"iid {fam} {n} sss {qv(xs)} {qv(ps[0])} {qv(ps[1])} {qv(ps[2]) if len(ps) > 2 else '-'}")
            jobs.append((fam, n, p, x, ps, xs))
    outs = iter(ctx.lean.drive(lines))
    for fam, n, p, x, ps, xs in jobs:
        o_vec, o_sc = next(outs), next(outs)
        cls, names = CLASS[fam], NAMES[fam]
        mv = dec(o_vec.split()[1]) if o_vec.startswith("formula") else None
        ms = dec(o_sc.split()[1]) if o_sc.startswith("formula") else None
        xa, xsa = np.array(x), np.array(xs)
        fobj = lambda v: float(v[0]) if len(v) == 1 else np.array(v, dtype=float)
        base_v = evaluate(lambda: cls(**dict(zip(names, [fobj(v) for v in p])), geometry=n), xa)
        base_s = evaluate(lambda: cls(**dict(zip(names, [float(v[0]) for v in ps])), geometry=n), xsa)
        skip = ("cdf",) if fam == "cauchy" else ()          # Cauchy.cdf for dim>1 is a recorded finding; dtype does not change it
        for label, conv in VECTOR_VARIANTS:
            if label == "int-list" and fam in ("normal", "uniform"):
                continue                                  # Python lists for these two are a recorded refusal
            desc = {"family": fam, "dim": n, "variant": label, "params": p, "x": x}
            ctx.case("dtype-iid", desc)
            got = evaluate(lambda: cls(**dict(zip(names, [conv(v) if len(v) > 1 else conv(v)[0] if label != "int-list" else int(v[0]) for v in p])), geometry=n), xa)
            compare(f"{cls.__name__}:dtype:{label}", desc, base_v, got, F32TOL if "float32" in label else 1e-12, mv, skip=skip)
        for label, conv in SCALAR_VARIANTS:
            desc = {"family": fam, "dim": n, "variant": label, "params": ps, "x": xs}
            ctx.case("dtype-iid", desc)
            zero_d = label.startswith("0d")
            # 0-d arrays: only the designated (last, scale-like) parameter
            objs = [conv(v[0]) if (not zero_d or k == len(ps) - 1 - (1 if fam == "smoothedlaplace" else 0)) else float(v[0]) for k, v in enumerate(ps)]
            got = evaluate(lambda: cls(**dict(zip(names, objs)), geometry=n), xsa)
            compare(f"{cls.__name__}:dtype:" + ("0d-array" if zero_d else label), desc, base_s, got, F32TOL if "float32" in label else 1e-12, ms,
                    model_raises=zero_d and zd.get(fam) == "1", skip=skip)
        # integer evaluation points
        if fam not in ("beta", "uniform"):
            for xl, xo in (("int64-x", xa.astype(np.int64)), ("int-list-x", [int(t) for t in x]), ("strided-x", _strided(xa)), ("readonly-x", _readonly(xa))):
                if fam == "invgamma" and any(float(t) != int(t) for t in x):
                    continue
                desc = {"family": fam, "dim": n, "variant": xl, "params": p, "x": x}
                ctx.case("dtype-iid", desc)
                got = evaluate(lambda: cls(**dict(zip(names, [fobj(v) for v in p])), geometry=n), xo, what=("logpdf", "pdf", "logd"))
                if xl == "int-list-x" and ("ctor" in got or got["logpdf"][0] == "raise"):
                    ctx.note(f"{fam}: a Python list as evaluation point is refused ({got})"); continue
                compare(f"{cls.__name__}:dtype:{xl}", desc, base_v, got, 1e-12, mv)

    # MRFs and Lognormal: scalar parameter variants + integer location / mean
    for fam in ("gmrf", "lmrf", "cmrf", "lognormal"):
        n = 3
        par = float(rng.choice([1, 2, 4])); loc = [float(rng.randint(-2, 2)) for _ in range(n)]
        x = np.array([dy(rng, 0.25, 3) for _ in range(n)])
        mk = {"gmrf": lambda l, s_: D.GMRF(l, s_), "lmrf": lambda l, s_: D.LMRF(l, s_), "cmrf": lambda l, s_: D.CMRF(l, s_),
              "lognormal": lambda l, s_: D.Lognormal(l, s_)}[fam]
        base = evaluate(lambda: mk(np.array(loc), par), x, what=("logpdf", "pdf", "logd"))
        for label, conv in SCALAR_VARIANTS:
            zero_d = label.startswith("0d")
            desc = {"family": fam, "dim": n, "variant": label, "param": par, "location": loc}
            ctx.case("dtype-mrf", desc)
            got = evaluate(lambda: mk(np.array(loc), conv(par)), x, what=("logpdf", "pdf", "logd"))
            compare(f"{fam}:dtype:" + ("0d-array" if zero_d else label), desc, base, got, F32TOL if "float32" in label else 1e-12,
                    model_raises=zero_d and zd.get(fam) == "1")
        for label, conv in VECTOR_VARIANTS:
            desc = {"family": fam, "dim": n, "variant": "location-" + label, "param": par, "location": loc}
            ctx.case("dtype-mrf", desc)
            got = evaluate(lambda: mk(conv(loc), par), x, what=("logpdf", "pdf", "logd"))
            compare(f"{fam}:dtype:location-{label}", desc, base, got, F32TOL if "float32" in label else 1e-12)
        if fam == "lognormal":
            for label, conv in VECTOR_VARIANTS + [("int64-matrix", lambda v: np.diag(v).astype(np.int64) + np.eye(len(v), k=1, dtype=np.int64) + np.eye(len(v), k=-1, dtype=np.int64))]:
                cv = [float(rng.randint(2, 4)) for _ in range(n)]
                ref = conv(cv)
                fl = np.array(ref, dtype=float)
                desc = {"family": fam, "dim": n, "variant": "cov-" + label, "cov": fl.tolist()}
                ctx.case("dtype-mrf", desc)
                b2 = evaluate(lambda: D.Lognormal(np.array(loc), fl), x, what=("logpdf", "pdf", "logd"))
                got = evaluate(lambda: D.Lognormal(np.array(loc), ref), x, what=("logpdf", "pdf", "logd"))
                compare(f"lognormal:dtype:cov-{label}", desc, b2, got, F32TOL if "float32" in label else 1e-12)

    # ---------------------------------------------------------------- Gaussian forms, both sides of the sparse threshold
    forms = ["cov", "prec", "sqrtcov", "sqrtprec"]
    gjobs, glines = [], []
    for form in forms:
        for n in ((2, 3, 76, 80) if S > 1 else (2, 3, 76)):
            sc = float(rng.choice([1, 2, 4]))
            vecv = [float(rng.randint(1, 4)) for _ in range(n)]
            tri = band(n, 3.0, 1.0)
            objs = []
            for label, conv in SCALAR_VARIANTS:
                objs.append(("scalar", label, conv(sc), [[sc]], "scalar"))
            for label, conv in VECTOR_VARIANTS:
                objs.append(("vector", label, conv(vecv), [vecv], "vector"))
            objs.append(("diag", "int64-matrix", np.diag(vecv).astype(np.int64), np.diag(vecv).tolist(), "dense"))
            objs.append(("dense", "int64-matrix", tri.astype(np.int64), tri.tolist(), "dense"))
            objs.append(("dense", "int32-matrix", tri.astype(np.int32), tri.tolist(), "dense"))
            objs.append(("dense", "float32-matrix", tri.astype(np.float32), tri.tolist(), "dense"))
            objs.append(("dense", "fortran-order-matrix", np.asfortranarray(tri), tri.tolist(), "dense"))
            objs.append(("dense", "strided-matrix", _strided(tri), tri.tolist(), "dense"))
            objs.append(("dense", "readonly-matrix", _readonly(tri), tri.tolist(), "dense"))
            objs.append(("sparse-diag", "int64-csr", spa.csr_matrix(np.diag(vecv).astype(np.int64)), np.diag(vecv).tolist(), "sparse"))
            objs.append(("sparse-diag", "int64-dia", spa.diags(np.array(vecv).astype(np.int64)), np.diag(vecv).tolist(), "sparse"))
            if n < 10:
                objs.append(("sparse-full", "int64-csr", spa.csr_matrix(tri.astype(np.int64)), tri.tolist(), "sparse"))
            mu = [float(rng.randint(-2, 2)) for _ in range(n)]
            x = [float(rng.randint(-3, 3)) / 2 for _ in range(n)]
            seen = {}
            for (kind, label, obj, Mv, mkind) in objs:
                lk = (mkind, str(Mv)[:40], len(Mv))
                if kind not in seen:
                    glines.append(f"gauss {form} {mkind} {n} {qv(x)} {qv(mu)} {qm(Mv)}"); seen[kind] = len(glines) - 1
                gjobs.append((form, n, kind, label, obj, Mv, mkind, mu, x, seen[kind]))
    gouts = ctx.lean.drive(glines)
    base_cache = {}
    for (form, n, kind, label, obj, Mv, mkind, mu, x, li) in gjobs:
        out = gouts[li]; t = out.split()
        xa, mua = np.array(x), np.array(mu)
        desc = {"form": form, "dim": n, "kind": kind, "variant": label, "M": Mv if n < 10 else "(banded / long)"}
        ctx.case("dtype-gauss", desc)
        zero_d = label.startswith("0d")
        A = np.array(Mv, dtype=float)
        fobj = float(A[0, 0]) if mkind == "scalar" else (A[0].copy() if mkind == "vector" else (A.copy() if mkind == "dense" else spa.csr_matrix(A)))
        ck = (form, n, kind)
        if ck not in base_cache:
            base_cache[ck] = evaluate(lambda: D.Gaussian(mua.copy(), **{form: fobj}, geometry=n), xa, what=("logpdf", "pdf", "logd", "_logupdf"))
        base = base_cache[ck]
        got = evaluate(lambda: D.Gaussian(mua.copy(), **{form: obj}, geometry=n), xa, what=("logpdf", "pdf", "logd", "_logupdf"))
        key = f"Gaussian:{form}:dtype:{kind}:" + ("0d-array" if zero_d else label) + (":dim>75" if n > 75 else "")
        if t[0] == "nologdet":
            # full sparse matrix: only the un-normalised density is offered
            mism, fail = [], None
            lu, bl = got.get("_logupdf"), base.get("_logupdf")
            if lu is None or lu[0] != "value" or not relclose(-0.5 * dec(t[1]), lu[1], 1e-8):
                mism.append(f"logupdf {lu} vs model {-0.5 * dec(t[1])}")
                fail = (bl, lu, "un-normalised log-density differs from the float64 version of the same numbers")
            verdict(ctx, key, desc, not mism, out[:60], mism, fail, "dtype: " + "; ".join(mism))
            continue
        mvl = dec(t[4]) if t[0] == "ok" else None
        compare(key, desc, base, got, F32TOL if "float32" in label else 1e-10, mvl, model_raises=zero_d and zd.get("gaussian") == "1", skip=("_logupdf",))
    # integer mean / integer evaluation point
    for form in forms:
        for n in (3, 76):
            vecv = np.array([float(rng.randint(1, 4)) for _ in range(n)])
            mu = np.array([float(rng.randint(-2, 2)) for _ in range(n)]); x = np.array([float(rng.randint(-3, 3)) for _ in range(n)])
            base = evaluate(lambda: D.Gaussian(mu.copy(), **{form: vecv.copy()}), x, what=("logpdf", "pdf", "logd"))
            for label, mobj, xobj in (("int64-mean", mu.astype(np.int64), x), ("int-list-mean", [int(v) for v in mu], x), ("int64-x", mu.copy(), x.astype(np.int64)),
                                      ("pyint-mean", int(mu[0]), x)):
                b = base if label != "pyint-mean" else evaluate(lambda: D.Gaussian(float(mu[0]), **{form: vecv.copy()}), x, what=("logpdf", "pdf", "logd"))
                desc = {"form": form, "dim": n, "variant": label}
                ctx.case("dtype-gauss", desc)
                got = evaluate(lambda: D.Gaussian(mobj, **{form: vecv.copy()}), xobj, what=("logpdf", "pdf", "logd"))
                compare(f"Gaussian:{form}:dtype:{label}", desc, b, got, 1e-12)
    # ---- narrow dtypes: uint8 / int8 (arithmetic wraps), float16, bool (logical); numpy evaluates log / sqrt of 8-bit
    # integers in float16, hence the stated relative tolerance 2e-3 for these variants
    NTOL = 5e-3      # float16 arithmetic inside numpy (eps 1e-3); observed deviation up to 4e-4 relative
    for form in forms:
        for n in (3, 76):
            vals = np.array([float(rng.randint(1, 4)) for _ in range(n)])
            mu = np.array([float(rng.randint(-2, 2)) for _ in range(n)]); x = mu + np.array([dy(rng, -2, 2) for _ in range(n)])
            base = evaluate(lambda: D.Gaussian(mu.copy(), **{form: vals.copy()}), x, what=("logpdf", "pdf", "logd"))
            for label, dt in (("uint8-array", np.uint8), ("int8-array", np.int8), ("float16-array", np.float16)):
                desc = {"form": form, "dim": n, "variant": label, "values": vals.tolist() if n < 10 else "(long, entries 1..4)"}
                ctx.case("dtype-narrow", desc)
                got = evaluate(lambda: D.Gaussian(mu.copy(), **{form: vals.astype(dt)}), x, what=("logpdf", "logd"))
                compare(f"Gaussian:{form}:dtype:vector:{label}" + (":dim>75" if n > 75 else ""), desc, base, got, NTOL)
            ones = np.ones(n)
            b1 = evaluate(lambda: D.Gaussian(mu.copy(), **{form: ones.copy()}), x, what=("logpdf", "logd"))
            desc = {"form": form, "dim": n, "variant": "bool-array (all True)"}
            ctx.case("dtype-narrow", desc)
            gb = evaluate(lambda: D.Gaussian(mu.copy(), **{form: ones.astype(bool)}), x, what=("logpdf", "logd"))
            if "ctor" in gb or gb["logpdf"][0] == "raise":
                ctx.note(f"bool {form} vector dim {n}: refused ({gb})")                # a refusal, not a wrong value
            else:
                compare(f"Gaussian:{form}:dtype:vector:bool-array" + (":dim>75" if n > 75 else ""), desc, b1, gb, NTOL)
        # squares beyond the range of the 8-bit type: [2, 16] (16**2 = 256 wraps to 0) — oracle only, a recorded finding
        if form in ("sqrtcov", "sqrtprec"):
            for label, dt in (("uint8", np.uint8), ("int8", np.int8)):
                v = np.array([2.0, 16.0]); xx = np.array([0.5, 1.0])
                with quiet():
                    ref = fnum(D.Gaussian(np.zeros(2), **{form: v.copy()}).logpdf(xx))
                st, got = call(lambda: D.Gaussian(np.zeros(2), **{form: v.astype(dt)}).logpdf(xx))
                desc = {"form": form, "variant": label, "values": [2, 16]}
                ctx.case("dtype-narrow", desc)
                if st != "value" or not relclose(ref, got, NTOL):
                    ctx.fail(f"Gaussian:{form}:dtype:narrow-int-wrap:{label}", desc, ref, [st, got],
                             "8-bit integer standard deviations are squared in their own dtype (16**2 wraps to 0)")
    for fam, mk in (("normal", lambda a: D.Normal(np.zeros(3), a)), ("gamma", lambda a: D.Gamma(a, a)), ("beta", lambda a: D.Beta(a, a)),
                    ("cauchy", lambda a: D.Cauchy(np.zeros(3), a)), ("invgamma", lambda a: D.InverseGamma(a, np.zeros(3), a))):
        vals = np.array([float(rng.randint(1, 4)) for _ in range(3)]); x = np.array([0.25, 0.5, 0.75])
        base = evaluate(lambda: mk(vals.copy()), x)
        for label, dt in (("uint8-array", np.uint8), ("int8-array", np.int8), ("float16-array", np.float16)):
            desc = {"family": fam, "variant": label, "values": vals.tolist()}
            ctx.case("dtype-narrow", desc)
            compare(f"{fam}:dtype:{label}", desc, base, evaluate(lambda: mk(vals.astype(dt)), x), NTOL, skip=("cdf",) if fam == "cauchy" else ())

    # one covariance, four parameterisations, mixed dtypes: cov / sqrtcov integer, prec / sqrtprec float32 (powers of two: exact)
    for n in (3, 76):
        for rep in range(2 * S):
            std = np.array([float(rng.choice([1, 2, 4, 8])) for _ in range(n)])
            mu = np.array([float(rng.randint(-2, 2)) for _ in range(n)]); x = mu + std * np.array([dy(rng, -2, 2) for _ in range(n)])
            ref = float(sps.multivariate_normal(mu, np.diag(std ** 2)).logpdf(x))
            specs = {"cov:int64": ("cov", (std ** 2).astype(np.int64)), "sqrtcov:int64": ("sqrtcov", std.astype(np.int64)),
                     "sqrtcov:int-list": ("sqrtcov", [int(v) for v in std]), "sqrtcov:int32": ("sqrtcov", std.astype(np.int32)),
                     "prec:float32": ("prec", (1 / std ** 2).astype(np.float32)), "sqrtprec:float32": ("sqrtprec", (1 / std).astype(np.float32)),
                     "cov:int64-matrix": ("cov", np.diag(std ** 2).astype(np.int64)), "sqrtcov:int64-sparse": ("sqrtcov", spa.diags(std.astype(np.int64)))}
            for lab, (form, obj) in specs.items():
                desc = {"dim": n, "spec": lab, "std": std.tolist() if n < 10 else "(long)"}
                ctx.case("dtype-gauss-forms", desc)
                st, v = call(lambda: D.Gaussian(mu.copy(), **{form: obj}).logpdf(x))
                if st != "value" or not relclose(ref, v, F32TOL if "float32" in lab else 1e-8):
                    ctx.fail(f"Gaussian:{form}:dtype:forms-agree:{lab.split(':')[1]}", desc, ref, [st, v],
                             "the same covariance given with an integer / float32 parameter has a different log-density")


def quadrature_section(ctx, D, G, rng, S):
    from scipy import integrate
    one_d = [
        ("Normal", lambda: D.Normal(dy(rng, -2, 2), dy(rng, 0.5, 2)), -np.inf, np.inf),
        ("Laplace", lambda: D.Laplace(dy(rng, -2, 2), dy(rng, 0.5, 2)), -np.inf, np.inf),
        ("Cauchy", lambda: D.Cauchy(dy(rng, -2, 2), dy(rng, 0.5, 2)), -np.inf, np.inf),
        ("Gamma", lambda: D.Gamma(dy(rng, 1, 4), dy(rng, 0.5, 3)), 0, np.inf),
        ("InverseGamma", lambda: D.InverseGamma(dy(rng, 1, 4), dy(rng, -1, 1), dy(rng, 0.5, 3)), None, np.inf),
        ("Beta", lambda: D.Beta(dy(rng, 1, 4), dy(rng, 1, 4)), 0, 1),
        ("Lognormal", lambda: D.Lognormal(dy(rng, -1, 1), dy(rng, 0.25, 1)), 0, np.inf),
        ("Uniform", lambda: D.Uniform(dy(rng, -2, 0), dy(rng, 0.5, 3)), None, None),
        ("Gaussian", lambda: D.Gaussian(dy(rng, -2, 2), **{rng.choice(["cov", "prec"]): dy(rng, 0.5, 2)}), -np.inf, np.inf),
        ("Gaussian", lambda: D.Gaussian(dy(rng, -2, 2), **{rng.choice(["sqrtcov", "sqrtprec"]): rng.choice([-1, 1]) * dy(rng, 0.5, 2)}), -np.inf, np.inf),
    ]
    for name, mk, a, b in one_d:
        for _ in range(1 * S):
            with quiet():
                d = mk()
            if name == "InverseGamma":
                a_ = float(np.asarray(d.location).ravel()[0])
            elif name == "Uniform":
                a_, b = float(d.low), float(d.high)
            else:
                a_ = a
            f = lambda t: float(np.exp(fnum(d.logpdf(np.array([t])))))
            pts = None
            with quiet():
                if np.isinf(a_) or np.isinf(b):
                    # split the line at the bulk for robustness
                    mid = 0.0 if name != "InverseGamma" else a_ + 1.0
                    lo = integrate.quad(f, a_, mid, limit=200)[0] if a_ < mid else 0.0
                    hi = integrate.quad(f, max(a_, mid), b, limit=200)[0]
                    total = lo + hi
                else:
                    total = integrate.quad(f, a_, b, limit=200)[0]
            ctx.case("quadrature-1d", {"family": name})
            if not close(total, 1.0, QTOL):
                ctx.fail(f"{name}:normalisation:dim1", {"family": name, "params": repr(getattr(d, '__dict__', {}))[:200]}, 1.0, total,
                         "exp(logpdf) does not integrate to one over the support")
            # cdf, where offered, is the integral of the density
            if hasattr(d, "cdf") and name in ("Normal", "Cauchy", "Gamma", "InverseGamma", "Beta", "Gaussian"):
                xq = (a_ if np.isfinite(a_) else -1.0) + dy(rng, 0.25, 2) if name != "Beta" else dy(rng, 0.125, 0.875, 8)
                with quiet():
                    try:
                        c = fnum(d.cdf(np.array([xq])))
                    except Exception as e:  # noqa
                        ctx.note(f"{name}.cdf raised {type(e).__name__}"); continue
                    if np.isinf(a_):
                        integ = integrate.quad(f, -np.inf, min(xq, 0.0), limit=200)[0] + (integrate.quad(f, 0.0, xq, limit=200)[0] if xq > 0 else 0.0)
                    else:
                        integ = integrate.quad(f, a_, xq, limit=200)[0]
                ctx.case("cdf-quadrature-1d", {"family": name, "x": xq})
                if not close(c, integ, QTOL):
                    ctx.fail(f"{name}:cdf:integral:dim1", {"family": name, "x": xq}, integ, c, "cdf is not the integral of the density")
    # 2-D boxes
    two_d = [
        ("Uniform:scalar-bounds", lambda: D.Uniform(-1.0, 2.0, geometry=2), (-1, 2)),
        ("Uniform:len1-array-bounds", lambda: D.Uniform(np.array([-1.0]), np.array([2.0]), geometry=2), (-1, 2)),
        ("Normal:scalar", lambda: D.Normal(0.5, 0.5, geometry=2), (-5.5, 6.5)),
        ("Laplace:scalar", lambda: D.Laplace(0.0, 0.25, geometry=2), (-9, 9)),
        ("SmoothedLaplace:vector-scale", None, None),
        ("Gaussian:sqrtcov-nonsym", lambda: D.Gaussian(np.zeros(2), sqrtcov=np.array([[0.5, 0.25], [0.0, 0.5]])), (-6, 6)),
        ("Gaussian:scalar-cov", lambda: D.Gaussian(0.0, cov=0.25, geometry=G.Image2D((1, 2))), (-6, 6)),
    ]
    for name, mk, box in two_d:
        if mk is None:
            continue
        with quiet():
            d = mk()
            f = lambda y, x_: float(np.exp(fnum(d.logpdf(np.array([x_, y])))))
            opts = {"limit": 60, "epsabs": 1e-9, "epsrel": 1e-9}
            if name.startswith("Laplace"):
                opts["points"] = [0.0]
            total = integrate.nquad(lambda x_, y: f(y, x_), [box, box], opts=[opts, opts])[0]
        ctx.case("quadrature-2d", {"family": name})
        key = f"{name}:normalisation:dim2"
        if not close(total, 1.0, 1e-5):
            ctx.fail(key, {"family": name}, 1.0, total, "exp(logpdf) does not integrate to one over the support (dimension 2)")
