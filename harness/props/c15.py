"""C15 — MAP/ML estimates are true maximisers; direct Gaussian sampling has exact moments.

Implementation side: the real `cuqi.problem.BayesianProblem` (`MAP`, `ML`, `sample_posterior`,
`_sampleMapCholesky`, `_solve_max_point`) on generated problems.  Model side: `lean/Driver/C15.lean`
(exact rationals; numpy's `@`/broadcast semantics transcribed, `linalg.solve` certified).

Tie (model vs implementation):
  getmatrix   `model.get_matrix()` vs the model's `getMatrix` (stored matrix / F·A·E)
  map         `MAP()` value or exception class vs `mapDirect`
  centre/draw `sample_posterior` with a scripted `np.random.randn`: sample for xi=0 vs `sampleCentre`,
              L·Lᵀ (columns read off with xi=e_k) vs the covariance the code's formula yields,
              samples for random dyadic xi vs `draw xmap L xi`
  route       which private sampler / which solver class is used vs `sampleRoute` / `mapRoute` / `mlRoute`
  maxpoint    `func`/`gradfunc` handed to the solver vs `-logd` / `-gradient`; result passthrough
Oracle (implementation only, every case):
  the returned point equals the exact posterior mean (reference: `ref` op on the parameter-to-parameter
  matrix and the *documented* precisions, certified in Q), `posterior.logd` there is not smaller than at the
  reference nor at neighbours, the gradient vanishes (where defined); direct draws have offset = posterior mean
  and L·Lᵀ = posterior covariance; optimisation route: local maximality + stationarity (+ closed form where one exists).
Keys:  MAP:direct:<mb|fn>:<geom>:lik=<spec>:prior=<spec>[:<mean>]     sample:direct:<...same...>
       MAP:opt:<problem class>   ML:opt:<problem class>   route:<...>   maxpoint:<...>
"""
import math
import numpy as np
from fractions import Fraction
from harness.core import import_cuqi, quiet, q, qv, qm, pv, pm, close, vclose, mclose

TOL = 1e-8


# ----------------------------------------------------------------------------------------------- exact helpers
def F(x):
    return Fraction(float(x))


def fmat(M):
    return [[F(v) for v in r] for r in np.asarray(M, dtype=float)]


def finv(M):
    """exact inverse of a list-of-lists Fraction matrix (Gauss-Jordan); None if singular"""
    n = len(M)
    a = [list(r) + [Fraction(int(i == j)) for j in range(n)] for i, r in enumerate(M)]
    for c in range(n):
        p = next((i for i in range(c, n) if a[i][c] != 0), None)
        if p is None:
            return None
        a[c], a[p] = a[p], a[c]
        pv_ = a[c][c]
        a[c] = [v / pv_ for v in a[c]]
        for i in range(n):
            if i != c and a[i][c] != 0:
                f = a[i][c]
                a[i] = [x - f * y for x, y in zip(a[i], a[c])]
    return [r[n:] for r in a]


def fmul(A, B):
    Bt = list(zip(*B))
    return [[sum(x * y for x, y in zip(r, c)) for c in Bt] for r in A]


def ftr(A):
    return [list(r) for r in zip(*A)]


def fdiag(v):
    n = len(v)
    return [[v[i] if i == j else Fraction(0) for j in range(n)] for i in range(n)]


def sq(s):
    return str(s.numerator) if s.denominator == 1 else f"{s.numerator}/{s.denominator}"


def sv(v):
    return ",".join(sq(x) for x in v)


def sm(M):
    return ";".join(sv(r) for r in M)


def dense(M):
    if hasattr(M, "todense"):
        return np.asarray(M.todense(), dtype=float)
    return np.asarray(M, dtype=float)


MARGINS = {}   # name -> [max (deviation / tolerance) over the comparisons that PASSED, number of comparisons]


def margin(name, ratio):
    """record how close a passing float comparison came to its tolerance (1.0 = at the tolerance)"""
    try:
        r = float(ratio)
    except Exception:
        return
    m = MARGINS.setdefault(name, [0.0, 0])
    m[1] += 1
    if r == r and r <= 1.0:
        m[0] = max(m[0], r)


def ratio_close(a, b, tol):
    """max_i |a_i - b_i| / (tol * (1 + max(|a_i|, |b_i|))): the quantity `close`/`vclose` compare with 1"""
    a = np.atleast_1d(np.asarray(a, dtype=float)).ravel(); b = np.atleast_1d(np.asarray(b, dtype=float)).ravel()
    if a.shape != b.shape or a.size == 0:
        return float("inf") if a.shape != b.shape else 0.0
    return float(np.max(np.abs(a - b) / (tol * (1.0 + np.maximum(np.abs(a), np.abs(b))))))


COVREL = {"max_rel": 0.0, "max_white": 0.0, "white_checked": 0, "white_skipped_cond": 0}


def cov_mismatch(C, R, tol_rel=1e-6, tol_white=1e-5):
    """the covariance C = L L^T read off the draws vs the exact posterior covariance R, judged RELATIVELY to the scale of R
    (posterior variances of 1e-12 are as legitimate as O(1) ones): (a) max|C-R| <= tol_rel*max|R|; (b) when R is
    well-conditioned, in the metric of R itself: R^-1/2 C R^-1/2 = I up to tol_white (so that directions of small posterior
    variance are judged on their own scale).  Returns None or a description of the mismatch."""
    C = np.asarray(C, dtype=float); R = np.asarray(R, dtype=float)
    if C.shape != R.shape or not np.all(np.isfinite(C)):
        return "shape / non-finite"
    sc = float(np.abs(R).max(initial=0.0))
    rel = float(np.abs(C - R).max(initial=0.0)) / sc if sc > 0 else float(np.abs(C).max(initial=0.0))
    COVREL["max_rel"] = max(COVREL["max_rel"], rel)
    if rel > tol_rel:
        return f"max|LL^T - C_post| / max|C_post| = {rel:.3e}"
    try:
        w, V = np.linalg.eigh(0.5 * (R + R.T))
        if w.min() > 0 and w.max() / w.min() < 1e6:
            Wh = (V / np.sqrt(w)) @ V.T
            dev = float(np.abs(Wh @ C @ Wh - np.eye(len(w))).max())
            COVREL["max_white"] = max(COVREL["max_white"], dev); COVREL["white_checked"] += 1
            if dev > tol_white:
                return f"max|C_post^-1/2 LL^T C_post^-1/2 - I| = {dev:.3e}"
        else:
            COVREL["white_skipped_cond"] += 1
    except np.linalg.LinAlgError:
        pass
    return None


def parse_arr(s):
    """driver array -> ('s', float) | ('v', ndarray) | ('m', ndarray) | ('err', class)"""
    if s.startswith("err:"):
        return ("err", s[4:])
    if s.startswith("s:"):
        return ("s", float(Fraction(s[2:])))
    if s.startswith("v:"):
        return ("v", np.array([float(x) for x in pv(s[2:])]))
    if s.startswith("m:"):
        return ("m", np.array([[float(x) for x in r] for r in pm(s[2:])]))
    raise ValueError("driver output: " + s[:80])


# ----------------------------------------------------------------------------------------------- Gaussian specifications
class Spec:
    """how a Gaussian of dimension d is specified: (param, shape, value) ; doc_cov/doc_prec are exact"""
    def __init__(self, param, shape, value, d):
        self.param, self.shape, self.value, self.d = param, shape, value, d
        if shape == "scalar":
            base = fdiag([F(value)] * d)
        elif shape == "vector":
            base = fdiag([F(v) for v in value])
        else:
            base = fmat(value)
        if param == "cov":
            self.cov = base; self.prec = finv(base)
        elif param == "prec":
            self.prec = base; self.cov = finv(base)
        elif param == "sqrtcov":       # documented: R^T R = cov (generator: symmetric R only)
            self.cov = fmul(ftr(base), base); self.prec = finv(self.cov)
        else:                          # sqrtprec: R^T R = prec
            self.prec = fmul(ftr(base), base); self.cov = finv(self.prec)

    @property
    def label(self):
        return f"{self.param}-{self.shape}"

    def kwargs(self):
        v = self.value
        return {self.param: (float(v) if self.shape == "scalar" else np.array(v, dtype=float))}

    def cov_attr(self, computed):
        """driver token of what the `cov` getter returns"""
        if self.param == "cov":
            if self.shape == "scalar":
                return "m:" + sq(F(self.value))          # force_ndarray(scalar) -> array([[c]])
            if self.shape == "vector":
                return "v:" + sv([F(x) for x in self.value])
            return "m:" + sm(fmat(self.value))
        if computed:                                      # compute_cov(): full matrix
            return "m:" + sm(self.cov)
        return "none"


def gen_spec(rs, d, param=None, shape=None):
    param = param or ["cov", "cov", "cov", "prec", "sqrtcov", "sqrtprec"][rs.randint(0, 6)]
    shape = shape or ["scalar", "vector", "matrix"][rs.randint(0, 3)]
    if shape == "scalar":
        val = float(rs.choice([0.25, 0.5, 1.0, 2.0, 4.0]))
    elif shape == "vector":
        val = [float(x) for x in rs.choice([0.5, 1.0, 2.0, 4.0], size=d)]
        if d > 1 and len(set(val)) == 1:
            val[0] = 0.25 if val[0] != 0.25 else 8.0
    else:
        if param in ("cov", "prec"):
            B = rs.randint(-1, 2, size=(d, d)).astype(float)
            val = (B @ B.T + float(rs.choice([1.0, 2.0])) * np.eye(d)) / float(rs.choice([1.0, 2.0]))
        elif param == "sqrtcov":      # symmetric, diagonally dominant (R^T R = R R^T)
            B = rs.randint(-1, 2, size=(d, d)).astype(float)
            val = (B + B.T) / 4.0 + (d / 2.0 + 1.0) * np.eye(d)
        else:                         # sqrtprec: upper triangular, positive diagonal
            val = np.triu(rs.randint(-1, 2, size=(d, d)).astype(float), 1) / 2.0 + np.diag(rs.choice([0.5, 1.0, 2.0], size=d))
        val = val.tolist()
    return Spec(param, shape, val, d)


# ----------------------------------------------------------------------------------------------- geometries
def gen_geom(cuqi, rs, nfun, kind):
    """returns (label, geometry object or None, npar, E exact?)"""
    from cuqi.geometry import Continuous1D, Discrete, KLExpansion, StepExpansion, MappedGeometry
    if kind == "default":
        return "default", None
    if kind == "Continuous1D":
        return "Continuous1D", Continuous1D(nfun)
    if kind == "Discrete":
        return "Discrete", Discrete(nfun)
    if kind == "KL-full":
        return "KL-full", KLExpansion(np.linspace(0, 1, nfun), decay_rate=float(rs.choice([1.0, 1.5, 2.5])), normalizer=float(rs.choice([1.0, 12.0])))
    if kind == "KL-trunc":
        return "KL-trunc", KLExpansion(np.linspace(0, 1, nfun), num_modes=int(rs.randint(2, nfun)))
    if kind == "Step-full":
        return "Step-full", StepExpansion(np.linspace(0, 1, nfun), n_steps=nfun)
    if kind == "Step-trunc":
        return "Step-trunc", StepExpansion(np.linspace(0, 1, nfun), n_steps=int(rs.randint(2, nfun)))
    if kind == "scaled":
        c = float(rs.choice([0.5, 2.0, 4.0]))
        return "scaled", MappedGeometry(Continuous1D(nfun), map=lambda x, c=c: c * x, imap=lambda x, c=c: x / c)
    raise ValueError(kind)


IDENTITY_GEOMS = ("default", "Continuous1D", "Discrete")


def par2fun_matrix(g, nfun):
    """E (nfun x npar) measured on the geometry (leaf data; the geometries are C13's subject)"""
    if g is None:
        return np.eye(nfun)
    npar = g.par_dim
    cols = []
    for j in range(npar):
        e = np.zeros(npar); e[j] = 1.0
        cols.append(np.asarray(g.par2fun(e), dtype=float).ravel())
    return np.column_stack(cols)


# ----------------------------------------------------------------------------------------------- one linear-Gaussian case
class LGCase:
    pass


def gen_lg_case(cuqi, rs, thorough, forced=None):
    c = LGCase()
    forced = forced or {}
    maxd = 8 if thorough else 6
    c.m = int(forced.get("m", rs.randint(1, maxd + 1)))
    c.nfun = int(forced.get("n", rs.randint(1, maxd + 1)))
    c.backing = forced.get("backing", "mb" if rs.rand() < 0.6 else "fn")
    kinds = ["default", "default", "Continuous1D", "Discrete", "KL-full", "KL-trunc", "Step-full", "Step-trunc", "scaled"]
    kind = forced.get("geom", kinds[rs.randint(0, len(kinds))])
    if c.nfun < 3 and kind in ("KL-trunc", "Step-trunc"):
        kind = "KL-full" if kind == "KL-trunc" else "Step-full"
    if c.nfun < 2 and kind in ("KL-full", "Step-full"):
        kind = "Continuous1D"
    if c.backing == "fn" and kind == "default":
        kind = "Continuous1D"
    c.geom_label, c.geom = gen_geom(cuqi, rs, c.nfun, kind)
    c.npar = c.nfun if c.geom is None else int(c.geom.par_dim)
    if "A" in forced:
        c.A = np.array(forced["A"], dtype=float)
    else:
        c.A = rs.randint(-3, 4, size=(c.m, c.nfun)).astype(float)
        if rs.rand() < 0.2:
            c.A = c.A / 2.0
    c.E = par2fun_matrix(c.geom, c.nfun)
    pshape = forced.get("prior_shape"); lshape = forced.get("lik_shape")
    # bias towards the `cov` parameterisation (the only one MAP reads) but keep all four
    c.prior = gen_spec(rs, c.npar, forced.get("prior_param"), pshape)
    c.lik = gen_spec(rs, c.m, forced.get("lik_param"), lshape)
    c.scale = forced.get("scale")
    if c.scale is not None:   # G4: both covariances scaled by the same factor (the estimate is invariant)
        def rescale(sp):
            f = {"cov": c.scale, "prec": 1.0 / c.scale, "sqrtcov": math.sqrt(c.scale), "sqrtprec": 1.0 / math.sqrt(c.scale)}[sp.param]
            val = float(sp.value) * f if sp.shape == "scalar" else (np.array(sp.value, dtype=float) * f).tolist()
            return Spec(sp.param, sp.shape, val, sp.d)
        if forced.get("neardiag"):
            for sp in (c.prior, c.lik):
                if sp.shape == "matrix" and sp.param in ("cov", "prec"):
                    V = np.array(sp.value); D = np.diag(np.diag(V))
                    sp.value = (D + 1e-9 * (V - D)).tolist()
            c.prior = Spec(c.prior.param, c.prior.shape, c.prior.value, c.prior.d); c.lik = Spec(c.lik.param, c.lik.shape, c.lik.value, c.lik.d)
        c.prior = rescale(c.prior); c.lik = rescale(c.lik)
    c.opscale = forced.get("opscale")
    if c.opscale is not None:   # G4: operator, data and noise std live on the scale `opscale`; the unknown stays O(1)
        c.A = c.A * c.opscale
        c.E = par2fun_matrix(c.geom, c.nfun)
        f2 = c.opscale ** 2
        fl = {"cov": f2, "prec": 1.0 / f2, "sqrtcov": abs(c.opscale), "sqrtprec": 1.0 / abs(c.opscale)}[c.lik.param]
        c.lik = Spec(c.lik.param, c.lik.shape, float(c.lik.value) * fl if c.lik.shape == "scalar" else (np.array(c.lik.value, dtype=float) * fl).tolist(), c.lik.d)
    # small units on ONE side only: accurate data (noise variance * lik_scale) or a tight prior (prior variance * prior_scale);
    # the posterior covariance is then of that absolute size (1e-8 .. 1e-14) although operator and unknown are O(1)
    c.lik_scale = forced.get("lik_scale"); c.prior_scale = forced.get("prior_scale")
    for attr, f1 in (("lik", c.lik_scale), ("prior", c.prior_scale)):
        if f1 is not None:
            sp = getattr(c, attr)
            f = {"cov": f1, "prec": 1.0 / f1, "sqrtcov": math.sqrt(f1), "sqrtprec": 1.0 / math.sqrt(f1)}[sp.param]
            val = float(sp.value) * f if sp.shape == "scalar" else (np.array(sp.value, dtype=float) * f).tolist()
            setattr(c, attr, Spec(sp.param, sp.shape, val, sp.d))
    c.compute_cov = bool(forced.get("compute_cov", rs.rand() < 0.7))
    mk = forced.get("mean", ["vector"] * 7 + ["zeros", "scalar0", "scalar"])
    if isinstance(mk, list):
        mk = mk[rs.randint(0, len(mk))]
    c.mean_kind = mk
    if mk == "vector":
        c.mean = rs.randint(-2, 3, size=c.npar).astype(float)
    elif mk == "zeros":
        c.mean = np.zeros(c.npar)
    elif mk == "scalar0":
        c.mean = 0
    else:
        c.mean = 1.5
    if "mean_value" in forced:
        c.mean = np.array(forced["mean_value"], dtype=float)
    c.b = np.array(forced["b"], dtype=float) if "b" in forced else rs.randint(-4, 5, size=c.m).astype(float)
    if c.opscale is not None:
        c.b = c.b * c.opscale
    c.buffered = bool(forced.get("buffered", c.backing == "fn" and rs.rand() < 0.3))
    c.A_dtype = forced.get("A_dtype"); c.b_dtype = forced.get("b_dtype"); c.mean_dtype = forced.get("mean_dtype")
    return c


def lg_desc(c):
    return {"m": c.m, "n_fun": c.nfun, "n_par": c.npar, "backing": c.backing, "geom": c.geom_label,
            "A": c.A.tolist(), "prior": [c.prior.param, c.prior.shape, c.prior.value], "lik": [c.lik.param, c.lik.shape, c.lik.value],
            "scale": getattr(c, "scale", None), "lik_scale": getattr(c, "lik_scale", None), "prior_scale": getattr(c, "prior_scale", None), "opscale": getattr(c, "opscale", None), "buffered_forward": getattr(c, "buffered", False), "dtypes": [getattr(c, "A_dtype", None), getattr(c, "b_dtype", None), getattr(c, "mean_dtype", None)], "compute_cov": c.compute_cov, "mean": (c.mean.tolist() if hasattr(c.mean, "tolist") else c.mean), "b": c.b.tolist()}


def lg_key(c, site="MAP"):
    g = c.geom_label if c.geom_label not in IDENTITY_GEOMS else "identity"
    cc = "+cc" if c.compute_cov else ""
    lk = c.lik.label + (cc if c.lik.param != "cov" else "")
    pr = c.prior.label + (cc if c.prior.param != "cov" else "")
    mean = "" if c.mean_kind in ("vector", "zeros") else ":mean-scalar"
    sc = ("" if getattr(c, "scale", None) is None else ":scaled") + ("" if getattr(c, "opscale", None) is None else ":opscaled") + \
        ("" if getattr(c, "lik_scale", None) is None else ":smallnoise") + ("" if getattr(c, "prior_scale", None) is None else ":tightprior")
    dt = "" if getattr(c, "A_dtype", None) is None else ":A-" + str(c.A_dtype)
    return f"{site}:direct:{c.backing}:{g}:lik={lk}:prior={pr}{mean}{sc}{dt}"


def intify(a):
    """the same numbers with an integer dtype / python ints where all values are integral (G1), else unchanged"""
    arr = np.asarray(a, dtype=float)
    if np.all(arr == np.round(arr)) and np.all(np.abs(arr) < 1e15):   # representable without overflow
        return int(arr) if arr.ndim == 0 else arr.astype(np.int64)
    return a


def build_lg(cuqi, c, as_int=False, layout=False):
    from cuqi.distribution import Gaussian
    from cuqi.model import LinearModel
    from cuqi.problem import BayesianProblem
    from cuqi.geometry import Continuous1D
    A = c.A.copy()
    mean = c.mean.copy() if hasattr(c.mean, "copy") else c.mean
    b = c.b.copy()
    pk, lk = c.prior.kwargs(), c.lik.kwargs()
    # narrow / non-float64 storage types of the SAME numbers (values are generated exactly representable)
    if getattr(c, "A_dtype", None) is not None:
        A = A.astype(c.A_dtype); assert np.array_equal(A.astype(float), c.A)
    if getattr(c, "b_dtype", None) is not None:
        b = b.astype(c.b_dtype); assert np.array_equal(b.astype(float), c.b)
    if getattr(c, "mean_dtype", None) is not None and isinstance(mean, np.ndarray):
        mean = mean.astype(c.mean_dtype)
    if as_int:
        A = intify(A); mean = intify(mean); b = intify(b)
        b = b.tolist() if isinstance(b, np.ndarray) and b.dtype.kind == "i" and len(b) % 2 == 0 else b
        pk = {k: intify(v) for k, v in pk.items()}; lk = {k: intify(v) for k, v in lk.items()}
    if layout:   # G7: the same numbers as Fortran-ordered / transposed / strided / reversed views, read-only
        A = np.asfortranarray(A)
        big = np.zeros(2 * len(b)); big[::2] = b; b = big[::2]
        if isinstance(mean, np.ndarray):
            mean = np.ascontiguousarray(mean[::-1])[::-1]

        def relay(v):
            if isinstance(v, np.ndarray) and v.ndim == 2:
                v = np.ascontiguousarray(v.T).T
            elif isinstance(v, np.ndarray) and v.ndim == 1:
                bb = np.zeros(3 * len(v)); bb[::3] = v; v = bb[::3]
            if isinstance(v, np.ndarray):
                v.setflags(write=False)
            return v
        pk = {k: relay(v) for k, v in pk.items()}; lk = {k: relay(v) for k, v in lk.items()}
        for v in (A, big, b):
            v.setflags(write=False)
        if isinstance(mean, np.ndarray):
            mean.setflags(write=False)
    if c.backing == "mb":
        M = LinearModel(A, domain_geometry=c.geom)
    elif getattr(c, "buffered", False):   # callables that return the same array object on every call
        fbuf, abuf = np.zeros(A.shape[0]), np.zeros(A.shape[1])

        def fwd(x):
            fbuf[...] = A @ x
            return fbuf

        def adj(y):
            abuf[...] = A.T @ y
            return abuf
        M = LinearModel(fwd, adj, range_geometry=Continuous1D(c.m), domain_geometry=c.geom)
    else:
        M = LinearModel(lambda x: A @ x, lambda y: A.T @ y, range_geometry=Continuous1D(c.m), domain_geometry=c.geom)
    x = Gaussian(mean, geometry=(c.geom if c.geom is not None else c.npar), **pk)
    y = Gaussian(M(x), **lk)
    BP = BayesianProblem(y, x).set_data(y=b)
    if c.compute_cov:
        if c.prior.param != "cov":
            BP.prior.compute_cov()
        if c.lik.param != "cov":
            BP.likelihood.distribution.compute_cov()
    # caller-owned arrays (G2): what was handed to the constructors
    c.held = {"A": A, "mean": mean, "b": b, "prior_arg": list(pk.values())[0], "lik_arg": list(lk.values())[0]}
    return BP


def snap(obj):
    """byte snapshot of an array / list / scalar / sparse matrix (None if not snapshotable)"""
    try:
        if hasattr(obj, "todense"):
            obj = np.asarray(obj.todense())
        a = np.asarray(obj)
        return (str(a.dtype), a.shape, a.tobytes())
    except Exception:
        return None


def stored_arrays(BP, held):
    out = {"held:" + k: v for k, v in held.items()}
    for nm, get in (("data", lambda: BP.data), ("prior.mean", lambda: BP.prior.mean), ("prior._cov", lambda: BP.prior._cov),
                    ("prior.sqrtprec", lambda: BP.prior.sqrtprec), ("lik._cov", lambda: BP.likelihood.distribution._cov),
                    ("lik.sqrtprec", lambda: BP.likelihood.distribution.sqrtprec), ("model._matrix", lambda: BP.model._matrix)):
        try:
            v = get()
            if v is not None and not callable(v):
                out[nm] = v
        except Exception:
            pass
    return out


def exc_name(e):
    return type(e).__name__


def neighbours(x, rs, k=6):
    n = len(x)
    out = []
    for h in (1e-2, 1e-4):
        for i in range(min(n, k)):
            e = np.zeros(n); e[i] = h
            out += [x + e, x - e]
        d = rs.randn(n); d /= max(np.linalg.norm(d), 1e-12)
        out.append(x + h * d)
    return out


# ----------------------------------------------------------------------------------------------- run
def run(ctx):
    cuqi = import_cuqi()
    thorough = ctx.tier == "thorough"
    rs = np.random.RandomState(ctx.seed * 7919 + 15)
    ctx.trusted += ["numpy float linear algebra of the implementation compared to the exact model value with rel+abs tolerance 1e-8",
                    "par2fun matrices of KLExpansion/StepExpansion/MappedGeometry are leaf data measured on the implementation (geometries are C13's subject)",
                    "Cholesky factor L of the direct sampler is leaf data (read off with unit xi); checked lower-triangular, positive diagonal, L L^T against the exact covariance",
                    "SciPy optimisers (convergence not modelled; local-maximality oracle only)"]
    ctx.assumptions += ["inputs are small integers / dyadic rationals; well-conditioned SPD covariances",
                        "sqrtcov matrices are generated symmetric (R^T R = R R^T), so the C04 finding on the sqrtcov convention does not interfere",
                        "dense arrays only (sparse covariance inputs are not generated)"]
    RETAINED.clear()
    MARGINS.clear()
    for k_ in COVREL:
        COVREL[k_] = 0 if isinstance(COVREL[k_], int) else 0.0
    import os
    only = os.environ.get("C15_ONLY")     # development aid: run a single part (never set by ./check itself)
    from harness.props.c15_gauss import run_gauss, run_loop, run_calls, run_opt_huge
    parts = [("direct", run_direct), ("routes", run_routes), ("opt", run_opt), ("ml_full", run_ml_full), ("starts", run_starts),
             ("opt_scale", run_opt_scale), ("histories", run_histories), ("threshold", run_threshold)]
    for nm, fn in parts:
        if only is None or nm in only.split(","):
            fn(ctx, cuqi, rs, thorough)
    if only is None or "gauss" in only.split(","):
        run_gauss(ctx, cuqi, np.random.RandomState(ctx.seed * 7919 + 1503), thorough, oracle_point)
    if only is None or "loop" in only.split(","):
        run_loop(ctx, cuqi, np.random.RandomState(ctx.seed * 7919 + 1504), thorough)
    if only is None or "opt_huge" in only.split(","):
        run_opt_huge(ctx, cuqi, np.random.RandomState(ctx.seed * 7919 + 1506), thorough)
    if only is None or "calls" in only.split(","):
        run_calls(ctx, cuqi, np.random.RandomState(ctx.seed * 7919 + 1505), thorough)
    ctx.extra_cov["direct_draw_covariance_relative"] = dict(COVREL)
    margin("oracle+tie:draw-covariance-max-entry:rel=1e-06", COVREL["max_rel"] / 1e-6)
    margin("oracle+tie:draw-covariance-whitened:tol=1e-05", COVREL["max_white"] / 1e-5)
    ctx.extra_cov["tolerance_margins(max passing deviation/tolerance, n)"] = {k: [float(f"{v[0]:.3g}"), v[1]] for k, v in sorted(MARGINS.items())}
    check_retained(ctx)


CORPUS = [
    # DESIGN §5 #23 (repaired by repo commit 0527445; kept so that a regression is caught): 1-D covariance vector of the noise
    dict(m=3, n=2, backing="mb", geom="default", A=[[1, 2], [0, 1], [1, 1]], prior_param="cov", prior_shape="scalar",
         lik_param="cov", lik_shape="vector", mean="vector", mean_value=[1, -1], b=[1, 2, 3]),
    dict(m=3, n=2, backing="mb", geom="default", A=[[1, 2], [0, 1], [1, 1]], prior_param="cov", prior_shape="scalar",
         lik_param="cov", lik_shape="vector", mean="zeros", b=[1, 2, 3]),
    # prior covariance vector (formerly: broadcast for square A, ValueError otherwise)
    dict(m=3, n=3, backing="mb", geom="default", prior_param="cov", prior_shape="vector", lik_param="cov", lik_shape="matrix", mean="vector"),
    dict(m=3, n=2, backing="mb", geom="default", prior_param="cov", prior_shape="vector", lik_param="cov", lik_shape="scalar", mean="vector"),
    dict(m=2, n=2, backing="mb", geom="default", prior_param="cov", prior_shape="vector", lik_param="cov", lik_shape="vector", mean="vector"),
    # stored matrix returned by get_matrix although the domain geometry is an expansion
    dict(m=3, n=4, backing="mb", geom="KL-full", prior_param="cov", prior_shape="scalar", lik_param="cov", lik_shape="scalar", mean="vector"),
    dict(m=3, n=4, backing="fn", geom="KL-full", prior_param="cov", prior_shape="scalar", lik_param="cov", lik_shape="scalar", mean="vector"),
    dict(m=4, n=4, backing="mb", geom="scaled", prior_param="cov", prior_shape="matrix", lik_param="cov", lik_shape="matrix", mean="vector"),
    dict(m=3, n=4, backing="mb", geom="Step-trunc", prior_param="cov", prior_shape="scalar", lik_param="cov", lik_shape="scalar", mean="vector"),
    dict(m=3, n=4, backing="fn", geom="Step-trunc", prior_param="cov", prior_shape="matrix", lik_param="cov", lik_shape="scalar", mean="vector"),
    # non-cov parameterisations: refused unless compute_cov() was called
    dict(m=3, n=2, backing="mb", geom="default", prior_param="prec", prior_shape="matrix", lik_param="sqrtprec", lik_shape="scalar", compute_cov=False, mean="vector"),
    dict(m=3, n=2, backing="mb", geom="default", prior_param="prec", prior_shape="matrix", lik_param="sqrtprec", lik_shape="scalar", compute_cov=True, mean="vector"),
    dict(m=3, n=3, backing="mb", geom="default", prior_param="sqrtcov", prior_shape="vector", lik_param="prec", lik_shape="vector", compute_cov=True, mean="vector"),
    # scalar prior mean
    dict(m=3, n=2, backing="mb", geom="default", prior_param="cov", prior_shape="scalar", lik_param="cov", lik_shape="scalar", mean="scalar0"),
    dict(m=2, n=1, backing="mb", geom="default", prior_param="cov", prior_shape="scalar", lik_param="cov", lik_shape="scalar", mean="scalar"),
    dict(m=1, n=1, backing="mb", geom="default", prior_param="cov", prior_shape="vector", lik_param="cov", lik_shape="vector", mean="vector"),
]


RETAINED = []   # G8: every returned estimate / sample array, with a private copy taken at return time


def check_retained(ctx):
    for key, desc, obj, copy0 in RETAINED:
        now = np.asarray(obj, dtype=float)
        if now.shape != copy0.shape and now.ravel().shape == copy0.ravel().shape:
            now = now.reshape(copy0.shape)
        if now.shape != copy0.shape or not np.array_equal(now, copy0):
            ctx.fail(key + ":retained-output-changed", desc, "a returned estimate/sample array keeps its values " + str(copy0.tolist())[:200], str(now.tolist())[:200],
                     "an array returned earlier was overwritten by a later call")
    ctx.extra_cov["retained_outputs_checked"] = len(RETAINED)
    RETAINED.clear()


def run_direct(ctx, cuqi, rs, thorough):
    ncases = 3000 if thorough else 260
    cases = [gen_lg_case(cuqi, rs, thorough, f) for f in CORPUS]
    while len(cases) < ncases:
        cases.append(gen_lg_case(cuqi, rs, thorough))
    # G4: full covariance / precision / square-root matrices at absolute scales 1e-12 .. 1e12 (relative correlations O(1)),
    # and nearly-diagonal ones
    scales = [1e-12, 1e-9, 1e-6, 1e-3, 1e3, 1e6, 1e9, 1e12]
    for k in range(len(scales) * (6 if thorough else 3)):
        f = dict(scale=scales[k % len(scales)], prior_shape="matrix", lik_shape="matrix", mean="vector",
                 geom=["default", "Continuous1D", "Step-full"][k % 3], compute_cov=True,
                 prior_param=["cov", "cov", "prec", "sqrtprec", "sqrtcov"][k % 5], lik_param=["cov", "prec", "cov", "sqrtcov", "sqrtprec"][(k // 2) % 5])
        if k % 4 == 3:
            f["neardiag"] = True
        f["n"] = int(rs.randint(2, 5)); f["m"] = f["n"] + int(rs.randint(0, 3))
        cases.append(gen_lg_case(cuqi, rs, thorough, f))
    # small units on one side: accurate data (square well-conditioned A, noise variance 1e-8 .. 1e-14) or a tight prior
    # (prior variance 1e-8 .. 1e-14, any shape); posterior variances are then 1e-8 .. 1e-14 with O(1) operator and unknown
    small = [1e-8, 1e-10, 1e-12, 1e-14, 1e-9, 1e-11]
    for k in range(len(small) * (8 if thorough else 3)):
        n = int(rs.randint(2, 5))
        f = dict(mean="vector", compute_cov=True, backing=["mb", "fn"][k % 2], geom=["default", "Continuous1D", "Step-full"][k % 3],
                 prior_shape=["scalar", "vector", "matrix"][k % 3], lik_shape=["scalar", "matrix", "vector"][(k // 3) % 3],
                 prior_param=["cov", "cov", "prec", "sqrtcov", "sqrtprec"][k % 5], lik_param=["cov", "prec", "cov", "sqrtprec", "sqrtcov"][(k // 2) % 5])
        if k % 2 == 0:   # accurate data
            A = rs.randint(-1, 2, size=(n, n)).astype(float) + 3.0 * np.eye(n)
            f.update(n=n, m=n, A=A.tolist(), lik_scale=small[k % len(small)])
        else:            # tight prior
            f.update(n=n, m=n + int(rs.randint(-1, 3)), prior_scale=small[k % len(small)])
            f["m"] = max(1, f["m"])
        cases.append(gen_lg_case(cuqi, rs, thorough, f))
    # narrow storage types whose own arithmetic wraps or is logical: bool masks, int8/uint8/int16 with row inner products
    # beyond the type's range, float16/float32/int32 -- for the matrix, the data and the prior mean
    narrow = [("bool", 0, 2), ("int8", -12, 13), ("uint8", 0, 17), ("int16", -200, 201), ("float16", -3, 4), ("float32", -3, 4), ("int32", -3, 4), ("uint8", 200, 256)]
    for k in range(len(narrow) * (6 if thorough else 3)):
        dt, lo, hi = narrow[k % len(narrow)]
        n = int(rs.randint(3, 6)); m = int(rs.randint(2, 6))
        A = rs.randint(lo, hi, size=(m, n)).astype(float)
        if dt == "bool":
            A[:, :2] = 1.0          # every pair of rows shares entries: the Gram product has entries >= 2
        f = dict(A=A.tolist(), m=m, n=n, backing="mb", geom=["default", "Continuous1D", "Step-full"][k % 3], A_dtype=dt,
                 prior_param="cov", prior_shape=["scalar", "scalar", "vector", "matrix"][(k // len(narrow)) % 4 if k >= len(narrow) else 0],
                 lik_param="cov", lik_shape=["scalar", "vector", "matrix"][k % 3], mean="vector",
                 b_dtype=[None, "int8", "float32", "float16"][k % 4], mean_dtype=[None, "float32", "int8"][k % 3])
        cases.append(gen_lg_case(cuqi, rs, thorough, f))
    # G4 on the operator: A, data and noise std on the scale 1e-15 .. 1e12 (matrix- and function-backed, all geometries)
    opscales = [1e-15, 2.5e-13, 4e-12, 1e-9, 1e-6, 1e-3, 1e3, 1e6, 1e9, 1e12]
    for k in range(len(opscales) * (6 if thorough else 3)):
        f = dict(opscale=opscales[k % len(opscales)], mean="vector", backing=["fn", "mb", "fn"][k % 3],
                 geom=["Continuous1D", "Discrete", "KL-full", "Step-full", "Step-trunc", "scaled"][(k // 2) % 6],
                 prior_param="cov", lik_param=["cov", "cov", "sqrtprec"][k % 3], compute_cov=True)
        f["n"] = int(rs.randint(3, 6)); f["m"] = f["n"] + int(rs.randint(0, 3))
        cases.append(gen_lg_case(cuqi, rs, thorough, f))
    # ---- model side, pass 1: get_matrix and the parameter-to-parameter matrix
    lines = []
    for c in cases:
        Aq, Eq, Fq = qm(c.A), qm(c.E), qm(np.eye(c.m))
        lines.append(f"getmatrix {c.backing} {Aq} {Eq} {Fq}")
        lines.append(f"getmatrix fn {Aq} {Eq} {Fq}")
    outs = ctx.lean.drive(lines)
    lines2 = []
    for i, c in enumerate(cases):
        c.gm_model, c.aeff = outs[2 * i], outs[2 * i + 1]
        c.ce_attr = c.lik.cov_attr(c.compute_cov)
        c.cx_attr = c.prior.cov_attr(c.compute_cov)
        mean = np.atleast_1d(np.asarray(c.mean, dtype=float)).ravel()   # force_ndarray(value, flatten=True)
        c.x0_tok = "v:" + qv(mean)
        args = f"{c.gm_model} {c.m} {c.npar} {c.ce_attr} {c.cx_attr} {c.x0_tok} v:{qv(c.b)}"
        lines2.append("map " + args)
        lines2.append("centre " + args)
        # MAP(disp, x0) with a user-supplied initial guess: the model reads the prior mean from the prior
        c.x0_variants = [("zeros", np.zeros(c.npar), False), ("ones", np.ones(c.npar), True),
                         ("random", rs.randint(-3, 4, size=c.npar) / 2.0 + 0.25, False),
                         ("priormean", (mean if len(mean) == c.npar else np.repeat(mean, c.npar)).astype(float), True)]
        for (_, ux, disp) in c.x0_variants:
            lines2.append(f"mapx0 {int(disp)} v:{qv(ux)} {c.gm_model} {c.m} {c.npar} {c.ce_attr} {c.cx_attr} {c.x0_tok} v:{qv(c.b)}")
        x0full = mean if len(mean) == c.npar else np.repeat(mean, c.npar)   # documented: scalar mean = constant vector
        # reference: exact posterior of the documented problem, and the posterior the code's formula sees (stored matrix)
        lines2.append(f"ref {c.aeff[2:]} {sm(c.lik.prec)} {sm(c.prior.prec)} {qv(x0full)} {qv(c.b)}")
        # the posterior the code's own formula sees (stored matrix), when it differs and has the right shape
        c.want_code_ref = (c.gm_model != c.aeff) and c.gm_model.startswith("m:") and \
            len(pm(c.gm_model[2:])) == c.m and len(pm(c.gm_model[2:])[0]) == c.npar
        lines2.append(f"ref {c.gm_model[2:]} {sm(c.lik.prec)} {sm(c.prior.prec)} {qv(x0full)} {qv(c.b)}" if c.want_code_ref else "noop")
    outs2 = ctx.lean.drive(lines2)
    hist = {"map_ok": 0, "map_err": {}, "model_eq_ref": 0, "model_ne_ref": 0, "sample_ok": 0, "sample_err": {}}
    for i, c in enumerate(cases):
        c.case_index = i
        c.map_model, c.centre_model = outs2[8 * i], outs2[8 * i + 1]
        c.mapx0_model = outs2[8 * i + 2: 8 * i + 6]
        c.ref = outs2[8 * i + 6]
        c.ref_code = outs2[8 * i + 7] if c.want_code_ref else c.ref
        c.pending_draws = []; c.pending_chol = []
        direct_case(ctx, cuqi, c, rs, hist)
    pend = [p for c in cases for p in c.pending_draws]
    douts = ctx.lean.drive([p[2] for p in pend])
    for (key, desc, line, xs), out in zip(pend, douts):
        ctx.case("draw", {"line": line[:300]})
        pred = np.array([float(v) for v in pv(out)]) if out != "bad-op" else None
        if pred is not None and vclose(xs, pred, 1e-9):
            margin("tie:draw-affine:tol=1e-09", ratio_close(xs, pred, 1e-9))
        if pred is None or not vclose(xs, pred, 1e-9):
            ctx.disagree(key + ":affine", desc, out[:200], xs.tolist(), "draw is not centre + L xi")
            ctx.fail(key + ":affine", desc, "draw = centre + L xi for the scripted xi", xs.tolist(), "direct draw is not affine in the normal vector")
    # ---- the Cholesky factor itself: numpy's L (read off the draws) vs the model's certified LDL^T form of the exact covariance
    pch = [p for c in cases for p in c.pending_chol]
    couts = ctx.lean.drive([p[2] for p in pch]) if pch else []
    chist = {"compared": 0, "model_LinAlgError": 0, "max_rel": 0.0}
    for (key, desc, line, Lnp, ccode), out in zip(pch, couts):
        ctx.case("cholesky-factor", {"line": line[:300]})
        if not out.startswith("lu="):
            chist["model_LinAlgError"] += 1
            ctx.disagree(key + ":cholesky", desc, out[:100], Lnp.tolist(), "model: the exact covariance has no certified LDL^T form, implementation factorised it")
            mm_ = cov_mismatch(Lnp @ Lnp.T, ccode)
            if mm_:
                ctx.fail(key + ":cholesky", desc, "L L^T = covariance of the code's formula", (Lnp @ Lnp.T).tolist(), "factor of the direct sampler: " + mm_)
            continue
        lu_s, d_s = out.split(" ")
        Lu = np.array([[float(v) for v in r] for r in pm(lu_s[3:])]); dd = np.array([float(v) for v in pv(d_s[2:])])
        Lm = Lu * np.sqrt(dd)[None, :]
        scl = float(np.abs(Lm).max(initial=0.0))
        rel = float(np.abs(Lnp - Lm).max(initial=0.0)) / scl if scl > 0 else 0.0
        chist["compared"] += 1; chist["max_rel"] = max(chist["max_rel"], rel)
        if Lnp.shape == Lm.shape:
            margin("tie:cholesky-factor:rel=1e-06", rel / 1e-6)
        if Lnp.shape != Lm.shape or rel > 1e-6:
            ctx.disagree(key + ":cholesky", desc, "Lu*sqrt(d) = " + str(Lm.tolist())[:300], Lnp.tolist(), f"Cholesky factor of the direct sampler differs from the model's (relative {rel:.2e})")
            mm_ = cov_mismatch(Lnp @ Lnp.T, ccode)     # the property only needs L L^T = C: another factor of the same C is a broken tie only
            if mm_:
                ctx.fail(key + ":cholesky", desc, "L L^T = covariance of the code's formula " + str(ccode.tolist())[:300], (Lnp @ Lnp.T).tolist(), "factor of the direct sampler: " + mm_)
    ctx.extra_cov["cholesky_factor_tie"] = chist
    ctx.extra_cov["direct_histogram"] = hist


def direct_case(ctx, cuqi, c, rs, hist):
    desc = lg_desc(c)
    key = lg_key(c)
    ctx.case("lg-" + c.backing + "-" + c.geom_label, desc)
    try:
        with quiet():
            BP = build_lg(cuqi, c)
            gm = dense(BP.model.get_matrix())
    except Exception as e:   # construction refused (e.g. get_matrix on a single squeezed parameter)
        ctx.note(f"construction/get_matrix refused: {exc_name(e)} {str(e)[:60]} at {lg_key(c)}")
        return
    snap0 = {k: snap(v) for k, v in stored_arrays(BP, c.held).items()}
    objs0 = stored_arrays(BP, c.held)
    # ---- reference (exact)
    if not c.ref.startswith("mean="):
        ctx.note(f"reference not available ({c.ref}) at {key}")
        return
    rmean_s, rcov_s = c.ref.split(" ")
    rmean = np.array([float(v) for v in pv(rmean_s[5:])])
    rcov = np.array([[float(v) for v in r] for r in pm(rcov_s[4:])])
    # ---- tie: get_matrix
    kind, gmm = parse_arr(c.gm_model)
    gscale = float(np.abs(gmm).max(initial=0.0))   # relative to the matrix's own scale (operators live on 1e-15 .. 1e12)
    if gm.shape == gmm.shape and gscale > 0 and float(np.abs(gm - gmm).max(initial=0.0)) <= TOL * gscale:
        margin("tie:get_matrix:rel=1e-08", float(np.abs(gm - gmm).max(initial=0.0)) / (TOL * gscale))
    if gm.shape != gmm.shape or not (float(np.abs(gm - gmm).max(initial=0.0)) <= TOL * gscale or (gscale == 0.0 and not gm.any())):
        ctx.disagree(key + ":get_matrix", desc, c.gm_model[:200], str(gm.tolist())[:200], "get_matrix differs from the model")
        # failing-input search (implementation only): the matrix the closed form uses must represent forward on parameters
        try:
            xx = rs.randint(-3, 4, size=c.npar).astype(float)
            with quiet():
                fx = np.asarray(BP.model.forward(xx), dtype=float).ravel()
            gx = gm @ xx
            if gx.shape != fx.shape or float(np.abs(gx - fx).max(initial=0.0)) > 1e-8 * (float(np.abs(fx).max(initial=0.0)) + float(np.abs(gm).max(initial=0.0))):
                ctx.fail(key + ":get_matrix", {**desc, "x": xx.tolist()}, "get_matrix() @ x = forward(x) = " + str(fx.tolist())[:200], gx.tolist(),
                         "the matrix handed to the closed form does not represent the forward map")
        except Exception:
            pass
    # ---- implementation: MAP
    try:
        with quiet():
            xm = BP.MAP(disp=False)
        impl = ("ok", np.asarray(xm, dtype=float).ravel().copy(), xm)
        RETAINED.append((key, desc, xm, impl[1].copy()))
    except Exception as e:
        impl = ("err", exc_name(e), str(e)[:100])
    mk, mv = parse_arr(c.map_model)
    singular = (mk == "err" and mv == "LinAlgError:singular")
    if singular:
        mv = "LinAlgError"
    if impl[0] == "err":
        hist["map_err"][impl[1]] = hist["map_err"].get(impl[1], 0) + 1
        if mk != "err" or mv != impl[1]:
            ctx.disagree(key, desc, c.map_model[:200], f"raises {impl[1]}: {impl[2]}", "MAP: model value vs implementation exception")
    else:
        hist["map_ok"] += 1
        x = impl[1]
        mvv = None if mk == "err" else np.atleast_1d(np.asarray(mv, dtype=float)).ravel()
        if singular:
            # the system matrix is exactly singular (model: LinAlgError); float LU does not notice and returns some point:
            # not a correspondence matter -- the oracle below decides whether that point is acceptable
            hist["singular_solved_in_floats"] = hist.get("singular_solved_in_floats", 0) + 1
        elif mk == "err" or mvv.shape != x.shape or not vclose(x, mvv, TOL):
            ctx.disagree(key, desc, c.map_model[:200], x.tolist(), "MAP: model vs implementation")
        elif mk == "v":
            margin("tie:MAP-vs-mapDirect:tol=1e-08", ratio_close(x, mvv, TOL))
            if vclose(mvv, rmean, 1e-12):
                hist["model_eq_ref"] += 1
            else:
                hist["model_ne_ref"] += 1
        # ---- oracle on the implementation
        oracle_point(ctx, key, desc, BP.posterior, x, rmean, rs, info=getattr(impl[2], "info", None))
    # ---- MAP(disp, x0): a user-supplied initial guess must not change the closed-form estimate
    for (kind, ux, disp), mout in zip(c.x0_variants, c.mapx0_model):
        kx = key + ":x0=" + kind
        dx = {**desc, "x0_arg": ux.tolist(), "disp": disp}
        ctx.case("lg-x0-" + kind, dx)
        try:
            with quiet():
                xv = BP.MAP(disp=disp, x0=ux.copy())
            iv = ("ok", np.asarray(xv, dtype=float).ravel())
        except Exception as e:
            iv = ("err", exc_name(e))
        mk2, mv2 = parse_arr(mout)
        if mk2 == "err" and mv2 == "LinAlgError:singular":
            mv2 = "LinAlgError"; sing2 = True
        else:
            sing2 = False
        if mout != c.map_model:
            ctx.disagree(kx, dx, c.map_model[:100], mout[:100], "model: mapMethod depends on x0 (cannot happen: theorem mapMethod_ignores_x0)")
        if iv[0] == "err":
            if mk2 != "err" or mv2 != iv[1]:
                ctx.disagree(kx, dx, mout[:200], "raises " + iv[1], "MAP(x0=...): model value vs implementation exception")
                if impl[0] == "ok":
                    ctx.fail(kx, dx, "same behaviour as MAP() (a point)", "raises " + iv[1], "MAP with a user-supplied x0 fails where MAP() returns the estimate")
            continue
        hist["map_x0_ok"] = hist.get("map_x0_ok", 0) + 1
        if not sing2:
            mvv2 = None if mk2 == "err" else np.atleast_1d(np.asarray(mv2, dtype=float)).ravel()
            if mk2 == "err" or mvv2.shape != iv[1].shape or not vclose(iv[1], mvv2, TOL):
                ctx.disagree(kx, dx, mout[:200], iv[1].tolist(), "MAP(x0=...): model vs implementation")
        if impl[0] == "ok" and not np.array_equal(iv[1], impl[1]):
            ctx.note(f"MAP(x0={kind}) differs from MAP() at {kx}")
        oracle_point(ctx, kx, dx, BP.posterior, iv[1], rmean, rs, what="MAP(x0=" + kind + ")")
    # ---- direct sampling with a scripted standard-normal stream
    sample_case(ctx, cuqi, c, BP, desc, rmean, rcov, rs, hist)
    generic_case(ctx, cuqi, c, BP, desc, key, impl, rmean, rs, snap0, objs0, hist)


def generic_case(ctx, cuqi, c, BP, desc, key, impl, rmean, rs, snap0, objs0, hist):
    """G1 integer-typed inputs, G2 nothing the caller owns / the problem stores is modified, G3 the returned array is not
    aliased to state, G5 repeated calls and a re-assigned prior mean, G6 a single direct draw"""
    # G5/G3: a second MAP() returns the same point, also after the first result was overwritten by the caller
    if impl[0] == "ok":
        ctx.case("lg-repeat", desc)
        try:
            with quiet():
                x1 = BP.MAP(disp=False)
                first = np.array(x1, dtype=float).ravel()
                np.asarray(x1)[...] = 777.0
                try:
                    x1.parameters[...] = 777.0
                except Exception:
                    pass
                x2 = np.asarray(BP.MAP(disp=False), dtype=float).ravel()
            if not np.array_equal(first, impl[1]) or not np.array_equal(x2, impl[1]):
                ctx.fail(key + ":repeat", desc, "MAP() returns the same point every time " + str(impl[1].tolist()), [first.tolist(), x2.tolist()],
                         "a repeated MAP() call (or one after the caller overwrote the previous result) returns another point")
        except Exception as e:
            ctx.fail(key + ":repeat", desc, "MAP() returns the same point every time", "raises " + exc_name(e), "a repeated MAP() call fails where the first succeeded")
        # G6: one direct draw
        orig = np.random.randn
        np.random.randn = lambda *a: np.zeros(a)
        try:
            with quiet():
                S1 = BP.sample_posterior(1)
            s1 = np.asarray(S1.samples, dtype=float)
            if s1.shape != (c.npar, 1) or not vclose(s1[:, 0], impl[1], TOL):
                ctx.fail(key.replace("MAP:", "sample:", 1) + ":Ns=1", desc, "the single draw for xi=0 is the MAP " + str(impl[1].tolist()), s1.tolist(), "sample_posterior(1) is not centred on the MAP")
        except Exception as e:
            hist["sample1_err"] = hist.get("sample1_err", 0) + 1
        finally:
            np.random.randn = orig
    # G2: byte snapshots
    ctx.case("lg-unmodified", desc)
    now = stored_arrays(BP, c.held)
    changed = [k for k, v in snap0.items() if k in now and v is not None and now[k] is objs0[k] and snap(now[k]) != v]
    if changed:
        ctx.fail(key + ":modifies:" + "+".join(sorted(changed))[:60], desc, "MAP / sample_posterior leave the problem's arrays untouched", changed,
                 "a read-only estimate call modified arrays owned by the caller or stored in the problem")
    # G5: re-assign the prior mean through its setter, then MAP must be that of the current problem
    if impl[0] == "ok" and c.geom_label in IDENTITY_GEOMS + ("Step-full",) and c.mean_kind in ("vector", "zeros"):
        newmean = rs.randint(-3, 4, size=c.npar).astype(float)
        A = c.A @ c.E
        We = np.array([[float(v) for v in r] for r in c.lik.prec]); Wx = np.array([[float(v) for v in r] for r in c.prior.prec])
        ref2 = np.linalg.solve(A.T @ We @ A + Wx, A.T @ We @ c.b + Wx @ newmean)
        ctx.case("lg-setmean", desc)
        try:
            with quiet():
                BP.prior.mean = newmean.copy()
                x3 = np.asarray(BP.MAP(disp=False), dtype=float).ravel()
            if not vclose(x3, ref2, 1e-6):
                ctx.fail(key + ":after-set-mean", {**desc, "new_mean": newmean.tolist()}, "posterior mean for the current prior mean " + str(ref2.tolist()), x3.tolist(),
                         "MAP after re-assigning the prior mean is not the estimate of the current problem")
        except Exception as e:
            ctx.note(f"MAP after prior.mean setter raises {exc_name(e)} at {key}")
    # the same prior / model objects owned by a second problem with other data: both estimates are those of their own problem
    if impl[0] == "ok" and c.case_index % 4 == 2 and c.geom_label in IDENTITY_GEOMS + ("Step-full",) and c.mean_kind in ("vector", "zeros"):
        from cuqi.distribution import Gaussian as _G
        from cuqi.problem import BayesianProblem as _BP
        ctx.case("lg-shared-objects", desc)
        try:
            b2 = rs.randint(-4, 5, size=c.m).astype(float) * (c.opscale or 1.0)
            with quiet():
                y2 = _G(BP.model(BP.prior), **c.lik.kwargs())
                BP2 = _BP(y2, BP.prior).set_data(**{y2.name: b2})
                if c.compute_cov and c.lik.param != "cov":
                    BP2.likelihood.distribution.compute_cov()
                xa = np.asarray(BP2.MAP(disp=False), dtype=float).ravel()
                xb = np.asarray(BP.MAP(disp=False), dtype=float).ravel()
            Aeff = c.A @ c.E
            We = np.array([[float(v) for v in r] for r in c.lik.prec]); Wx = np.array([[float(v) for v in r] for r in c.prior.prec])
            mu = np.asarray(BP.prior.mean, dtype=float).ravel()
            ref2 = np.linalg.solve(Aeff.T @ We @ Aeff + Wx, Aeff.T @ We @ b2 + Wx @ mu)
            if not vclose(xa, ref2, 1e-6):
                ctx.fail(key + ":shared-objects", {**desc, "b2": b2.tolist()}, "posterior mean of the second problem " + str(ref2.tolist()), xa.tolist(), "a second problem built on the same prior/model objects returns a wrong MAP")
        except Exception as e:
            hist["shared_raise:" + exc_name(e)] = hist.get("shared_raise:" + exc_name(e), 0) + 1
    # G1: the same numbers with integer dtypes / python ints / a list as data
    if impl[0] == "ok" and c.case_index % 3 == 0:
        ctx.case("lg-int-inputs", desc)
        try:
            with quiet():
                BPi = build_lg(cuqi, c, as_int=True)
                xi = np.asarray(BPi.MAP(disp=False), dtype=float).ravel()
            if not vclose(xi, impl[1], TOL):
                ctx.fail(key + ":int-inputs", desc, "the estimate for the float64 version of the same numbers " + str(impl[1].tolist()), xi.tolist(),
                         "MAP with integer-typed matrix / data / mean / covariance differs from the float64 problem")
        except Exception as e:
            hist["int_inputs_raise:" + exc_name(e)] = hist.get("int_inputs_raise:" + exc_name(e), 0) + 1
    # G7: other memory layouts / read-only arrays; optional arguments passed positionally
    if impl[0] == "ok" and c.case_index % 3 == 1:
        ctx.case("lg-layout", desc)
        try:
            with quiet():
                BPl = build_lg(cuqi, c, layout=True)
                xl = np.asarray(BPl.MAP(False, None), dtype=float).ravel()
            if not vclose(xl, impl[1], TOL):
                ctx.fail(key + ":layout", desc, "the estimate for the C-contiguous writable version of the same numbers " + str(impl[1].tolist()), xl.tolist(),
                         "MAP with Fortran-ordered / strided / read-only inputs (arguments passed positionally) differs")
        except Exception as e:
            hist["layout_raise:" + exc_name(e)] = hist.get("layout_raise:" + exc_name(e), 0) + 1


def oracle_point(ctx, key, desc, density, x, ref, rs, info=None, tol_point=1e-7, tol_logd=1e-9, grad_tol=1e-6, what="MAP"):
    """property oracle: x is the closed-form mean (if ref given), density.logd(x) >= at ref and at neighbours, gradient ~ 0"""
    bad = None
    try:
        with quiet():
            lx = float(np.asarray(density.logd(x)).ravel()[0])
    except Exception as e:
        ctx.fail(key, desc, "a point of the parameter space", f"logd raises {exc_name(e)} at the returned point {np.asarray(x).tolist()}", f"{what}: returned point cannot be evaluated")
        return False
    if ref is not None:
        if x.shape != ref.shape or not vclose(x, ref, tol_point):
            bad = ("closed-form posterior mean " + str(ref.tolist()), x.tolist(), f"{what} is not the closed-form maximiser")
        else:
            margin(f"oracle:point-vs-reference:tol={tol_point:g}", ratio_close(x, ref, tol_point))
        with quiet():
            lr = float(np.asarray(density.logd(ref)).ravel()[0])
        if lx >= lr - tol_logd * (1 + abs(lx) + abs(lr)):
            margin(f"oracle:logd-deficit-vs-reference:tol={tol_logd:g}", max(0.0, lr - lx) / (tol_logd * (1 + abs(lx) + abs(lr))))
        if not (lx >= lr - tol_logd * (1 + abs(lx) + abs(lr))):
            bad = (f"logd(returned) >= logd(reference) = {lr}", lx, f"{what}: density is larger at the closed-form mean than at the returned point")
    if bad is None and x.ndim == 1:
        for y in neighbours(x, rs):
            with quiet():
                ly = float(np.asarray(density.logd(y)).ravel()[0])
            if not ly > lx + tol_logd * (1 + abs(lx)) + 1e-12:
                margin(f"oracle:neighbour-logd-excess:tol={tol_logd:g}", max(0.0, ly - lx) / (tol_logd * (1 + abs(lx)) + 1e-12))
            if ly > lx + tol_logd * (1 + abs(lx)) + 1e-12:
                bad = (f"no nearby point with larger density (logd={lx})", f"logd({y.tolist()}) = {ly}", f"{what}: a nearby point has larger density")
                break
    if bad is None and x.ndim == 1:
        # derivative of the density itself (central differences of logd), then the implementation's gradient when it
        # is the derivative of logd there (whether `gradient` is the derivative is C03's subject, not decided here)
        h = 1e-4
        gfd = np.zeros(len(x)); hfd = np.zeros(len(x))
        with quiet():
            for i in range(len(x)):
                e = np.zeros(len(x)); e[i] = h
                lp = float(np.asarray(density.logd(x + e)).ravel()[0]); lm = float(np.asarray(density.logd(x - e)).ravel()[0])
                gfd[i] = (lp - lm) / (2 * h)
                hfd[i] = abs(lp - 2 * lx + lm) / (h * h)
        scale = 1.0 + abs(lx) + float(np.abs(x).max(initial=0.0))
        # allowance: absolute (relative to |logd|) + the derivative a displacement of tol_point*(1+|x|) produces at the
        # measured curvature (so that densities of magnitude 1e12 or 1e-12 are judged in relative terms)
        allow = grad_tol * scale * 100 + tol_point * hfd * (1.0 + float(np.abs(x).max(initial=0.0)))
        if np.all(np.isfinite(gfd)) and not bool(np.any(np.abs(gfd) > allow)):
            margin(f"oracle:derivative-vs-allowance:grad_tol={grad_tol:g}", float(np.max(np.abs(gfd) / allow)) if len(gfd) else 0.0)
        if not np.all(np.isfinite(gfd)) or bool(np.any(np.abs(gfd) > allow)):
            bad = ("derivative of logd vanishes", gfd.tolist(), f"{what}: the derivative of the log-density does not vanish at the returned point")
        else:
            try:
                with quiet():
                    g = np.asarray(density.gradient(x), dtype=float).ravel()
                if g.shape == gfd.shape and np.all(np.isfinite(g)):
                    if float(np.abs(g - gfd).max(initial=0.0)) <= 1e-5 * scale:
                        if bool(np.any(np.abs(g) > allow)):
                            bad = ("gradient vanishes", g.tolist(), f"{what}: gradient does not vanish at the returned point")
                    else:
                        ctx.extra_cov.setdefault("gradient_not_derivative_skipped", 0)
                        ctx.extra_cov["gradient_not_derivative_skipped"] += 1
            except (NotImplementedError, AttributeError, TypeError, ValueError):
                pass
    if bad:
        ctx.fail(key, desc, bad[0], bad[1], bad[2])
        return False
    return True


def sample_case(ctx, cuqi, c, BP, desc, rmean, rcov, rs, hist):
    key = lg_key(c, "sample")
    n = c.npar
    nrand = 2
    script = [np.zeros(n)] + [np.eye(n)[:, k].copy() for k in range(n)] + [rs.randint(-4, 5, size=n) / 2.0 for _ in range(nrand)]
    calls = []
    orig = np.random.randn

    def fake(*a):
        calls.append(a)
        return script[len(calls) - 1].copy()
    np.random.randn = fake
    try:
        try:
            with quiet():
                S = BP.sample_posterior(len(script))
            impl = ("ok", np.asarray(S.samples, dtype=float))
        except Exception as e:
            impl = ("err", exc_name(e), str(e)[:100])
    finally:
        np.random.randn = orig
    ctx.case("sample-" + c.backing + "-" + c.geom_label, desc)
    ck, cv = parse_arr(c.centre_model)
    if ck == "err" and cv == "LinAlgError:singular":
        cv = "LinAlgError"
    if impl[0] == "err":
        hist["sample_err"][impl[1]] = hist["sample_err"].get(impl[1], 0) + 1
        if ck != "err" or cv != impl[1]:
            ctx.disagree(key, desc, c.centre_model[:200], f"raises {impl[1]}: {impl[2]}", "sample_posterior: model centre vs implementation exception")
        return
    hist["sample_ok"] += 1
    X = impl[1].copy()
    RETAINED.append((key, desc, S.samples, X.copy()))
    if any(a != (n,) for a in calls) or len(calls) != len(script):
        ctx.disagree(key + ":stream", desc, f"{len(script)} calls randn({n})", str(calls)[:100], "random stream consumption differs")
    centre = X[:, 0]
    L = X[:, 1:n + 1] - centre[:, None]
    cvv = None if ck == "err" else np.atleast_1d(np.asarray(cv, dtype=float)).ravel()
    if ck == "err" or cvv.shape != centre.shape or not vclose(centre, cvv, TOL):
        ctx.disagree(key, desc, c.centre_model[:200], centre.tolist(), "centre of the direct draws: model vs implementation")
    else:
        margin("tie:sample-centre-vs-sampleCentre:tol=1e-08", ratio_close(centre, cvv, TOL))
    # affine in xi: model `draw` on the leaf factor L
    for k in range(nrand):   # compared with the model's `draw` after the loop (batched)
        c.pending_draws.append((key, desc, f"draw {qv(centre)} {qm(L)} {qv(script[n + 1 + k])}", X[:, n + 1 + k].copy()))
    # the covariance the code's own formula yields (stored matrix): tie
    if c.ref_code is not None and c.ref_code.startswith("mean="):
        ccode = np.array([[float(v) for v in r] for r in pm(c.ref_code.split(" ")[1][4:])])
        c.pending_chol.append((key, desc, "chol " + c.ref_code.split(" ")[1][4:], L.copy(), ccode))
        mm_ = cov_mismatch(L @ L.T, ccode)
        if mm_:
            ctx.disagree(key, desc, str(ccode.tolist())[:200], (L @ L.T).tolist(), "L L^T vs inv(A^T inv(Ce) A + inv(Cx)) of the model: " + mm_)
    # ---- oracle: offset = posterior mean, L L^T = posterior covariance, L a Cholesky factor
    C = L @ L.T
    okL = np.allclose(L, np.tril(L), atol=1e-12) and np.all(np.diag(L) > 0)
    if not okL:
        ctx.note(f"direct sampler factor is not lower-triangular with positive diagonal at {key}")
    if not vclose(centre, rmean, 1e-7):
        ctx.fail(key, desc, "offset of the draws = posterior mean " + str(rmean.tolist()), centre.tolist(), "direct draws are not centred on the closed-form posterior mean")
    else:
        mm_ = cov_mismatch(C, rcov)
        if mm_:
            ctx.fail(key, desc, "L L^T = posterior covariance " + str(rcov.tolist())[:300], C.tolist(), "direct draws do not have the closed-form posterior covariance (relative to its own scale): " + mm_)


# ----------------------------------------------------------------------------------------------- routes and the solver wrapper
PRIORS = ["gaussian", "gaussian-prec", "gmrf", "lmrf", "cmrf", "cauchy", "lognormal", "beta"]


def make_prior(cuqi, kind, n, rs):
    from cuqi.distribution import Gaussian, GMRF, LMRF, CMRF, Cauchy, Lognormal, Beta
    if kind == "gaussian":
        return Gaussian(rs.randint(-1, 2, size=n).astype(float), cov=float(rs.choice([0.5, 1.0, 2.0]))), "gaussian"
    if kind == "gaussian-prec":
        return Gaussian(np.zeros(n), prec=float(rs.choice([0.5, 1.0, 2.0]))), "gaussian"
    if kind == "gmrf":
        return GMRF(np.zeros(n), float(rs.choice([1.0, 2.0, 4.0]))), "gmrf"
    if kind == "lmrf":
        return LMRF(0, float(rs.choice([0.5, 1.0])), geometry=n), "lmrf"
    if kind == "cmrf":
        return CMRF(np.zeros(n), float(rs.choice([0.5, 1.0]))), "cmrf"
    if kind == "cauchy":
        return Cauchy(np.zeros(n), float(rs.choice([1.0, 2.0]))), "other"
    if kind == "lognormal":
        return Lognormal(np.zeros(n), float(rs.choice([0.5, 1.0]))), "lognormal"
    if kind == "beta":
        return Beta(2.0 * np.ones(n), 3.0 * np.ones(n)), "beta"
    raise ValueError(kind)


def make_model(cuqi, kind, m, n, rs):
    from cuqi.model import LinearModel, Model
    if kind == "linear":
        A = rs.randint(-2, 3, size=(m, n)).astype(float)
        for i in range(min(m, n)):
            A[i, i] += 3.0          # keep full column rank for m >= n
        return LinearModel(A), A
    c = float(rs.choice([0.125, 0.25]))
    return Model(lambda x: x + c * x ** 3, range_geometry=n, domain_geometry=n, jacobian=lambda x: np.diag(1 + 3 * c * x ** 2)), None


def make_problem(cuqi, prior_kind, model_kind, m, n, rs, noise="full"):
    from cuqi.distribution import Gaussian
    from cuqi.problem import BayesianProblem
    M, A = make_model(cuqi, model_kind, m, n, rs)
    x, pk = make_prior(cuqi, prior_kind, n, rs)
    mm = m if model_kind == "linear" else n
    if noise == "scalar" or mm == 1:
        sc = float(rs.choice([0.25, 0.5, 1.0])); sig2 = sc * np.eye(mm)
        y = Gaussian(M(x), cov=sc)
    else:   # full, non-diagonal SPD noise covariance (so that R^T R and R R^T of its factors differ)
        Bn = np.tril(rs.randint(-1, 2, size=(mm, mm)).astype(float), -1) / 2.0 + np.eye(mm)
        Bn[1, 0] = 0.5 if Bn[1, 0] == 0 else Bn[1, 0]
        sig2 = (Bn @ Bn.T) * float(rs.choice([0.25, 0.5, 1.0]))
        y = Gaussian(M(x), cov=sig2)
    if prior_kind in ("lognormal", "beta"):
        xt = rs.uniform(0.3, 0.7, size=n)
    else:
        xt = rs.randint(-1, 2, size=n).astype(float)
    with quiet():
        b = np.asarray(M(xt), dtype=float) + rs.randint(-1, 2, size=mm) / 4.0
    BP = BayesianProblem(y, x).set_data(y=b)
    return BP, pk, A, sig2, b


class _Recorder:
    """stands in for cuqi.solver.minimize / L_BFGS_B: records what it is given, returns a marker"""
    log = []

    def __init__(self, name):
        self.name = name

    def __call__(self, func, x0, gradfunc=None, **kw):
        rec = {"solver": self.name, "func": func, "x0": np.array(x0, dtype=float), "gradfunc": gradfunc, "kw": kw}
        _Recorder.log.append(rec)
        marker = np.array(x0, dtype=float) * 0 + 0.625 + np.arange(len(x0)) / 8.0

        class S:
            def solve(self_inner):
                return marker.copy(), {"success": True}
        rec["marker"] = marker
        return S()


def run_routes(ctx, cuqi, rs, thorough):
    from cuqi.problem import BayesianProblem
    import cuqi.solver as solver_mod
    nprob = 400 if thorough else 48
    specs = []
    for k in range(nprob):
        pk = PRIORS[k % len(PRIORS)]
        mk = "linear" if (k // len(PRIORS)) % 3 != 2 else "nonlinear"
        n = int(rs.randint(2, 5)); m = int(rs.randint(2, 6))
        maxdim = [2000, 2000, 3, 2][rs.randint(0, 4)]
        specs.append((pk, mk, m, n, maxdim))
    sample_methods = ["_sampleMapCholesky", "_sampleLinearRTO", "_sampleUGLA", "_sampleNUTS", "_samplepCN",
                      "_sampleRegularizedLinearRTO", "_sampleCWMH", "_sampleGibbs"]
    saved = {nm: getattr(BayesianProblem, nm) for nm in sample_methods}
    saved_solvers = (solver_mod.minimize, solver_mod.L_BFGS_B)
    saved_max = cuqi.config.MAX_DIM_INV
    lines, recs = [], []
    try:
        for (pk, mk, m, n, maxdim) in specs:
            desc = {"prior": pk, "model": mk, "m": m, "n": n, "MAX_DIM_INV": maxdim}
            try:
                with quiet():
                    BP, pkind, A, sig2, b = make_problem(cuqi, pk, mk, m, n, rs)
            except Exception as e:
                ctx.note(f"route problem not constructible {desc}: {exc_name(e)}")
                continue
            cuqi.config.MAX_DIM_INV = maxdim
            # leaf inputs of the decision
            with quiet():
                try:
                    BP.posterior.gradient(np.zeros(BP.posterior.dim)); hasgrad = True
                except (NotImplementedError, AttributeError):
                    hasgrad = False
                except Exception:
                    hasgrad = True     # any other exception propagates in the code; treated below
            hassq = hasattr(BP.prior, "sqrtprecTimesMean") and hasattr(BP.likelihood.distribution, "sqrtprec")
            mm = BP.model.range_dim
            lines.append(f"route {pkind} gaussian {mk} {n} {mm} {int(hasgrad)} {int(hassq)} {maxdim}")
            # sampler selection
            called = []
            for nm in sample_methods:
                setattr(BayesianProblem, nm, (lambda nm: (lambda self, *a, **k: called.append(nm)))(nm))
            try:
                with quiet():
                    BP.sample_posterior(5)
                samp = called[0] if called else "none"
            except NotImplementedError:
                samp = "NotImplementedError"
            except Exception as e:
                samp = "raises:" + exc_name(e)
            for nm in sample_methods:
                setattr(BayesianProblem, nm, saved[nm])
            # solver selection and what the solver is given
            _Recorder.log = []
            solver_mod.minimize = _Recorder("minimize"); solver_mod.L_BFGS_B = _Recorder("lbfgsb")
            res = {}
            for which in ("MAP", "ML"):
                n0 = len(_Recorder.log)
                try:
                    with quiet():
                        out = getattr(BP, which)(disp=False)
                    rec = _Recorder.log[n0] if len(_Recorder.log) > n0 else None
                    res[which] = ("direct" if rec is None else rec["solver"], rec, np.asarray(out, dtype=float))
                except Exception as e:
                    res[which] = ("raises:" + exc_name(e), None, None)
            # start point: the user's x0 is handed to the solver (optimisation route only)
            ux = rs.randint(1, 4, size=n) / 4.0
            for which in ("MAP", "ML"):
                n0 = len(_Recorder.log)
                try:
                    with quiet():
                        getattr(BP, which)(disp=False, x0=ux.copy())
                    if len(_Recorder.log) > n0 and not np.array_equal(_Recorder.log[n0]["x0"], ux):
                        res[which + ":x0"] = _Recorder.log[n0]["x0"].tolist()
                except Exception:
                    pass
            res["ux"] = ux.tolist()
            solver_mod.minimize, solver_mod.L_BFGS_B = saved_solvers
            cuqi.config.MAX_DIM_INV = saved_max
            recs.append((desc, BP, samp, res, pk, A, sig2, b))
    finally:
        for nm in sample_methods:
            setattr(BayesianProblem, nm, saved[nm])
        solver_mod.minimize, solver_mod.L_BFGS_B = saved_solvers
        cuqi.config.MAX_DIM_INV = saved_max
    outs = ctx.lean.drive(lines)
    hist = {}
    for (desc, BP, samp, res, pk, A, sig2, b), out in zip(recs, outs):
        ctx.case("route-" + desc["prior"] + "-" + desc["model"], desc)
        f = dict(t.split("=") for t in out.split(" "))
        key = f"route:{desc['prior']}:{desc['model']}:{'small' if desc['MAX_DIM_INV'] < 10 else 'default'}-maxdim"
        hist[f"{f['map']}/{f['sample']}"] = hist.get(f"{f['map']}/{f['sample']}", 0) + 1
        # only the *direct* decisions belong to this property (which MCMC sampler is picked otherwise does not)
        impl_direct_sample = (samp == "_sampleMapCholesky")
        if impl_direct_sample != (f["sample"] == "mapCholesky"):
            ctx.disagree(key + ":sample", desc, f["sample"], samp, "direct-sampling decision differs")
        for which, mf in (("MAP", f["map"]), ("ML", f["ml"])):
            got = res[which][0]
            if got.startswith("raises:"):
                # a failing call is allowed by the property (e.g. the closed form refuses non-cov Gaussians; the gradient
                # probe of a scalar-prec Gaussian raises ValueError, which is C03's subject): recorded, not judged
                hist["raises:" + which + ":" + got[7:]] = hist.get("raises:" + which + ":" + got[7:], 0) + 1
                continue
            if got != mf:
                ctx.disagree(key + ":" + which, desc, mf, got, "solver / closed-form decision differs")
                # failing-input search on this very problem: is the point the (unmodelled) route returns a maximiser?
                cuqi.config.MAX_DIM_INV = desc["MAX_DIM_INV"]
                try:
                    with quiet():
                        xr = getattr(BP, which)(disp=False)
                    xr = np.asarray(xr, dtype=float).ravel()
                    dens = BP.posterior if which == "MAP" else BP.likelihood
                    oracle_point(ctx, key + ":" + which, {**desc, "returned": xr.tolist()}, dens, xr,
                                 float_ref(BP, which, A, sig2, b, desc["prior"]), rs, tol_point=2e-3, tol_logd=1e-7, grad_tol=1e-5, what=which)
                except Exception as e:
                    ctx.note(f"{which} raises {exc_name(e)} on the disagreeing route problem {desc}")
                finally:
                    cuqi.config.MAX_DIM_INV = saved_max
                continue
            rec, out_x = res[which][1], res[which][2]
            if rec is None:
                continue
            # maximize_sign: func = -logd, gradfunc = -gradient (or None), start = ones, result passed through
            dens = BP.posterior if which == "MAP" else BP.likelihood
            kk = f"maxpoint:{which}:{desc['prior']}:{desc['model']}"
            ctx.case("maxpoint-" + which, desc)
            bad = None
            if desc["prior"] in ("lognormal", "beta"):
                pts = [rs.uniform(0.2, 0.8, size=len(rec["x0"])) for _ in range(3)]
            else:
                pts = [rs.randint(-3, 4, size=len(rec["x0"])) / 2.0 for _ in range(3)]
            with quiet():
                for xx in pts:
                    a = float(np.asarray(rec["func"](xx)).ravel()[0]); bb = -float(np.asarray(dens.logd(xx)).ravel()[0])
                    if not close(a, bb, 1e-12):
                        bad = (f"func(x) = -logd(x) = {bb}", a, "objective handed to the solver is not the negative log-density")
                    try:
                        gd = -np.asarray(dens.gradient(xx), dtype=float).ravel()
                        has = True
                    except (NotImplementedError, AttributeError):
                        has = False
                    if has and rec["gradfunc"] is not None:
                        ga = np.asarray(rec["gradfunc"](xx), dtype=float).ravel()
                        if not vclose(ga, gd, 1e-12):
                            bad = ("gradfunc(x) = -gradient(x) " + str(gd.tolist()), ga.tolist(), "gradient handed to the solver is not the negative gradient")
            if not np.array_equal(out_x.ravel(), rec["marker"].ravel()):
                bad = ("the solver's point " + str(rec["marker"].tolist()), out_x.tolist(), f"{which} does not return the point the solver returned")
            if not np.array_equal(rec["x0"], np.ones(len(rec["x0"]))):
                ctx.note(f"start point is not the ones vector at {kk}")
            if which + ":x0" in res:
                ctx.note(f"user x0 {res['ux']} reached the solver as {res[which + ':x0']} at {kk}")
            if bad:
                ctx.disagree(kk, desc, bad[0], bad[1], bad[2])
                ctx.fail(kk, desc, bad[0], bad[1], bad[2])
    ctx.extra_cov["route_histogram"] = hist


def float_ref(BP, which, A, sig2, b, prior_kind):
    """numpy reference of the maximiser where a closed form exists (linear model), else None"""
    if A is None:
        return None
    We = np.linalg.inv(sig2)
    if which == "ML":
        if np.linalg.matrix_rank(A) == A.shape[1]:
            return np.linalg.solve(A.T @ We @ A, A.T @ We @ b)
        return None
    if prior_kind in ("gaussian", "gaussian-prec", "gmrf"):
        R = dense(BP.prior.sqrtprec); Wx = R.T @ R
        mu = np.asarray(BP.prior.mean, dtype=float).ravel()
        mu = mu if len(mu) == A.shape[1] else np.repeat(mu, A.shape[1])
        return np.linalg.solve(A.T @ We @ A + Wx, A.T @ We @ b + Wx @ mu)
    return None


# ----------------------------------------------------------------------------------------------- ML with full noise specifications
def run_ml_full(ctx, cuqi, rs, thorough):
    """over-determined full-column-rank linear models, noise given by a FULL non-diagonal cov / prec / sqrtcov (symmetric)
    / sqrtprec (non-symmetric) matrix: ML must be the exact weighted least-squares solution (theorem ml_full_column_rank)"""
    from cuqi.distribution import Gaussian
    from cuqi.model import LinearModel
    from cuqi.problem import BayesianProblem
    nprob = 240 if thorough else 32
    probs, lines = [], []
    params = ["cov", "prec", "sqrtcov", "sqrtprec"]
    for k in range(nprob):
        n = int(rs.randint(1, 5)); m = n + int(rs.randint(1, 4))
        A = rs.randint(-2, 3, size=(m, n)).astype(float)
        for i in range(n):
            A[i, i] += 3.0
        for _ in range(20):
            spec = gen_spec(rs, m, params[k % 4], "matrix")
            V = np.array(spec.value)
            if np.abs(V - np.diag(np.diag(V))).max() > 0:
                break
        b = rs.randint(-4, 5, size=m).astype(float)
        probs.append((A, spec, b, n, m))
        lines.append(f"ref {qm(A)} {sm(spec.prec)} {sm([[Fraction(0)] * n for _ in range(n)])} {qv(np.zeros(n))} {qv(b)}")
    outs = ctx.lean.drive(lines)
    for (A, spec, b, n, m), out in zip(probs, outs):
        desc = {"A": A.tolist(), "noise": [spec.param, "matrix", spec.value], "b": b.tolist(), "m": m, "n": n}
        if not out.startswith("mean="):
            ctx.note(f"ml-full: no exact reference ({out}) for {desc}")
            continue
        ref = np.array([float(v) for v in pv(out.split(" ")[0][5:])])
        with quiet():
            x = Gaussian(np.zeros(n), cov=1.0)
            y = Gaussian(LinearModel(A)(x), **spec.kwargs())
            BP = BayesianProblem(y, x).set_data(y=b)
        for xk, ux in (("none", None), ("zeros", np.zeros(n)), ("random", rs.randint(-3, 4, size=n) / 2.0)):
            key = f"ML:full-noise:{spec.label}" + ("" if xk == "none" else ":x0=" + xk)
            dx = {**desc, "x0_arg": None if ux is None else ux.tolist()}
            ctx.case("ml-full-" + spec.param, dx)
            try:
                with quiet():
                    xm = BP.ML(disp=False) if ux is None else BP.ML(disp=False, x0=ux.copy())
                xv = np.asarray(xm, dtype=float).ravel()
            except Exception as e:
                ctx.note(f"{key} raises {exc_name(e)}: {str(e)[:60]}")
                continue
            oracle_point(ctx, key, {**dx, "returned": xv.tolist()}, BP.likelihood, xv, ref, rs,
                         tol_point=2e-3, tol_logd=1e-7, grad_tol=1e-5, what="ML")


# ----------------------------------------------------------------------------------------------- optimisation route: oracle only
def run_opt(ctx, cuqi, rs, thorough):
    nprob = 300 if thorough else 36
    kinds = ["gmrf", "cmrf", "cauchy", "lognormal", "gaussian-nl", "gaussian-ml", "gmrf", "wangcubic", "gaussian-ml"]
    for k in range(nprob):
        kind = kinds[k % len(kinds)]
        n = int(rs.randint(1, 5)) if kind != "cmrf" else int(rs.randint(2, 5)); m = n + int(rs.randint(0, 3))
        desc = {"problem": kind, "m": m, "n": n, "k": k}
        try:
            with quiet():
                if kind == "wangcubic":
                    BP = cuqi.testproblem.WangCubic(); A = None
                elif kind == "gaussian-nl":
                    BP, _, A, sig2, b = make_problem(cuqi, "gaussian", "nonlinear", m, n, rs)
                elif kind == "gaussian-ml":
                    BP, _, A, sig2, b = make_problem(cuqi, "gaussian", "linear", m, n, rs)
                else:
                    BP, _, A, sig2, b = make_problem(cuqi, kind, "linear", m, n, rs)
        except Exception as e:
            ctx.note(f"opt problem not constructible {desc}: {exc_name(e)}")
            continue
        for which in (("ML",) if kind == "gaussian-ml" else ("MAP", "ML")):
            key = f"{which}:opt:{kind}"
            ctx.case("opt-" + which + "-" + kind, desc)
            dens = BP.posterior if which == "MAP" else BP.likelihood
            try:
                with quiet():
                    xm = getattr(BP, which)(disp=False)
                x = np.asarray(xm, dtype=float).ravel()
            except Exception as e:
                ctx.note(f"{key} raises {exc_name(e)}: {str(e)[:60]}")   # a failing call is allowed by the property
                continue
            ref = float_ref(BP, which, A, sig2, b, kind) if kind in ("gmrf", "gaussian-ml") else None
            if k % 2 == 1:   # user-supplied start point: the result must still be a maximiser
                ux = rs.randint(-2, 3, size=len(x)) / 2.0 if kind not in ("lognormal",) else rs.uniform(0.3, 0.9, size=len(x))
                try:
                    with quiet():
                        xm = getattr(BP, which)(disp=False, x0=ux.copy())
                    x = np.asarray(xm, dtype=float).ravel()
                    key = key + ":x0"
                    desc = {**desc, "x0_arg": ux.tolist()}
                except Exception as e:
                    ctx.note(f"{key}:x0 raises {exc_name(e)}")
                    continue
            oracle_point(ctx, key, {**desc, "returned": x.tolist(), "info": str(getattr(xm, "info", {}).get("success"))},
                         dens, x, ref, rs, tol_point=2e-3, tol_logd=1e-7, grad_tol=1e-5, what=which)


# ----------------------------------------------------------------------------------------------- G1: non-float64 start points (optimisation route)
def start_variants(n, rs):
    base = rs.randint(0, 3, size=n)          # small integers: exactly representable in every dtype below
    out = [("int64", base.astype(np.int64)), ("int32-zeros", np.zeros(n, dtype=np.int32)), ("float32", base.astype(np.float32) + np.float32(0.5)),
           ("list-float", [float(v) for v in base]), ("list-int", [int(v) for v in base]), ("bool", np.ones(n, dtype=bool))]
    if n == 1:
        out += [("python-int", int(base[0]) + 1), ("python-float", 1.5), ("0-d", np.array(2.0)), ("0-d-int", np.array(2))]
    return out


def run_starts(ctx, cuqi, rs, thorough):
    """MAP/ML(x0=<integer / float32 / list / bool / scalar start>) on every solver the optimisation route can pick:
    pass-through (equals a direct SciPy call from the float64 version of the same start) + maximiser oracle"""
    import cuqi.solver as solver_mod
    import scipy.optimize as opt
    from scipy.optimize import fmin_l_bfgs_b
    kinds = ["gmrf", "cmrf", "gaussian-nl", "cauchy", "gmrf", "gaussian-nl-1", "cmrf", "cauchy-1"]
    nprob = 64 if thorough else 8
    orig_min, orig_lb = solver_mod.minimize, solver_mod.L_BFGS_B
    LOG = []

    class RecMin(orig_min):
        def __init__(self, func, x0, gradfunc=None, method=None, **kw):
            LOG.append(("minimize", func, x0, gradfunc, method, kw)); super().__init__(func, x0, gradfunc=gradfunc, method=method, **kw)

    class RecLB(orig_lb):
        def __init__(self, func, x0, gradfunc=None, **kw):
            LOG.append(("lbfgsb", func, x0, gradfunc, None, kw)); super().__init__(func, x0, gradfunc=gradfunc, **kw)
    hist = {}
    try:
        solver_mod.minimize, solver_mod.L_BFGS_B = RecMin, RecLB
        for k in range(nprob):
            kind = kinds[k % len(kinds)]
            one = kind.endswith("-1")
            pkind = kind[:-2] if one else kind
            n = 1 if one else int(rs.randint(2, 4)); m = n + int(rs.randint(0, 3))
            try:
                with quiet():
                    if pkind == "gaussian-nl":
                        BP, _, A, sig2, b = make_problem(cuqi, "gaussian", "nonlinear", m, n, rs)
                    else:
                        BP, _, A, sig2, b = make_problem(cuqi, pkind, "linear", m, n, rs)
            except Exception as e:
                ctx.note(f"start problem not constructible {kind}: {exc_name(e)}"); continue
            for (vk, ux) in start_variants(n, rs):
                for which in ("MAP", "ML"):
                    key = f"{which}:opt-start:{pkind}:{vk}"
                    desc = {"problem": kind, "m": m, "n": n, "x0_arg": np.asarray(ux).tolist(), "x0_type": vk}
                    ctx.case("start-" + vk, {**desc, "which": which, "k": k})
                    u0 = snap(ux)
                    LOG.clear()
                    try:
                        with quiet():
                            xm = getattr(BP, which)(disp=False, x0=ux)
                        x = np.asarray(xm, dtype=float).ravel()
                    except Exception as e:
                        hist[f"raises:{vk}:{exc_name(e)}"] = hist.get(f"raises:{vk}:{exc_name(e)}", 0) + 1
                        continue
                    hist["ok:" + vk] = hist.get("ok:" + vk, 0) + 1
                    if snap(ux) != u0:
                        ctx.fail(key + ":modifies-x0", desc, "x0 untouched", np.asarray(ux).tolist(), "the caller's start point was modified")
                    dens = BP.posterior if which == "MAP" else BP.likelihood
                    # pass-through: what SciPy itself returns from the float64 version of the same start
                    if LOG:
                        name, func, x0rec, gradfunc, method, kw = LOG[-1]
                        x0f = np.atleast_1d(np.asarray(ux, dtype=np.float64)).ravel()
                        with quiet():
                            if name == "minimize":
                                xs = np.asarray(opt.minimize(func, x0f, jac=gradfunc, method=method, **kw)["x"], dtype=float).ravel()
                            else:
                                xs = np.asarray(fmin_l_bfgs_b(func, x0f, fprime=gradfunc, approx_grad=(1 if gradfunc is None else 0), **kw)[0], dtype=float).ravel()
                        if x.shape == xs.shape and vclose(x, xs, 2e-3 if vk == "float32" else 1e-5):
                            margin("tie:opt-start-pass-through:" + ("float32:tol=2e-3" if vk == "float32" else "tol=1e-5"), ratio_close(x, xs, 2e-3 if vk == "float32" else 1e-5))
                        if x.shape != xs.shape or not vclose(x, xs, 2e-3 if vk == "float32" else 1e-5):   # SciPy keeps float32 starts in single precision for a while
                            ctx.disagree(key, desc, "SciPy's x from the float64 start: " + str(xs.tolist()), x.tolist(), "returned point is not SciPy's solution (wrapperResult)")
                    ref = float_ref(BP, which, A, sig2, b, pkind) if pkind == "gmrf" else None
                    oracle_point(ctx, key, {**desc, "returned": x.tolist()}, dens, x, ref, rs, tol_point=2e-3, tol_logd=1e-7, grad_tol=1e-5, what=which)
    finally:
        solver_mod.minimize, solver_mod.L_BFGS_B = orig_min, orig_lb
    ctx.extra_cov["start_point_histogram"] = hist


# ----------------------------------------------------------------------------------------------- G4: scales on the optimisation route
def ar1(m, rho):
    return np.array([[rho ** abs(i - j) for j in range(m)] for i in range(m)])


def run_opt_scale(ctx, cuqi, rs, thorough):
    """full noise / prior covariance matrices of absolute size 1e-12..1 (relative correlations O(1)): ML, MAP with a GMRF
    prior (optimisation route) and `_solve_max_point(posterior)` on Gaussian-prior problems vs the exact Q reference
    (generalised least squares / posterior mean), relatively.  Large scales (>= 1e8) are a separate key class."""
    from cuqi.distribution import Gaussian, GMRF
    from cuqi.model import LinearModel, Model
    from cuqi.problem import BayesianProblem
    scales = [1e-12, 1e-9, 1e-6, 1e-3, 1.0, 1e-10, 1e-8, 1e8, 1e12]
    nprob = len(scales) * (6 if thorough else 2)
    probs, lines = [], []
    for k in range(nprob):
        sc = scales[k % len(scales)]
        n = int(rs.randint(2, 4)); m = n + int(rs.randint(1, 3))
        A = rs.randint(-2, 3, size=(m, n)).astype(float)
        for i in range(n):
            A[i, i] += 3.0
        rho = float(rs.choice([0.5, -0.5, 0.25]))
        Sig = sc * ar1(m, rho) if k % 2 == 0 else sc * np.array(gen_spec(rs, m, "cov", "matrix").value)
        Gam = sc * (ar1(n, 0.5) * 2.0)
        mu = rs.randint(-1, 2, size=n).astype(float)
        b = rs.randint(-4, 5, size=m).astype(float)
        We = finv(fmat(Sig)); Wx = finv(fmat(Gam))
        probs.append((sc, A, Sig, Gam, mu, b, n, m))
        lines.append(f"ref {qm(A)} {sm(We)} {sm([[Fraction(0)] * n for _ in range(n)])} {qv(np.zeros(n))} {qv(b)}")
        lines.append(f"ref {qm(A)} {sm(We)} {sm(Wx)} {qv(mu)} {qv(b)}")
    outs = ctx.lean.drive(lines)
    for i, (sc, A, Sig, Gam, mu, b, n, m) in enumerate(probs):
        cls = "small" if sc <= 1 else "large"
        desc = {"scale": sc, "A": A.tolist(), "noise_cov": Sig.tolist(), "prior_cov": Gam.tolist(), "prior_mean": mu.tolist(), "b": b.tolist()}
        o_ml, o_map = outs[2 * i], outs[2 * i + 1]
        if not (o_ml.startswith("mean=") and o_map.startswith("mean=")):
            ctx.note(f"opt-scale: no exact reference at scale {sc}"); continue
        ref_ml = np.array([float(v) for v in pv(o_ml.split(" ")[0][5:])])
        ref_map = np.array([float(v) for v in pv(o_map.split(" ")[0][5:])])
        with quiet():
            x = Gaussian(mu, cov=Gam); y = Gaussian(LinearModel(A)(x), cov=Sig)
            BP = BayesianProblem(y, x).set_data(y=b)
            xg = GMRF(np.zeros(n), 2.0 / sc); yg = Gaussian(LinearModel(A)(xg), cov=Sig)
            BPg = BayesianProblem(yg, xg).set_data(yg=b)
        jobs = [("ML", f"ML:opt-scale:{cls}:cov-matrix", lambda: BP.ML(disp=False), BP.likelihood, ref_ml),
                ("MAP-forced", f"MAP:opt-scale:{cls}:solve_max_point", lambda: cuqi.array.CUQIarray(BP._solve_max_point(BP.posterior, disp=False)[0], geometry=BP.posterior.geometry), BP.posterior, ref_map),
                ("MAP-direct", f"MAP:direct-scale:{cls}", lambda: BP.MAP(disp=False), BP.posterior, ref_map),
                ("MAP-gmrf", f"MAP:opt-scale:{cls}:gmrf", lambda: BPg.MAP(disp=False), BPg.posterior, None)]
        for nm, key, call, dens, ref in jobs:
            ctx.case("scale-" + nm, {**desc, "call": nm})
            try:
                with quiet():
                    xv = np.asarray(call(), dtype=float).ravel()
            except Exception as e:
                ctx.note(f"{key} raises {exc_name(e)} at scale {sc}"); continue
            if nm == "MAP-gmrf":
                ref = float_ref(BPg, "MAP", A, Sig, b, "gmrf")
            oracle_point(ctx, key, {**desc, "returned": xv.tolist()}, dens, xv, ref, rs,
                         tol_point=(1e-7 if nm == "MAP-direct" else 2e-3), tol_logd=1e-7, grad_tol=1e-5, what=nm)
        # a non-linear model with the same tiny full noise covariance (local oracle only)
        if sc <= 1 and i % 3 == 0:
            c3 = 0.125
            with quiet():
                xn = Gaussian(np.zeros(n), cov=Gam)
                Mn = Model(lambda x: x + c3 * x ** 3, range_geometry=n, domain_geometry=n, jacobian=lambda x: np.diag(1 + 3 * c3 * x ** 2))
                yn = Gaussian(Mn(xn), cov=sc * ar1(n, 0.5))
                BPn = BayesianProblem(yn, xn).set_data(yn=b[:n] / 4.0)
            for which in ("MAP", "ML"):
                key = f"{which}:opt-scale:{cls}:nonlinear"
                ctx.case("scale-nl-" + which, {**desc, "call": which})
                try:
                    with quiet():
                        xv = np.asarray(getattr(BPn, which)(disp=False), dtype=float).ravel()
                except Exception as e:
                    ctx.note(f"{key} raises {exc_name(e)} at scale {sc}"); continue
                oracle_point(ctx, key, {**desc, "returned": xv.tolist()}, BPn.posterior if which == "MAP" else BPn.likelihood, xv, None, rs,
                             tol_point=2e-3, tol_logd=1e-7, grad_tol=1e-5, what=which)


# ----------------------------------------------------------------------------------------------- G5: setter histories on the Gaussians
def spec_token(spec):
    """driver token of the raw value assigned through a setter (force_ndarray semantics)"""
    if spec.shape == "scalar":
        return "m:" + sq(F(spec.value))
    if spec.shape == "vector":
        return "v:" + sv([F(x) for x in spec.value])
    return "m:" + sm(fmat(spec.value))


def run_histories(ctx, cuqi, rs, thorough):
    """one Gaussian object (prior or noise), specified by cov / prec / sqrtcov / sqrtprec, goes through a history of
    `compute_cov()` calls and re-assignments of its main matrix (scalar, vector, matrix values); then MAP() and
    sample_posterior() must be those of the CURRENT problem or refuse.  Model: `CovState.run` (theorem cov_never_stale)."""
    from cuqi.distribution import Gaussian
    from cuqi.model import LinearModel
    from cuqi.problem import BayesianProblem
    nprob = 480 if thorough else 64
    params = ["prec", "cov", "sqrtcov", "sqrtprec"]
    hists = [["cc", "set"], ["cc", "set", "cc"], ["set"], ["set", "cc"], ["cc", "set", "set"], ["cc", "set", "cc", "set"], ["replace"], ["cc", "set", "replace-same"]]
    probs, lines = [], []
    for k in range(nprob):
        side = "prior" if k % 2 == 0 else "lik"
        param = params[(k // 2) % 4]
        hist_ops = hists[(k // 8) % len(hists)]
        n = int(rs.randint(1, 5)); m = n + int(rs.randint(0, 3))
        A = rs.randint(-3, 4, size=(m, n)).astype(float)
        mean = rs.randint(-2, 3, size=n).astype(float); b = rs.randint(-4, 5, size=m).astype(float)
        d = n if side == "prior" else m
        specs = [gen_spec(rs, d, param)]
        other = gen_spec(rs, m if side == "prior" else n, "cov", ["scalar", "matrix"][k % 2])
        ops = []
        for o in hist_ops:
            if o in ("set", "replace"):
                specs.append(gen_spec(rs, d, param))
                ops.append((o, specs[-1]))
            elif o == "replace-same":
                ops.append((o, specs[-1]))
            else:
                ops.append((o, specs[-1]))
        cur = specs[-1]
        # model: state of `_cov` after the history
        init = spec_token(specs[0]) if param == "cov" else "none"
        toks = []
        for o, sp in ops:
            if o == "cc":
                toks.append("cc:m:" + sm(sp.cov))
            elif o == "set":
                toks.append("set:" + spec_token(sp))
        if any(o.startswith("replace") for o, _ in ops):   # a new object: its own initial state
            init = spec_token(cur) if param == "cov" else "none"; toks = []
        probs.append(dict(side=side, param=param, ops=ops, A=A, mean=mean, b=b, n=n, m=m, first=specs[0], cur=cur, other=other, k=k))
        lines.append(f"covstate {int(param == 'cov')} {init} " + " ".join(toks))
        We = cur.prec if side == "lik" else other.prec
        Wx = cur.prec if side == "prior" else other.prec
        lines.append(f"ref {qm(A)} {sm(We)} {sm(Wx)} {qv(mean)} {qv(b)}")
    outs = ctx.lean.drive(lines)
    lines2 = []
    for i, pr in enumerate(probs):
        attr = outs[2 * i]; pr["ref"] = outs[2 * i + 1]
        oattr = pr["other"].cov_attr(False)
        ce, cx = (oattr, attr) if pr["side"] == "prior" else (attr, oattr)
        args = f"m:{qm(pr['A'])} {pr['m']} {pr['n']} {ce} {cx} v:{qv(pr['mean'])} v:{qv(pr['b'])}"
        lines2 += ["map " + args, "centre " + args]
    outs2 = ctx.lean.drive(lines2)
    hist = {}
    for i, pr in enumerate(probs):
        mmod, cmod = outs2[2 * i], outs2[2 * i + 1]
        opnames = "-".join(o for o, _ in pr["ops"])
        key = f"MAP:history:{pr['side']}:{pr['param']}:{opnames}:{pr['cur'].shape}"
        desc = {"side": pr["side"], "param": pr["param"], "history": [(o, sp.shape, sp.value) for o, sp in pr["ops"]], "initial": [pr["first"].shape, pr["first"].value], "MAP_and_sample_requested": ["before the operations", "before and between the operations", "before the operations", "only after"][pr["k"] % 4],
                "other": [pr["other"].param, pr["other"].shape, pr["other"].value], "A": pr["A"].tolist(), "mean": pr["mean"].tolist(), "b": pr["b"].tolist()}
        ctx.case("history-" + pr["side"] + "-" + pr["param"], desc)
        try:
            with quiet():
                M = LinearModel(pr["A"])
                if pr["side"] == "prior":
                    x = Gaussian(pr["mean"], **pr["first"].kwargs()); y = Gaussian(M(x), **pr["other"].kwargs())
                else:
                    x = Gaussian(pr["mean"], **pr["other"].kwargs()); y = Gaussian(M(x), **pr["first"].kwargs())
                BP = BayesianProblem(y, x).set_data(y=pr["b"])
                # estimates are requested BEFORE and BETWEEN the operations too (a sweep over parameters of one problem):
                # whatever those calls leave behind must not influence the estimate of the CURRENT problem
                def precall():
                    st_ = np.random.get_state()
                    try:
                        for fn in (lambda: BP.MAP(disp=False), lambda: BP.sample_posterior(1)):
                            try:
                                fn()
                            except Exception:
                                pass
                    finally:
                        np.random.set_state(st_)
                if pr["k"] % 4 != 3:
                    precall()
                for o, sp in pr["ops"]:
                    if pr["k"] % 4 == 1:
                        precall()
                    g = BP.prior if pr["side"] == "prior" else BP.likelihood.distribution
                    if o == "cc":
                        g.compute_cov()
                    elif o == "set":
                        setattr(g, pr["param"], list(sp.kwargs().values())[0])
                    else:   # replace the whole Gaussian through the problem's setter
                        if pr["side"] == "prior":
                            BP.prior = Gaussian(pr["mean"], **sp.kwargs())
                        else:
                            BP.likelihood = Gaussian(M(x), name="y", **sp.kwargs()).to_likelihood(pr["b"])
        except Exception as e:
            hist["history_raises:" + exc_name(e)] = hist.get("history_raises:" + exc_name(e), 0) + 1
            ctx.note(f"history construction raises {exc_name(e)}: {str(e)[:90]} at {key}")
            continue
        if not pr["ref"].startswith("mean="):
            continue
        rmean = np.array([float(v) for v in pv(pr["ref"].split(" ")[0][5:])])
        rcov = np.array([[float(v) for v in r] for r in pm(pr["ref"].split(" ")[1][4:])])
        # MAP
        try:
            with quiet():
                xm = BP.MAP(disp=False)
            impl = ("ok", np.asarray(xm, dtype=float).ravel())
        except Exception as e:
            impl = ("err", exc_name(e))
        mk, mv = parse_arr(mmod)
        if mk == "err" and mv == "LinAlgError:singular":
            mv = "LinAlgError"
        hist[f"{impl[0]}:{impl[1] if impl[0] == 'err' else ''}"] = hist.get(f"{impl[0]}:{impl[1] if impl[0] == 'err' else ''}", 0) + 1
        if impl[0] == "err":
            if mk != "err" or mv != impl[1]:
                ctx.disagree(key, desc, mmod[:200], "raises " + impl[1], "MAP after the history: model value vs implementation exception")
        else:
            mvv = None if mk == "err" else np.atleast_1d(np.asarray(mv, dtype=float)).ravel()
            if mk == "err" or mvv.shape != impl[1].shape or not vclose(impl[1], mvv, TOL):
                ctx.disagree(key, desc, mmod[:200], impl[1].tolist(), "MAP after the history: model vs implementation")
            oracle_point(ctx, key, desc, BP.posterior, impl[1], rmean, rs, what="MAP after " + opnames)
        # direct sampler
        skey = key.replace("MAP:", "sample:", 1)
        n = pr["n"]
        script = [np.zeros(n)] + [np.eye(n)[:, j].copy() for j in range(n)]
        calls = []
        orig = np.random.randn
        np.random.randn = lambda *a: (calls.append(a), script[len(calls) - 1].copy())[1]
        try:
            try:
                with quiet():
                    S = BP.sample_posterior(len(script))
                si = ("ok", np.asarray(S.samples, dtype=float).copy())
            except Exception as e:
                si = ("err", exc_name(e))
        finally:
            np.random.randn = orig
        ck, cv = parse_arr(cmod)
        if ck == "err" and cv == "LinAlgError:singular":
            cv = "LinAlgError"
        ctx.case("history-sample", desc)
        if si[0] == "err":
            if ck != "err" or cv != si[1]:
                ctx.disagree(skey, desc, cmod[:200], "raises " + si[1], "sample_posterior after the history: model vs implementation exception")
            continue
        X = si[1]; centre = X[:, 0]; L = X[:, 1:n + 1] - centre[:, None]
        if ck == "err" or not vclose(centre, np.atleast_1d(np.asarray(cv, dtype=float)).ravel(), TOL):
            ctx.disagree(skey, desc, cmod[:200], centre.tolist(), "centre of the direct draws after the history: model vs implementation")
        if not vclose(centre, rmean, 1e-7):
            ctx.fail(skey, desc, "offset of the draws = current posterior mean " + str(rmean.tolist()), centre.tolist(), "direct draws after the history are not centred on the current posterior mean")
        else:
            mm_ = cov_mismatch(L @ L.T, rcov)
            if mm_:
                ctx.fail(skey, desc, "L L^T = current posterior covariance " + str(rcov.tolist())[:300], (L @ L.T).tolist(), "direct draws after the history do not have the current posterior covariance: " + mm_)
    ctx.extra_cov["history_histogram"] = hist


# ----------------------------------------------------------------------------------------------- sizes straddling internal constants
def run_threshold(ctx, cuqi, rs, thorough):
    """dimensions just below / at / above `config.MIN_DIM_SPARSE` (75: Gaussians switch to sparse storage) on the direct
    route; oracle only (float reference by numpy normal equations; the exact model would be too slow at this size)"""
    from cuqi.distribution import Gaussian
    from cuqi.model import LinearModel
    from cuqi.problem import BayesianProblem
    T = int(cuqi.config.MIN_DIM_SPARSE)
    sizes = [(T + 1, T + 1), (T, T + 1), (T + 1, T - 1), (T - 1, T)] + ([(T + 2, T + 1), (T, T), (T + 1, T), (T - 1, T + 2)] if thorough else [])
    for k, (m, n) in enumerate(sizes):
        A = np.zeros((m, n))
        for i in range(m):
            for j in range(max(0, i - 2), min(n, i + 3)):
                A[i, j] = float(rs.randint(-2, 3))
            if i < n:
                A[i, i] += 4.0
        mean = rs.randint(-2, 3, size=n).astype(float); b = rs.randint(-4, 5, size=m).astype(float)
        pshape = ["scalar", "vector", "matrix"][k % 3]; lshape = ["vector", "scalar", "matrix"][k % 3]

        def val(shape, d):
            if shape == "scalar":
                return float(rs.choice([0.5, 2.0]))
            if shape == "vector":
                return rs.choice([0.5, 1.0, 2.0, 4.0], size=d).astype(float)
            return 2.0 * np.eye(d) + 0.5 * (np.eye(d, k=1) + np.eye(d, k=-1))

        def full(v, d):
            return v * np.eye(d) if np.ndim(v) == 0 else (np.diag(v) if np.ndim(v) == 1 else v)
        cx, ce = val(pshape, n), val(lshape, m)
        Wx, We = np.linalg.inv(full(cx, n)), np.linalg.inv(full(ce, m))
        H = A.T @ We @ A + Wx
        ref = np.linalg.solve(H, A.T @ We @ b + Wx @ mean)
        desc = {"m": m, "n": n, "MIN_DIM_SPARSE": T, "prior_cov": pshape, "noise_cov": lshape, "seed_k": k}
        key = f"MAP:direct:threshold:m{'<=' if m <= T else '>'}T:n{'<=' if n <= T else '>'}T:lik=cov-{lshape}:prior=cov-{pshape}"
        ctx.case("threshold", desc)
        try:
            with quiet():
                x = Gaussian(mean, cov=cx); y = Gaussian(LinearModel(A)(x), cov=ce)
                BP = BayesianProblem(y, x).set_data(y=b)
                xm = np.asarray(BP.MAP(disp=False), dtype=float).ravel()
        except Exception as e:
            ctx.note(f"{key} raises {exc_name(e)}: {str(e)[:80]}"); continue
        oracle_point(ctx, key, desc, BP.posterior, xm, ref, rs, tol_point=1e-7, what="MAP")
        orig = np.random.randn
        np.random.randn = lambda *a: np.zeros(a)
        try:
            with quiet():
                S = BP.sample_posterior(1)
            s1 = np.asarray(S.samples, dtype=float)[:, 0]
            if not vclose(s1, ref, 1e-7):
                ctx.fail(key.replace("MAP:", "sample:", 1), desc, "draw for xi=0 = posterior mean", s1.tolist()[:10], "direct draw at a size straddling MIN_DIM_SPARSE is not centred on the posterior mean")
        except Exception as e:
            ctx.note(f"{key} sample raises {exc_name(e)}")
        finally:
            np.random.randn = orig
