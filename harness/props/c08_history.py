"""C08, session-3 extension — histories of an experimental NUTS sampler object (Model/C08_history.lean, Props/C08_history.lean).

Operations: S = `sample(1)` under scripted draws, R = `reinitialize()`, C = checkpoint round trip into ANOTHER sampler object
(constructed with a different initial point, step size and depth bound, initialised, then `set_state(get_state())` or
`save_checkpoint`/`load_checkpoint` through a pickle file) — afterwards the other object is the one that continues.
Histories of 2..5 operations; the model runs the same operations (driver op `history`) starting every transition from the
cached state triple.

* tie: current point, cached log-density, cached gradient after EVERY operation; accept flag and uniforms consumed per transition;
* oracle (implementation only): after every operation the cached log-density and gradient are those of the current point; after
  a checkpoint round trip the receiving object has the sender's point, step size and depth bound; on a broken tie of a
  transition a fresh sampler started from the implementation's own state with the same draws must agree.
"""
import os, tempfile
import numpy as np
from fractions import Fraction
from harness.core import quiet, q, qv, qm, pv, close, vclose

WALLVAL = {"nan": float("nan"), "inf": float("inf"), "-inf": float("-inf")}
PATTERNS = ["SCS", "SRS", "CS", "RS", "SSCS", "SCSCS", "SRSCS", "SCRS", "SSRS", "SCSS",
            "STS", "SSTS", "STSTS", "TS", "SCTS", "STSRS", "STS", "SSTSS"]   # T = target replaced, then restart (HybridGibbs per-sweep pattern)


def history_stream(ctx, cuqi, rng, n):
    from harness.props.c08 import gen_case, gen_tight, make_target, Script, scripted
    from cuqi.experimental.mcmc import NUTS
    jobs = []; lines = []
    for i in range(n):
        pat = rng.choice(PATTERNS)
        # after reinitialize() the depth bound is 15: only well-conditioned targets with a moderate step size there (U-turn within ~2^6 leaves)
        c = gen_tight(rng, False) if (i % 4 == 3 and "R" not in pat and "T" not in pat) else gen_case(rng, False)
        c["int_x0"] = False; c["md"] = min(c["md"], 4)
        nu = 3 * (2 ** (c["md"] + 1)) + 8
        if "R" in pat or "T" in pat:          # reinitialize() resets max_depth to the default 15 (see Model/C08_history.lean): keep trajectories short
            c["eps"] = max(c["eps"], 1 / 4); nu = 800
        ops = []
        for ch in pat:
            if ch == "S":
                ops.append(("S", [rng.randint(-12, 12) / 8 for _ in range(c["d"])], rng.randint(1, 40) / 16, [rng.randint(1, 1023) / 1024 for _ in range(nu)]))
            elif ch == "T":
                # a NEW quadratic target of the same dimension (no wall), then `initial_point = current_point` (75 %) and reinitialize()
                c2 = gen_case(rng, False)
                while c2["d"] != c["d"]:
                    c2 = gen_case(rng, False)
                ops.append(("T", c2["P"], c2["b"], 1 if rng.random() < 0.75 else 0))
            else:
                ops.append((ch, rng.choice(["state", "file", "self"]) if ch == "C" else None, rng.choice([0.75, -1.5, 2.0]), rng.choice([0.5, 2.0, 0.25])))
        c["ops"] = ops; c["pattern"] = pat
        toks = []
        for op in ops:
            if op[0] == "S":
                toks.append("S %s %s %s" % (qv(op[1]), q(op[2]), qv(op[3])))
            elif op[0] == "T":
                toks.append("T %s %s none %d" % (qm(op[1]), qv(op[2]), op[3]))
            elif op[0] == "C" and op[1] != "self":
                toks.append("CO %s %s" % (qv([v + op[2] for v in c["x"]]), q(c["eps"] * op[3])))
            else:
                toks.append(op[0])
        lines.append("history 1 %d %s %s %s %s %s %s" % (c["md"], q(c["eps"]), qm(c["P"]), qv(c["b"]),
                     "none" if c["wall"] is None else q(c["wall"]) + ":" + c.get("wall_kind", "nan"), qv(c["x"]), " ".join(toks)))
        jobs.append(c)
    outs = ctx.lean.drive(lines)
    hist = {"histories": 0, "ops": {"S": 0, "R": 0, "C": 0, "T": 0}, "retarget_restart_here": 0, "roundtrip_kind": {"state": 0, "file": 0, "self": 0}, "patterns": {},
            "transitions_compared": 0, "accepted": 0, "skipped_margin": 0}
    tmpdir = tempfile.mkdtemp(prefix="c08hist")
    for c, mo in zip(jobs, outs):
        key = "NUTS:exp:history"
        desc = {k: c[k] for k in ("d", "P", "b", "eps", "md", "x", "wall", "wall_kind", "pattern")}
        desc["ops"] = [[op[0]] + ([op[1], op[2], op[3][:6]] if op[0] == "S" else list(op[1:])) for op in c["ops"]]
        if mo in ("bad-op", "err-nonfinite-start"):
            continue
        segs = [[t.strip() for t in seg.split("|")] for seg in mo.split("::")]
        if any(sg[5] not in ("-",) and float(Fraction(sg[5])) < 1e-7 for sg in segs) or any(sg[3] == "err" for sg in segs):
            hist["skipped_margin"] += 1; continue
        target, calls = make_target(cuqi, c["P"], c["b"], c["wall"], c.get("wall_kind", "nan"))
        x0 = np.array(c["x"], float)
        try:
            with quiet(), np.errstate(all="ignore"):
                s = NUTS(target, initial_point=x0.copy(), max_depth=c["md"], step_size=c["eps"])
                s._ensure_initialized()
        except Exception as ex:
            ctx.disagree(key + ":crash", desc, mo[:60], repr(ex)[:200], "construction raised"); continue
        ctx.case("history-exp", desc); hist["histories"] += 1
        hist["patterns"][c["pattern"]] = hist["patterns"].get(c["pattern"], 0) + 1
        stop = False
        for idx, (op, sg) in enumerate(zip(c["ops"], segs)):
            hist["ops"][op[0]] += 1
            d2 = dict(desc, failing_operation_index=idx)
            before = np.asarray(s.current_point, float).ravel().copy()
            md_before, eps_before = int(s.max_depth), float(s._epsilon)
            sc = None
            try:
                with quiet(), np.errstate(all="ignore"):
                    if op[0] == "S":
                        sc = Script([op[1]], [op[2]], op[3])
                        with scripted(sc):
                            s.sample(1)
                    elif op[0] == "R":
                        s.reinitialize()
                    elif op[0] == "T":
                        target, calls = make_target(cuqi, op[1], op[2], None)
                        s.target = target
                        if op[3]:
                            s.initial_point = s.current_point      # the very same object, as HybridGibbs does
                            hist["retarget_restart_here"] += 1
                        s.reinitialize()
                    else:
                        hist["roundtrip_kind"][op[1]] += 1
                        if op[1] == "self":
                            s.set_state(s.get_state())
                        else:
                            other = NUTS(target, initial_point=x0 + op[2], max_depth=c["md"] + 1, step_size=c["eps"] * op[3])
                            other._ensure_initialized()
                            if op[1] == "state":
                                other.set_state(s.get_state())
                            else:
                                path = os.path.join(tmpdir, "ck.pkl")
                                s.save_checkpoint(path); other.load_checkpoint(path)
                            if not (np.array_equal(np.asarray(other.current_point, float).ravel(), before)
                                    and float(other._epsilon) == float(s._epsilon) and other.max_depth == s.max_depth):
                                ctx.fail(key + ":roundtrip", d2, {"point": before.tolist(), "epsilon": float(s._epsilon), "max_depth": s.max_depth},
                                         {"point": np.asarray(other.current_point, float).ravel().tolist(), "epsilon": float(other._epsilon), "max_depth": other.max_depth},
                                         "the checkpoint round trip does not transfer the current point / step size / depth bound")
                                stop = True
                            s = other
            except NameError:
                stop = True          # 'NaN potential func' — judged by the transition stream
            except Exception as ex:
                ctx.disagree(key + ":crash", d2, " | ".join(sg)[:80], repr(ex)[:200], f"operation {op[0]} raised"); stop = True
            if stop:
                break
            xs = np.asarray(s.current_point, float).ravel(); ls = float(s.current_target_logd); gs = np.asarray(s.current_target_grad, float).ravel()
            # ---- oracle: caches belong to the current point after every operation ---------------------------------------------------
            with quiet(), np.errstate(all="ignore"):
                l_true = float(target.logd(xs)); g_true = np.asarray(target.gradient(xs), float).ravel()
            bad = False
            if not close(ls, l_true, 1e-9) or not vclose(gs, g_true, 1e-9):
                ctx.fail(key + ":cache", d2, {"point": xs.tolist(), "logd": l_true, "grad": g_true.tolist()}, {"logd": ls, "grad": gs.tolist()},
                         f"after operation {idx} ({op[0]}) of the history the cached log-density/gradient do not belong to the current point")
                bad = True
            # ---- tie ---------------------------------------------------------------------------------------------------------------------
            m_x = [float(v) for v in pv(sg[0])]; m_g = [float(v) for v in pv(sg[2])]
            m_l = WALLVAL[sg[1]] if sg[1] in WALLVAL else float(Fraction(sg[1]))
            diff = None
            if not vclose(xs, m_x, 1e-7): diff = ("current point", m_x, xs.tolist())
            elif not close(ls, m_l, 1e-7): diff = ("cached log-density", m_l, ls)
            elif not vclose(gs, m_g, 1e-7): diff = ("cached gradient", m_g, gs.tolist())
            elif op[0] == "S" and sc.n_rand != int(sg[4]): diff = ("uniform draws consumed", int(sg[4]), sc.n_rand)
            elif int(s.max_depth) != int(sg[6]): diff = ("max_depth in force", int(sg[6]), int(s.max_depth))
            elif not close(float(s._epsilon), float(Fraction(sg[7])), 1e-12): diff = ("step size in force", float(Fraction(sg[7])), float(s._epsilon))
            if op[0] == "S":
                hist["transitions_compared"] += 1; hist["accepted"] += sg[3] == "1"
            if diff:
                ctx.disagree(key + ":cache" if bad else key, d2, {diff[0]: diff[1]}, {diff[0]: diff[2]}, f"{diff[0]} after operation {idx} ({op[0]}) differs from the model")
                if not bad and op[0] == "S":
                    sc2 = Script([op[1]], [op[2]], op[3])
                    try:
                        with quiet(), np.errstate(all="ignore"):
                            fr = NUTS(target, initial_point=before.copy(), max_depth=md_before, step_size=eps_before); fr._ensure_initialized()
                            with scripted(sc2):
                                fr.sample(1)
                        xf = np.asarray(fr.current_point, float).ravel()
                        if not vclose(xf, xs, 1e-9):
                            ctx.fail(key, d2, {"fresh sampler from the same point, same draws": xf.tolist()}, xs.tolist(),
                                     "a transition inside a history (after reinitialize / checkpoint round trip / earlier transitions) depends on more than the current point, "
                                     "the step size and the draws")
                    except Exception:
                        pass
                elif not bad and op[0] in ("R", "T"):
                    home = np.asarray(s.initial_point, float).ravel()
                    if not vclose(xs, home, 0):
                        ctx.fail(key, d2, home.tolist(), xs.tolist(), "reinitialize() does not return to the object's initial point")
                elif not bad and op[0] == "C":
                    if not vclose(xs, before, 0):
                        ctx.fail(key + ":roundtrip", d2, before.tolist(), xs.tolist(), "the checkpoint round trip changed the current point")
                break
    try:
        for fn in os.listdir(tmpdir):
            os.remove(os.path.join(tmpdir, fn))
        os.rmdir(tmpdir)
    except OSError:
        pass
    ctx.extra_cov["c08_history"] = hist
