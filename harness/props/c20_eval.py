"""C20, session-3 extension: tie streams for `lean/CuqiVerif/Model/C20_eval.lean`.

  * ctor-glue : FirstOrder/SecondOrder/PrecisionFiniteDifference constructors on generated argument tuples
                (num_nodes forms, boundary-condition strings, dx, order; degenerate sizes) against
                `firstCtor` / `secondCtor` / `precCtor` (refusals + exact matrices, `/dx`, `/dx²` included);
  * mrf-glue  : geometry -> num_nodes of LMRF/CMRF/GMRF (`mrfNodes`), declared rank per bc string (`gmrfRank`);
  * mrf-eval  : LMRF/CMRF/GMRF logpdf (as `LogForm`s evaluated here in floating point) and CMRF/GMRF gradients,
                with scalar / length-1 / vector locations and broadcasting evaluation points (`bshift`).

When model and implementation differ the oracle judges the implementation ALONE against a reference written from the
documented stencils (closed forms of the `*_apply` theorems) in numpy — not against the Lean model.
"""
import math
from fractions import Fraction
import numpy as np
from harness.core import quiet, pm, pv, q, qv, close, vclose, mclose

BCS = ["zero", "periodic", "neumann", "backward", "none"]


def dense(M):
    return np.asarray(M.todense()) if hasattr(M, "todense") else np.asarray(M)


MARGINS = {}


def _mg(name, ratio):
    """record the largest observed deviation/tolerance ratio of a floating-point comparison (1.0 = at the tolerance)"""
    try:
        r = float(ratio)
    except Exception:
        return
    if r == r and r != float("inf"):
        MARGINS[name] = max(MARGINS.get(name, 0.0), r)


def _ratio(a, b, tol):
    a = np.asarray(a, float); b = np.asarray(b, float)
    if a.shape != b.shape or a.size == 0:
        return 0.0
    with np.errstate(all="ignore"):
        r = np.abs(a - b) / (tol * (1.0 + np.maximum(np.abs(a), np.abs(b))))
    r = r[np.isfinite(r)]
    return float(r.max()) if r.size else 0.0


# ---------------------------------------------------------------------------------------------- documented reference
def doc_stencil(order, bc, n):
    """documented 1-D stencil (rows = the statements of the `*_apply` theorems), or None where undocumented"""
    if order == 0 or bc == "none" and order == 1:
        return np.eye(n)
    x = lambda k: (np.eye(n)[k] if 0 <= k < n else np.zeros(n))
    xm = lambda k: np.eye(n)[k % n]
    if order == 1:
        if bc == "zero":
            return np.array([x(i) - x(i - 1) for i in range(n + 1)]).reshape(n + 1, n)
        if bc == "periodic" and n >= 2:
            return np.array([xm(i) - xm(i - 1) for i in range(n + 1)])
        if bc == "neumann":
            return np.array([x(i + 1) - x(i) for i in range(n - 1)]).reshape(max(n - 1, 0), n)
        if bc == "backward":
            return np.array([x(0)] + [x(i - 1) - x(i) for i in range(1, n)])
    if order == 2:
        if bc == "zero":
            return np.array([-x(i - 2) + 2 * x(i - 1) - x(i) for i in range(n + 2)])
        if bc == "neumann" and n >= 2:
            return np.array([-x(i) + 2 * x(i + 1) - x(i + 2) for i in range(n - 2)]).reshape(n - 2, n)
        if bc == "periodic" and n >= 3:
            return np.array([-xm(i - 2) + 2 * xm(i - 1) - xm(i) for i in range(n + 2)])
    return None


def doc_operator(order, bc, n, pd):
    D = doc_stencil(order, bc, n)
    if D is None or pd == 1:
        return D
    I = np.eye(n)
    return np.vstack([np.kron(I, D), np.kron(D, I)])


def eval_form(s):
    """`const;pi;c:a,c:a,...` -> float  (const + pi*log(pi) + sum c*log(a)); nan when some a <= 0"""
    c0, cp, logs = s.split(";")
    v = float(Fraction(c0)) + float(Fraction(cp)) * math.log(math.pi)
    if logs != "_":
        for t in logs.split(","):
            c, a = t.split(":")
            a = Fraction(a)
            if a <= 0:
                return float("nan")
            v += float(Fraction(c)) * (math.log(a.numerator) - math.log(a.denominator))
    return v


# ---------------------------------------------------------------------------------------------- streams
def run_eval(ctx, cuqi, thorough):
    from cuqi.operator import FirstOrderFiniteDifference, SecondOrderFiniteDifference, PrecisionFiniteDifference
    from cuqi.distribution import GMRF, LMRF, CMRF
    from cuqi.geometry import Image2D, Continuous1D, Continuous2D, Discrete
    rng = np.random.RandomState(ctx.seed + 2033)
    cov = {"ctor_outcome": {}, "ctor_nodes_kind": {}, "ctor_refusal_class_match": {"same": 0, "other": 0},
           "mrf_eval_family": {}, "mrf_eval_location": {}, "mrf_eval_point": {}, "mrf_eval_outcome": {}, "mrf_nodes": {}}

    def bump(h, k):
        cov[h][k] = cov[h].get(k, 0) + 1

    def stream_A():
        # ------------------------------------------------------------------ (A) constructor glue
        def nodes_variants(n):
            m = n + 1 + int(rng.randint(0, 3))
            return [("int", n, f"i:{n}"), ("np.int64", np.int64(n), f"i:{n}"), ("np.int32", np.int32(n), f"i:{n}"),
                    ("tuple1", (n,), f"t:{n}"), ("square", (n, n), f"t:{n},{n}"), ("square-np", (np.int64(n), n), f"t:{n},{n}"),
                    ("nonsquare", (n, m), f"t:{n},{m}"), ("triple", (n, n, n), f"t:{n},{n},{n}"), ("empty-tuple", (), "t:"),
                    ("float", float(n), "o"), ("list", [n, n], "o"), ("float-tuple", (float(n), float(n)), "o"), ("str", str(n), "o"),
                    ("none", None, "o")]

        bc_pool = BCS + ["Zero", "dirichlet", "", None]
        dx_pool = [None, None, 0.5, 2, 0.7, 4.0, -1.5, 0.1, 3, 0, 0.0, 1e-3, np.float64(0.25)]
        jobs = []
        # structured part: every (size, kind of num_nodes) with a valid bc, then random mixtures
        sizes = list(range(-2, 7))
        for n in sizes:
            for kind, arg, enc in nodes_variants(n):
                if kind in ("np.int32", "square-np", "str", "none", "float-tuple") and n not in (0, 3):
                    continue
                for cls in ("first", "second"):
                    bc = BCS[rng.randint(0, 5)] if cls == "first" else ["zero", "periodic", "neumann"][rng.randint(0, 3)]
                    jobs.append((cls, kind, arg, enc, bc, None if rng.rand() < 0.6 else dx_pool[rng.randint(0, len(dx_pool))]))
                jobs.append(("prec", kind, arg, enc, BCS[rng.randint(0, 5)], int(rng.randint(-1, 4))))
        # every bc string (valid and invalid) x degenerate and regular sizes x both dimensions
        for bc in bc_pool:
            for n in (0, 1, 2, 3, 5):
                for cls in ("first", "second"):
                    jobs.append((cls, "int", n, f"i:{n}", bc, None))
                    if n <= 3:
                        jobs.append((cls, "square", (n, n), f"t:{n},{n}", bc, None))
                for o in (0, 1, 2):
                    jobs.append(("prec", "int", n, f"i:{n}", bc, o))
        # dx: every pool value on both classes, 1-D and 2-D
        for dx in dx_pool[2:]:
            for cls in ("first", "second"):
                for bc in ("zero", "periodic", "neumann"):
                    jobs.append((cls, "int", 4, "i:4", bc, dx))
                jobs.append((cls, "square", (3, 3), "t:3,3", "zero", dx))
        for _ in range(60 if not thorough else 1500):
            n = int(rng.randint(-1, 9))
            kind, arg, enc = nodes_variants(n)[rng.randint(0, 14)]
            cls = ["first", "second", "prec"][rng.randint(0, 3)]
            bc = bc_pool[rng.randint(0, len(bc_pool))] if rng.rand() < 0.3 else BCS[rng.randint(0, 5)]
            third = int(rng.randint(-1, 4)) if cls == "prec" else dx_pool[rng.randint(0, len(dx_pool))]
            jobs.append((cls, kind, arg, enc, bc, third))

        def enc_dx(dx):
            return "None" if dx is None else q(float(dx))

        lines = []
        for cls, kind, arg, enc, bc, third in jobs:
            op = {"first": "ctor1", "second": "ctor2", "prec": "ctorP"}[cls]
            bcs = "None" if bc is None else ("<empty>" if bc == "" else bc)
            lines.append(f"{op} {enc} {bcs} {third if cls == 'prec' else enc_dx(third)}")
        outs = yield lines
        for (cls, kind, arg, enc, bc, third), line, out in zip(jobs, lines, outs):
            desc = {"class": cls, "num_nodes": repr(arg), "bc_type": bc, ("order" if cls == "prec" else "dx"): None if third is None else float(third) if cls != "prec" else third}
            bump("ctor_nodes_kind", kind)
            try:
                with quiet(), np.errstate(all="ignore"):
                    if cls == "first":
                        A = dense(FirstOrderFiniteDifference(arg, bc, dx=third).get_matrix())
                    elif cls == "second":
                        A = dense(SecondOrderFiniteDifference(arg, bc, dx=third).get_matrix())
                    else:
                        A = dense(PrecisionFiniteDifference(arg, bc_type=bc, order=third).get_matrix())
                impl = "ok"
            except Exception as e:
                impl = "err:" + type(e).__name__
                A = None
            nontrivial = impl == "ok" and A.size > 0
            ctx.case("ctor-glue", desc, nontrivial=nontrivial)
            if out == "bad-op":
                ctx.note(f"driver refused a ctor line: {line}")
                continue
            pd = 2 if (isinstance(arg, tuple) and len(arg) == 2) else 1
            key = f"ctor:{cls}:{pd}D:{bc}:{kind}"
            if out.startswith("err:") or impl.startswith("err:"):
                bump("ctor_outcome", out if out.startswith("err:") else "model-ok/impl-" + impl)
                if out.startswith("err:") and impl.startswith("err:"):
                    bump("ctor_refusal_class_match", "same" if out == impl else "other")
                    continue
                ctx.disagree(key + ":refusal", desc, out[:80], impl if A is None else f"ok shape {A.shape}", "constructor refusal differs")
                # oracle: a configuration inside the property's range (valid bc, order, n >= 3, dx != 0) must be available and be the stencil
                n = arg if isinstance(arg, (int, np.integer)) else (arg[0] if isinstance(arg, tuple) and len(arg) in (1, 2) and all(isinstance(t, (int, np.integer)) for t in arg) and len(set(arg)) == 1 else None)
                in_range = n is not None and n >= 3 and bc in BCS and (cls != "prec" or third in (0, 1, 2)) and (cls == "prec" or third is None or (float(third) != 0 and pd == 1)) \
                    and (cls == "first" or (cls == "second" and bc in ("zero", "periodic", "neumann")) or (cls == "prec" and (third < 2 or bc in ("zero", "periodic", "neumann"))))
                if in_range and impl.startswith("err:"):
                    ctx.fail(key + ":refusal", desc, "an operator (configuration inside the documented range)", impl, "the constructor refuses a documented configuration")
                continue
            bump("ctor_outcome", "ok")
            toks = out.split(" ")
            r, c = int(toks[0]), int(toks[1])
            M = np.array([[float(v) for v in row] for row in pm(toks[2])]).reshape(r, c) if toks[2] != "_" and r * c > 0 else np.zeros((r, c))
            scaled = cls != "prec" and third is not None
            same = A.shape == M.shape and (mclose(A, M, 1e-14) if scaled else np.array_equal(A, M))
            if scaled and A.shape == M.shape:
                _mg("ctor matrix with float dx vs exact rational (tol 1e-14)", _ratio(A, M, 1e-14))
            if not same:
                ctx.disagree(key, desc, out[:200], str(A.tolist())[:200], "constructed matrix differs from the model")
                n = int(arg) if pd == 1 and not isinstance(arg, tuple) else int(arg[0])
                order = third if cls == "prec" else (1 if cls == "first" else 2)
                ref = doc_operator(order, "none" if order == 0 else bc, n, pd)
                if ref is not None:
                    if cls == "prec":
                        ref = ref.T @ ref
                    elif scaled:
                        ref = ref / (float(third) ** order)
                    if ref.shape != A.shape or not mclose(A, ref, 1e-12):
                        ctx.fail(key, desc, str(ref.tolist())[:200], str(A.tolist())[:200],
                                 "operator is not the documented stencil (boundary rows, Kronecker stacking, /dx^order, D^T D)")

    def stream_B():
        # ------------------------------------------------------------------ (B) geometry -> num_nodes, declared rank
        geoms = [("int", lambda n: n, lambda n: f"{n}"), ("Continuous1D", lambda n: Continuous1D(n), lambda n: f"{n}"),
                 ("Discrete", lambda n: Discrete(n), lambda n: f"{n}")]
        gjobs = []
        for n in (1, 2, 3, 5, 8):
            for gname, mk, enc in geoms:
                gjobs.append((gname, mk(n), enc(n), n))
        for a, b in [(1, 1), (2, 2), (3, 3), (4, 4), (2, 3), (2, 8), (3, 5), (1, 4), (5, 5)]:
            gjobs.append(("Image2D", Image2D((a, b)), f"{a},{b}", a * b))
            gjobs.append(("Continuous2D", Continuous2D((a, b)), f"{a},{b}", a * b))
            gjobs.append(("tuple", (a, b), f"{a},{b}", a * b))
        glines = [f"mrfnodes {enc}" for _, _, enc, _ in gjobs]
        gouts = yield glines
        second = []
        for (gname, g, enc, dim), out in zip(gjobs, gouts):
            fam, cls = [("LMRF", LMRF), ("CMRF", CMRF), ("GMRF", GMRF)][rng.randint(0, 3)]
            bc = ["zero", "periodic", "neumann"][rng.randint(0, 3)]
            if fam == "GMRF" and "," in enc and len(set(enc.split(","))) != 1:
                fam, cls = "LMRF", LMRF      # GMRF on a non-square image fails inside its own constructor (shape mismatch): outside the glue modelled here
            desc = {"family": fam, "geometry": gname, "shape": enc, "bc": bc}
            ctx.case("mrf-glue", desc)
            bump("mrf_nodes", gname + ("" if not out.startswith("err") else ":refused"))
            try:
                with quiet():
                    d = cls(0.0, 1.0, bc_type=bc, geometry=g) if fam != "GMRF" else cls(np.zeros(dim), 1.0, bc_type=bc, geometry=g)
                impl = d._diff_op
            except Exception as e:
                impl = None
                ierr = type(e).__name__
            key = f"{fam}:glue:{gname}"
            if out.startswith("err:") or impl is None:
                if out.startswith("err:") != (impl is None):
                    # a singular-looking precision on tiny grids makes sparse_cholesky refuse (GMRF): a refusal, not a wrong operator
                    if fam == "GMRF" and impl is None and ierr in ("TypeError", "RuntimeError"):
                        ctx.note(f"GMRF refused {desc}: {ierr}")
                        continue
                    ctx.disagree(key + ":refusal", desc, out, "ok" if impl is not None else ierr, "geometry acceptance differs")
                    sq = "," in enc and len(set(enc.split(","))) == 1 and int(enc.split(",")[0]) >= 2
                    if impl is None and (("," not in enc and int(enc) >= 2) or sq):
                        ctx.fail(key + ":refusal", desc, "a prior on this grid", ierr, "the prior refuses a grid inside the documented range")
                continue
            second.append((key, desc, out, impl, fam, bc))
        slines = [f"ctor1 {out} {bc} None" for key, desc, out, impl, fam, bc in second]
        souts = yield slines
        for (key, desc, out, impl, fam, bc), sout in zip(second, souts):
            A = dense(impl.get_matrix())
            if sout.startswith("err:") or sout == "bad-op":
                ctx.disagree(key, desc, sout, f"operator {A.shape}", "model refuses the num_nodes the prior derived"); continue
            toks = sout.split(" ")
            r, c = int(toks[0]), int(toks[1])
            M = np.array([[float(v) for v in row] for row in pm(toks[2])]).reshape(r, c) if toks[2] != "_" and r * c > 0 else np.zeros((r, c))
            if A.shape != M.shape or not np.array_equal(A, M):
                ctx.disagree(key, desc, sout[:160], str(A.tolist())[:160], "the prior's difference operator is not the one of the model for this geometry")
                shape = [int(t) for t in desc["shape"].split(",")]
                if len(shape) == 1 or shape[0] == shape[1]:
                    ref = doc_operator(1, bc, shape[0], len(shape))
                    if ref is not None and (ref.shape != A.shape or not np.array_equal(A, ref)):
                        ctx.fail(key, desc, str(ref.tolist())[:160], str(A.tolist())[:160], "the prior evaluates through an operator that is not the documented first-order operator of its grid")
    def stream_R():
        rl = [(bc, dim) for bc in ["zero", "periodic", "neumann", "backward", "none", "Zero", "dirichlet"] for dim in (2, 5, 9)]
        routs = yield [f"gmrfrank {bc} {dim}" for bc, dim in rl]
        for (bc, dim), out in zip(rl, routs):
            desc = {"gmrf-bc": bc, "dim": dim}
            ctx.case("gmrf-rank-glue", desc)
            try:
                with quiet():
                    r = str(int(GMRF(np.zeros(dim), 1.0, bc_type=bc)._rank))
            except Exception as e:
                r = "err:" + type(e).__name__
            if r.startswith("err:") != out.startswith("err:") or (not r.startswith("err:") and r != out):
                ctx.disagree(f"GMRF:glue:rank:{bc}", desc, out, r, "declared rank / bc acceptance differs")
                if not r.startswith("err:") and bc == "zero" and int(r) != dim:
                    ctx.fail(f"GMRF:glue:rank:{bc}", desc, dim, r, "zero-boundary precision is positive definite: rank must be the dimension")
                elif r.startswith("err:") and bc in ("zero", "periodic", "neumann"):
                    ctx.fail(f"GMRF:glue:rank:{bc}", desc, "a field", r, "GMRF refuses a documented boundary condition")

    def stream_C():
        # ------------------------------------------------------------------ (C) evaluation: logpdf forms, gradients, broadcasting
        ejobs = []
        nconf = 70 if not thorough else 1200
        fams = ["lmrf", "cmrf", "gmrf"]
        for t in range(nconf):
            fam = fams[t % 3]
            pd = 1 if rng.rand() < 0.7 else 2
            order = 1 if fam != "gmrf" else int(rng.randint(0, 3))
            bc = BCS[rng.randint(0, 5)] if fam != "gmrf" else ["zero", "periodic", "neumann"][rng.randint(0, 3)]
            n = int(rng.randint(2, 9)) if pd == 1 else int(rng.randint(2, 5))
            dim = n if pd == 1 else n * n
            par = float(rng.choice([0.25, 0.5, 1.0, 2.0, 0.7, 3.0, 0.1]))
            lk = ["vector", "vector", "scalar", "list1", "array1"][rng.randint(0, 5)]
            xk = ["vector", "vector", "vector", "array1", "scalar", "short", "int-vector"][rng.randint(0, 7)]
            locv = rng.randint(-12, 13, size=dim) / 4.0
            if lk == "vector":
                loc_arg, loc_enc = locv.copy(), locv
            else:
                c = float(locv[0])
                loc_arg = {"scalar": c, "list1": [c], "array1": np.array([c])}[lk]; loc_enc = np.array([c])
            xv = rng.randint(-16, 17, size=dim) / 4.0
            if xk in ("vector",):
                x_arg, x_enc = xv.copy(), xv
            elif xk == "int-vector":
                xi = rng.randint(-4, 5, size=dim); x_arg, x_enc = xi.astype(np.int64), xi.astype(float)
            elif xk == "short":
                x_arg = xv[: dim - 1].copy(); x_enc = x_arg
            else:
                x_arg = np.array([xv[0]]) if xk == "array1" else float(xv[0]); x_enc = np.array([xv[0]])
            ejobs.append((fam, pd, order, bc, n, dim, par, lk, xk, loc_arg, loc_enc, x_arg, x_enc))
        elines = [f"mrf {fam} {pd} {order} {bc} {n} {q(par)} {qv(x_enc)} {qv(loc_enc)}" for fam, pd, order, bc, n, dim, par, lk, xk, loc_arg, loc_enc, x_arg, x_enc in ejobs]
        eouts = yield elines
        for (fam, pd, order, bc, n, dim, par, lk, xk, loc_arg, loc_enc, x_arg, x_enc), out in zip(ejobs, eouts):
            desc = {"family": fam, "dim": pd, "order": order, "bc": bc, "n": n, "param": par, "location": lk, "point": xk,
                    "loc": np.asarray(loc_enc, float).tolist(), "x": np.asarray(x_enc, float).tolist()}
            bump("mrf_eval_family", f"{fam}{pd}"); bump("mrf_eval_location", lk); bump("mrf_eval_point", xk)
            cls = {"lmrf": LMRF, "cmrf": CMRF, "gmrf": GMRF}[fam]
            geom = {"geometry": dim} if pd == 1 else {"geometry": Image2D((n, n))}
            key = f"{fam.upper()}:{pd}D:{bc}:eval:{lk}:{xk}"
            try:
                with quiet():
                    d = cls(loc_arg, par, bc_type=bc, **geom) if fam != "gmrf" else cls(loc_arg, par, bc_type=bc, order=order, **geom)
            except Exception as e:
                ctx.note(f"{fam} constructor refused {dict(list(desc.items())[:8])}: {type(e).__name__}")
                bump("mrf_eval_outcome", "ctor-refused")
                continue
            ctx.case("mrf-eval", {k: desc[k] for k in ("family", "dim", "order", "bc", "n", "location", "point")})
            try:
                with quiet(), np.errstate(all="ignore"):
                    lp = np.asarray(d.logpdf(x_arg), float)
                ierr = None
            except Exception as e:
                lp = None; ierr = type(e).__name__
            if out.startswith("err:") or lp is None:
                bump("mrf_eval_outcome", "refused" if (out.startswith("err:") and lp is None) else "refusal-differs")
                if out.startswith("err:") != (lp is None):
                    ctx.disagree(key + ":refusal", desc, out[:60], ierr or "a value", "evaluation refusal differs (broadcasting of x - location)")
                    if lp is None and xk in ("vector", "int-vector"):
                        ctx.fail(key + ":refusal", desc, "a log-density", ierr, "logpdf refuses a vector of the field's dimension")
                continue
            bump("mrf_eval_outcome", "value")
            form, grad = [t.strip() for t in out.split("|")]
            mv = eval_form(form)
            got = float(lp.ravel()[0]) if lp.size == 1 else None
            if fam == "gmrf" and got is not None:
                got = got - 0.5 * float(d._logdet)          # the form is logpdf without the 0.5*_logdet term
            # reference from the documented stencil (numpy), for the oracle
            Dd = doc_operator(order, "none" if order == 0 else bc, n, pd)
            xfull = np.asarray(x_enc, float) if len(x_enc) == dim else np.full(dim, float(x_enc[0]))
            lfull = np.asarray(loc_enc, float) if len(loc_enc) == dim else np.full(dim, float(loc_enc[0]))
            ref = None
            if Dd is not None:
                Dx = Dd @ (xfull - lfull)
                if fam == "lmrf":
                    ref = len(Dx) * (-(math.log(2) + math.log(par))) - float(np.abs(Dx).sum()) / par
                elif fam == "cmrf":
                    ref = -len(Dx) * math.log(math.pi) + float(np.sum(math.log(par) - np.log(Dx ** 2 + par ** 2)))
                else:
                    ref = 0.5 * int(d._rank) * (math.log(par) - math.log(2 * math.pi)) - 0.5 * par * float(Dx @ Dx)
            if got is None or not math.isfinite(got):
                if fam == "gmrf":
                    continue                                   # NaN log-determinant on the known rank findings: judged by the main stream
                ctx.disagree(key, desc, mv, None if got is None else got, "log-density is not a finite scalar")
                ctx.fail(key, desc, ref, str(lp.tolist())[:80], "log-density of a vector is not a finite scalar")
                continue
            _mg(f"{fam} logpdf vs LogForm (tol 1e-10)", _ratio(got, mv, 1e-10))
            if not close(got, mv, 1e-10):
                ctx.disagree(key, desc, mv, got, "log-density differs from the model's LogForm")
                if ref is not None and not close(got, ref, 1e-9):
                    ctx.fail(key, desc, ref, got, f"{fam.upper()}.logpdf is not the documented density of D(x - location) (location {lk}, point {xk})")
            if grad != "-" and len(x_enc) == dim and pd == 1:
                try:
                    with quiet(), np.errstate(all="ignore"):
                        g = np.asarray(d.gradient(np.asarray(x_enc, float)), float).ravel()
                except Exception as e:
                    ctx.disagree(key + ":gradient", desc, grad[:80], type(e).__name__, "gradient refused")
                    ctx.fail(key + ":gradient", desc, "a gradient", type(e).__name__, "gradient of a prior on a default 1-D geometry is refused")
                    continue
                gm = np.array([float(v) for v in pv(grad)])
                _mg(f"{fam} gradient vs model (tol 1e-10)", _ratio(g, gm, 1e-10))
                if g.shape != gm.shape or not vclose(g, gm, 1e-10):
                    ctx.disagree(key + ":gradient", desc, grad[:160], g.tolist(), "gradient differs from the model")
                    if Dd is not None:
                        Dx = Dd @ (xfull - lfull)
                        gref = (-2 * Dx / (Dx ** 2 + par ** 2)) @ Dd if fam == "cmrf" else -par * (Dd.T @ Dx)
                        if g.shape != gref.shape or not vclose(g, gref, 1e-9):
                            ctx.fail(key + ":gradient", desc, gref.tolist(), g.tolist(), "gradient is not the derivative of the documented density of D(x - location)")
    ctx.extra_cov["c20_eval"] = cov
    return [stream_A(), stream_B(), stream_R(), stream_C()]



def run_chol(ctx, cuqi, thorough):
    """sparse_cholesky / GMRF factor stream (Model/C20_chol.lean): the factor `(L, d)` of the exact elimination stands for
    R = diag(sqrt d) L^T; compared entrywise with `sparse_cholesky`, `GMRF._chol`, `GMRF.sqrtprec`, and sum(log d) with `_logdet`."""
    from cuqi.distribution import GMRF
    from cuqi.geometry import Image2D
    from cuqi.utilities import sparse_cholesky
    from scipy.sparse import csc_matrix
    rng = np.random.RandomState(ctx.seed + 2044)
    cov = {"factor_branch": {}, "direct_outcome": {}, "closed_form_sizes": 0, "certificates": 0}

    def model_R(out):
        L, d, cert, closed = [t.strip() for t in out.split("|")]
        if cert != "1":
            raise RuntimeError("C20 driver: L*diag(d)*L^T != A for a factor it returned (machinery error)")
        if closed == "0":
            raise RuntimeError("C20 driver: elimination disagrees with the closed form tridiagL/tridiagD of theorem tridiagD_prod (machinery error)")
        cov["certificates"] += 1
        cov["closed_form_sizes"] += closed == "1"
        Lm = np.array([[float(v) for v in r] for r in pm(L)])
        dv = pv(d)
        sq = np.array([math.sqrt(v) for v in dv])
        logdet = sum(math.log(v.numerator) - math.log(v.denominator) for v in dv)
        return sq[:, None] * Lm.T, logdet

    def oracle_factor(key, desc, R, A, tol):
        """implementation alone: R upper triangular, positive diagonal, R^T R = A"""
        bad = None
        if R.shape != A.shape:
            bad = "shape"
        elif np.abs(np.tril(R, -1)).max(initial=0.0) > 0:
            bad = "not upper triangular"
        elif not (np.diag(R) > 0).all():
            bad = "diagonal not positive"
        elif np.abs(R.T @ R - A).max() > tol * max(1.0, np.abs(A).max()):
            bad = "R^T R != A"
        if bad:
            ctx.fail(key, desc, "upper-triangular R with positive diagonal and R^T R = A", bad, "the factor is not a square root of the matrix it was computed from")

    def stream_D1():
        # (D1) the factor GMRF keeps
        jobs = []
        for pd, ns in ((1, range(2, 11) if not thorough else range(2, 25)), (2, range(2, 4) if not thorough else range(2, 6))):
            for order in (0, 1, 2):
                for bc in ("zero", "periodic", "neumann"):
                    for n in ns:
                        jobs.append((pd, order, bc, n))
        outs = yield [f"cholP {pd} {o} {bc} {n} {0 if bc == 'zero' else 1}" for pd, o, bc, n in jobs]
        sqeps = float(np.sqrt(np.finfo(float).eps))
        for (pd, order, bc, n), out in zip(jobs, outs):
            dim = n if pd == 1 else n * n
            prec = float(rng.choice([0.5, 1.0, 2.0, 4.0, 0.7]))
            desc = {"gmrf": f"{pd}D", "order": order, "bc": bc, "n": n, "prec": prec}
            ctx.case("gmrf-factor", desc)
            cov["factor_branch"][bc] = cov["factor_branch"].get(bc, 0) + 1
            key = f"GMRF:{pd}D:order{order}:{bc}:factor" + (":n<3" if n < 3 else "")
            try:
                with quiet():
                    G = GMRF(np.zeros(dim), prec, bc_type=bc, order=order, **({} if pd == 1 else {"geometry": Image2D((n, n))}))
                    C = dense(G._chol).T
                    S = dense(G.sqrtprec)
                    P = dense(G._prec_op.get_matrix())
                ierr = None
            except Exception as e:
                ierr = type(e).__name__
            if out in ("err", "refused") or ierr:
                if (out in ("err", "refused")) != bool(ierr):
                    ctx.disagree(key + ":refusal", desc, out[:20], ierr or "ok", "factorisation refusal differs")
                    if ierr and n >= 3:
                        ctx.fail(key + ":refusal", desc, "a field", ierr, "GMRF cannot be constructed for a documented configuration")
                continue
            R, logdet = model_R(out)
            A = P if bc == "zero" else P + sqeps * np.eye(dim)
            tol = 1e-12 if bc == "zero" else 1e-8
            scale = max(1.0, np.abs(R).max())
            if C.shape == R.shape:
                _mg(f"GMRF._chol vs exact factor, {'zero' if bc == 'zero' else 'regularised'} branch (tol {tol:g} of max entry)", np.abs(C - R).max() / (tol * scale))
            if S.shape == R.shape:
                _mg(f"GMRF.sqrtprec vs exact factor, {'zero' if bc == 'zero' else 'regularised'} branch (tol {tol:g} of max entry)", np.abs(S - math.sqrt(prec) * R).max() / (tol * scale * math.sqrt(prec)))
            if C.shape != R.shape or np.abs(C - R).max() > tol * scale:
                ctx.disagree(key + ":chol", desc, str(R.tolist())[:160], str(C.tolist())[:160], "GMRF._chol^T differs from the exact factor")
                oracle_factor(key + ":chol", desc, C, A, 1e-9 if bc == "zero" else 1e-7)
            if S.shape != R.shape or np.abs(S - math.sqrt(prec) * R).max() > tol * scale * math.sqrt(prec):
                ctx.disagree(key + ":sqrtprec", desc, "sqrt(prec) * R", str(S.tolist())[:160], "sqrtprec differs from sqrt(prec) times the exact factor")
                oracle_factor(key + ":sqrtprec", desc, S, prec * A, 1e-9 if bc == "zero" else 1e-7)
            if bc == "zero":
                _mg("GMRF._logdet vs sum log pivots (tol 1e-11)", _ratio(float(G._logdet), logdet, 1e-11))
                if not close(float(G._logdet), logdet, 1e-11):
                    ctx.disagree(key + ":logdet", desc, logdet, float(G._logdet), "_logdet differs from the sum of the logs of the exact pivots")
                    sign, ld = np.linalg.slogdet(P)
                    if not (sign > 0 and close(float(G._logdet), float(ld), 1e-9)):
                        ctx.fail(key + ":logdet", desc, float(ld), float(G._logdet), "GMRF log-determinant is not the log-determinant of its precision")

    def stream_D2():
        # (D2) sparse_cholesky itself on small integer matrices: positive definite, indefinite, exactly singular
        mats = [np.array([[1.0, -1.0], [-1.0, 1.0]]), np.array([[2.0, 2.0], [2.0, 2.0]]), np.array([[0.0, 1.0], [1.0, 0.0]]),
                np.array([[4.0, 2.0, 2.0], [2.0, 1.0, 1.0], [2.0, 1.0, 2.0]]), np.array([[1.0, 2.0], [2.0, 1.0]]), np.array([[-1.0]]), np.array([[4.0]])]
        # domain of the model: matrices whose elimination tree is a chain (dense, or banded like every GMRF precision) -- SuperLU
        # post-orders the elimination tree even with permc_spec='natural', and sparse_cholesky then sees perm_r != identity and
        # refuses (e.g. an SPD "arrow" matrix); that behaviour is outside what C20 quantifies over and outside this model
        for _ in range(40 if not thorough else 600):
            m = int(rng.randint(1, 6))
            kind = rng.randint(0, 3)
            if kind in (0, 1):
                for _try in range(50):
                    B = rng.randint(-3, 4, size=(m + int(rng.randint(0, 3)), m)).astype(float)
                    A = B.T @ B + float(rng.randint(1, 4)) * np.eye(m)
                    if (A != 0).all():
                        break
                else:
                    A = np.ones((m, m)) + m * np.eye(m)
                if kind == 1:
                    i = int(rng.randint(0, m)); A[i, i] = -abs(A[i, i]) - 1.0      # indefinite
            else:
                A = np.diag(rng.randint(2, 9, size=m).astype(float))
                for i in range(m - 1):
                    A[i, i + 1] = A[i + 1, i] = float(rng.choice([-1.0, 1.0]))   # tridiagonal, diagonally dominant
            mats.append(A)
        outs = yield ["chol " + ";".join(",".join(q(v) for v in row) for row in A) for A in mats]
        for A, out in zip(mats, outs):
            desc = {"sparse_cholesky": A.tolist()}
            ctx.case("sparse-cholesky", desc)
            key = "sparse_cholesky:direct"
            try:
                with quiet():
                    U = dense(sparse_cholesky(csc_matrix(A)))
                ierr = None
            except Exception as e:
                ierr = type(e).__name__
            oc = "refused" if out == "refused" else "factor"
            cov["direct_outcome"][oc] = cov["direct_outcome"].get(oc, 0) + 1
            if out == "refused" or ierr:
                if (out == "refused") != bool(ierr):
                    ctx.disagree(key + ":refusal", desc, out[:20], ierr or "a factor", "sparse_cholesky acceptance differs")
                    if ierr is None:
                        oracle_factor(key + ":refusal", desc, U, A, 1e-9)
                    elif np.linalg.eigvalsh(A).min() > 1e-9:
                        ctx.fail(key + ":refusal", desc, "a factor of a positive definite matrix", ierr, "sparse_cholesky refuses a positive definite matrix")
                continue
            R, _ = model_R(out)
            if U.shape == R.shape:
                _mg("sparse_cholesky direct vs exact factor (tol 1e-12 of max entry)", np.abs(U - R).max() / (1e-12 * max(1.0, np.abs(R).max())))
            if U.shape != R.shape or np.abs(U - R).max() > 1e-12 * max(1.0, np.abs(R).max()):
                ctx.disagree(key, desc, str(R.tolist())[:160], str(U.tolist())[:160], "sparse_cholesky differs from the exact factor")
                oracle_factor(key, desc, U, A, 1e-9)

    def stream_S():
        # (D3) GMRF._sample, zero boundary: the generator is scripted so that w = xi / sqrt(d) is rational; the draw must be
        # mean + prec^(-1/2) * y with L^T y = w exactly (model: backSubst), i.e. R (s - mean) sqrt(prec) = xi
        class Scripted:
            def __init__(self, arr): self.arr = arr; self.calls = 0
            def standard_normal(self, size=None):
                self.calls += 1
                a = self.arr
                want = (size,) if isinstance(size, (int, np.integer)) else tuple(size)
                if a.shape != want:
                    raise AssertionError(f"scripted generator asked for {want}, script has {a.shape}")
                return a.copy()
        sjobs = []
        for _ in range(24 if not thorough else 300):
            pd = 1 if rng.rand() < 0.7 else 2
            order = int(rng.randint(0, 3))
            n = int(rng.randint(2, 10)) if pd == 1 else int(rng.randint(2, 4))
            dim = n if pd == 1 else n * n
            N = 1 if rng.rand() < 0.6 else int(rng.randint(2, 4))
            W = rng.randint(-8, 9, size=(dim, N)) / 4.0
            prec = float(rng.choice([0.25, 1.0, 4.0, 0.7, 3.0]))
            mean = rng.randint(-3, 4, size=dim).astype(float)
            sjobs.append((pd, order, n, dim, N, W, prec, mean))
        lines = []
        for pd, order, n, dim, N, W, prec, mean in sjobs:
            lines.append(f"cholP {pd} {order} zero {n} 0")
            for c in range(N):
                lines.append(f"sample0 {pd} {order} {n} {qv(W[:, c])}")
        outs = yield lines
        k = 0
        for pd, order, n, dim, N, W, prec, mean in sjobs:
            fac = outs[k]; ys = outs[k + 1:k + 1 + N]; k += 1 + N
            desc = {"gmrf": f"{pd}D", "order": order, "bc": "zero", "n": n, "N": N, "prec": prec, "mean": mean.tolist(), "w": W.tolist()}
            ctx.case("gmrf-sample-zero", {kk: desc[kk] for kk in ("gmrf", "order", "n", "N", "prec")} | {"w0": W[:, 0].tolist()})
            cov["sample_N"] = cov.get("sample_N", {}); cov["sample_N"][str(N)] = cov["sample_N"].get(str(N), 0) + 1
            key = f"GMRF:{pd}D:order{order}:zero:sample"
            if fac in ("err", "refused") or any(y in ("err", "refused", "bad-op") for y in ys):
                raise RuntimeError("C20 driver refused a zero-boundary factor / sample (machinery error)")
            R, _ = model_R(fac)
            dsq = np.diag(R).copy()                       # sqrt(d)
            Y = []
            for y in ys:
                v, ok = [t.strip() for t in y.split("|")]
                if ok != "1":
                    raise RuntimeError("C20 driver: L^T y != w for a back substitution it returned (machinery error)")
                Y.append([float(t) for t in pv(v)])
            Y = np.array(Y).T                              # (dim, N)
            xi = W * dsq[:, None]
            fake = Scripted(xi)
            try:
                with quiet():
                    G = GMRF(mean.copy(), prec, bc_type="zero", order=order, **({} if pd == 1 else {"geometry": Image2D((n, n))}))
                    P = dense(G._prec_op.get_matrix())
                    smp = G.sample(N, rng=fake)
                    got = np.asarray(smp.samples if hasattr(smp, "samples") else smp, float).reshape(dim, N)
            except Exception as e:
                ctx.disagree(key, desc, "a draw", repr(e)[:160], "sampling refused / failed")
                ctx.fail(key, desc, "a draw", repr(e)[:160], "a zero-boundary GMRF cannot be sampled")
                continue
            ref = mean[:, None] + Y / math.sqrt(prec)
            _mg("GMRF zero-bc draw vs exact back substitution (tol 1e-10)", _ratio(got, ref, 1e-10))
            if fake.calls != 1 or not mclose(got, ref, 1e-10):
                ctx.disagree(key, desc, str(ref.tolist())[:200], str(got.tolist())[:200], "draw differs from mean + prec^(-1/2) R^(-1) xi of the model")
                # oracle on the implementation alone (any square root is allowed): feed the unit vectors, recover the linear map
                # W = ds/dxi, demand W W^T = (prec P)^(-1) -- "the draw has precision prec*P"
                try:
                    with quiet():
                        if N == 1:      # the single-draw branch of the code, one unit vector per call
                            Wm = np.stack([np.asarray(G.sample(1, rng=Scripted(np.eye(dim)[:, [c]])), float).ravel() - mean for c in range(dim)], axis=1)
                        else:
                            Wm = np.asarray(G.sample(dim, rng=Scripted(np.eye(dim))).samples, float).reshape(dim, dim) - mean[:, None]
                    if not mclose(prec * (Wm @ Wm.T) @ P, np.eye(dim), 1e-8):
                        ctx.fail(key, desc, "W W^T = (prec P)^(-1) for the linear map W = d(sample)/d(xi)", str((prec * (Wm @ Wm.T) @ P).tolist())[:200],
                                 "the covariance of the draw is not the inverse of the precision")
                except Exception as e:
                    ctx.fail(key, desc, "a draw", repr(e)[:160], "a zero-boundary GMRF cannot be sampled with unit-vector noise")
    ctx.extra_cov["c20_chol"] = cov
    return [stream_D1(), stream_D2(), stream_S()]


def run_apply(ctx, cuqi, thorough):
    """applying an operator with `@` to the same NUMBERS stored in another floating dtype / layout (float32, big-endian float32,
    strided float32, float32 batches, longdouble) gives the documented stencil applied to those numbers: the product is judged
    relative to the largest term sum_j |D_ij||x_j| at double-precision level (1e-9 leaves 7 digits of slack over float64 rounding
    and rejects a single-precision product, whose error is ~1e-7 of the largest term), and a finite documented value must not
    come back as inf/nan (differences of large single-precision values overflow when the product is formed in float32).
    Reference: the numpy matrix written from the documented stencil (`doc_operator`) divided by dx^order, in float64."""
    from cuqi.operator import FirstOrderFiniteDifference, SecondOrderFiniteDifference, PrecisionFiniteDifference
    rng = np.random.RandomState(ctx.seed + 2055)
    cov = {"dtype": {}, "vector_class": {}, "operator": {}}
    confs = []
    for bc in BCS:
        for n in (4, 7):
            for dx in (None, 0.3):
                confs.append(("first", 1, bc, n, 1, dx))
                if bc in ("zero", "periodic", "neumann"):
                    confs.append(("second", 2, bc, n, 1, dx))
        confs.append(("first", 1, bc, 3, 2, None))
        if bc in ("zero", "periodic", "neumann"):
            confs.append(("second", 2, bc, 3, 2, None))
            for order in (0, 1, 2):
                confs.append(("precision", order, bc, 5, 1, None))
            confs.append(("precision", 1, bc, 3, 2, None))
    if not thorough:
        idx = rng.permutation(len(confs))[:36]
        confs = [confs[i] for i in sorted(idx)]
    dtypes = {"float32": lambda v: v.astype(np.float32), "float32-be": lambda v: v.astype(">f4"),
              "float32-strided": lambda v: np.repeat(v.astype(np.float32), 2)[::2], "longdouble": lambda v: v.astype(np.longdouble),
              "float64": lambda v: v.astype(np.float64)}
    for oname, order, bc, n, pd, dx in confs:
        nn = n if pd == 1 else (n, n)
        dim = n if pd == 1 else n * n
        try:
            with quiet():
                op = (FirstOrderFiniteDifference(nn, bc, dx=dx) if oname == "first" else SecondOrderFiniteDifference(nn, bc, dx=dx)
                      if oname == "second" else PrecisionFiniteDifference(nn, bc_type=bc, order=order))
        except Exception:
            continue
        ref_D = doc_operator(order, "none" if order == 0 else bc, n, pd)
        if ref_D is None:
            continue
        if oname == "precision":
            ref_D = ref_D.T @ ref_D
        elif dx is not None:
            ref_D = ref_D / (dx ** order)
        if ref_D.shape[0] == 0:
            continue
        t = np.arange(dim, dtype=float)
        vecs = {"smooth": 1.0 + 1e-3 * t ** 2, "random": rng.standard_normal(dim), "large-alternating": 3e38 * (-1.0) ** t,
                "large": 1e38 * (1.0 + 0.5 * np.sin(t)), "tiny": 1e-30 * rng.standard_normal(dim)}
        for vname, v in vecs.items():
            for dn, conv in dtypes.items():
                x = conv(v)
                x64 = np.asarray(x, dtype=np.float64)          # exactly the numbers stored in x (longdouble: rounded to double)
                if dn == "longdouble":
                    x = conv(x64)
                for how in ("matmul", "batch"):
                    if how == "batch" and (dn not in ("float32", "float64") or vname == "tiny"):
                        continue
                    arg = x if how == "matmul" else np.stack([x, 2 * x], axis=1)
                    a64 = x64 if how == "matmul" else np.stack([x64, 2 * np.asarray(x, np.float64)], axis=1)
                    if how == "batch" and not np.isfinite(np.asarray(arg, np.float64)).all():
                        continue
                    with np.errstate(all="ignore"):
                        ref = ref_D @ a64
                        big = np.abs(ref_D) @ np.abs(a64)
                    if not np.isfinite(big).all():
                        continue
                    desc = {"operator": oname, "order": order, "bc": bc, "n": n, "dim": pd, "dx": dx, "dtype": dn, "vector": vname,
                            "how": how, "x": [float(u) for u in x64[:8]]}
                    ctx.case("operator-apply-dtype", {k: desc[k] for k in ("operator", "order", "bc", "dim", "dx", "dtype", "vector", "how")})
                    cov["dtype"][dn] = cov["dtype"].get(dn, 0) + 1
                    cov["vector_class"][vname] = cov["vector_class"].get(vname, 0) + 1
                    cov["operator"][oname] = cov["operator"].get(oname, 0) + 1
                    key = f"operator:{oname}:{pd}D:{bc}:apply:{dn}:{vname}"
                    try:
                        with quiet(), np.errstate(all="ignore"):
                            got = np.asarray(op @ arg, dtype=np.float64)
                    except Exception as e:
                        ctx.note(f"operator @ {dn} refused: {type(e).__name__}")
                        continue
                    if got.shape != ref.shape:
                        ctx.fail(key, desc, list(ref.shape), list(got.shape), "operator @ vector has the wrong shape")
                        continue
                    if not np.isfinite(got).all():
                        ctx.fail(key, desc, [float(u) for u in np.ravel(ref)[:8]], [float(u) for u in np.ravel(got)[:8]],
                                 "the documented stencil applied to these numbers is finite, the operator returns inf/nan (product formed in a narrower precision)")
                        continue
                    err = np.abs(got - ref)
                    _mg("operator @ vector vs documented stencil (tol 1e-9 of largest term)", np.max(err / (1e-9 * big + 1e-300)))
                    if (err > 1e-9 * big + 1e-300).any():
                        i = int(np.argmax(err - 1e-9 * big))
                        ctx.fail(key, desc, [float(u) for u in np.ravel(ref)[:8]], [float(u) for u in np.ravel(got)[:8]],
                                 f"operator @ vector is not the documented stencil applied to the same numbers (error {float(np.ravel(err)[i]):.3e}, "
                                 f"largest term {float(np.ravel(big)[i]):.3e}: relative {float(np.ravel(err)[i] / max(np.ravel(big)[i], 1e-300)):.1e}, double precision gives < 1e-15)")
    ctx.extra_cov["c20_apply_dtype"] = cov


def run_ext(ctx, cuqi, thorough):
    """run all session-3 streams in lock-step rounds: every round sends the pending driver lines of all streams in ONE
    `drive` call (each call re-checks the lake build under a lock shared with other builders, so calls are the cost)."""
    ctx.trusted += ["math.log / math.sqrt (evaluation of the model's exact LogForm and of sqrt(d) in floating point)",
                    "SuperLU (scipy.sparse.linalg.splu) computes the LU factorisation without row exchanges that Model/C20_chol.lean luNoPivot transcribes (tied entrywise every run)"]
    ctx.assumptions += ["log-densities / gradients: model's exact form evaluated in float vs implementation at 1e-10",
                        "Cholesky factors: 1e-12 (zero boundary) / 1e-8 (sqrt(eps)-regularised periodic, Neumann) relative to the largest entry",
                        "constructor matrices: exact, 1e-14 where a float dx divides (scipy multiplies by 1/dx)"]
    run_apply(ctx, cuqi, thorough)
    gens = run_eval(ctx, cuqi, thorough) + run_chol(ctx, cuqi, thorough)
    pending = []
    for g in gens:
        try:
            pending.append((g, list(next(g))))
        except StopIteration:
            pass
    while pending:
        allines = [l for _, ls in pending for l in ls]
        outs = ctx.lean.drive(allines)
        nxt, k = [], 0
        for g, ls in pending:
            mine = outs[k:k + len(ls)]; k += len(ls)
            try:
                nxt.append((g, list(g.send(mine))))
            except StopIteration:
                pass
        pending = nxt
    ctx.extra_cov["c20_margins_dev_over_tol"] = {k: float(f"{v:.3g}") for k, v in sorted(MARGINS.items())}
