"""C05, stream "mhn-stream": the WHOLE ModifiedHalfNormal sampler (dispatch, guards, matching point, rejection loops,
the N-draw comprehension with its indexing of the parameters) against `Model/C05_mhn.lean` on scripted generator
streams.  The generator handed to the code returns planned proposal draws and uniforms; the same stream is given to
the model (`mhnrun …`).  Compared: raise / no raise, the returned values (1e-9), the number of generator calls
consumed (exact), method and arguments of every proposal call (1e-9).

Uniforms are placed well away from the decision threshold (the model's bound is asked for first with `mhnprobe`),
so the comparison does not depend on the last bits of `log`.

Oracle (implementation only):
 * one draw of a distribution of dimension d has d entries and N draws are N columns of d entries, N >= 1 never
   raises for a valid object (vector-valued parameters: new finding `MHN:sample:indexed-params:*`);
 * N draws from a stream = N single draws reading the same stream one after the other;
 * a returned draw lies in the support (finite log-density of the same object / of the documented density);
 * on a decision disagreement: proposal density x acceptance probability (bisection on U) proportional to the target.
"""
import math
import numpy as np
from harness.core import quiet, q, qv, close, vclose


class StreamExhausted(Exception):
    pass


def make_seq(H, stream):
    """scripted generator: proposal draws / uniforms in the order of request; raises when the plan is used up"""
    ts = [t for (t, u) in stream]
    us = [u for (t, u) in stream]
    st = {"i": 0, "j": 0}

    def plan(method, shape, k):
        if method == "uniform":
            if st["j"] >= len(us):
                raise StreamExhausted()
            v = us[st["j"]]; st["j"] += 1
        else:
            if st["i"] >= len(ts):
                raise StreamExhausted()
            v = ts[st["i"]]; st["i"] += 1
        return np.array(v)
    return H.Script(plan)


def pval_tok(v):
    if isinstance(v, (np.floating,)):
        return "n:" + q(float(v))
    if isinstance(v, (float, int)):
        return "f:" + q(float(v))
    return "s:" + qv([float(x) for x in v])


def m_tok(m):
    if m is None:
        return "none"
    if isinstance(m, str):
        return "mode"
    return "num:" + q(float(m))


def entry_call(H, D, entry, pars, N, m, stream):
    """returns (values list or None, error string or None, rng, untouched)"""
    rng = make_seq(H, stream)
    untouched = True
    try:
        if entry == "sample":
            s, err, untouched = H.call_sample(D, N, rng)
            if err is not None:
                return None, err, rng, untouched, None
            return [float(x) for x in np.asarray(s.samples if hasattr(s, "samples") else s, dtype=float).ravel()], None, rng, untouched, s
        a, b, c = pars
        with quiet():
            if entry == "private":
                x = D._MHN_sample(a, b, c, m=m, rng=rng)
            elif entry == "pg1":
                x = D._MHN_sample_positive_gamma_1(a, b, c, rng)
            elif entry == "ng":
                x = D._MHN_sample_negative_gamma(a, b, c, rng, m=m)
            elif entry == "gp":
                x = D._MHN_sample_gamma_proposal(a, b, c, rng)
            elif entry == "np":
                x = D._MHN_sample_normal_proposal(a, b, c, None, rng)
            else:
                raise KeyError(entry)
        return [float(x)], None, rng, True, None
    except Exception as e:  # noqa
        return None, type(e).__name__ + ": " + str(e)[:80], rng, untouched, None


def parse_probe(H, out):
    """'method:arg1:arg2 g|n X|bound,…' -> (call, guard, [(X, bound)])"""
    if out.startswith("err:") or out == "bad-op":
        return None
    call, g, pts = out.split(" ")
    meth, a1, a2 = call.split(":", 1)[0], None, None
    rest = call.split(":", 1)[1]
    # tokens are q:<rat> / f:<bits>: split on ':' pairs
    parts = rest.split(":")
    a1 = H.fl(parts[0] + ":" + parts[1]); a2 = H.fl(parts[2] + ":" + parts[3])
    res = []
    if pts != "_":
        for p in pts.split(","):
            x, b = p.split("|")
            res.append((H.fl(x), H.fl(b)))
    return (meth, a1, a2), g == "g", res


def parse_calls(H, tok):
    if tok == "_":
        return []
    out = []
    for c in tok.split(","):
        parts = c.split(":")
        out.append((parts[0], H.fl(parts[1] + ":" + parts[2]), H.fl(parts[3] + ":" + parts[4])))
    return out


CAND_T = [0.25, 0.5, 1.0, 1.5, 2.5, 0.75, 3.5]


def build_stream(rs, probe, pattern):
    """pattern: number of rejections before the acceptance; returns list of (t, u) or None when no robust choice exists"""
    call, guard, pts = probe
    rej, acc = [], []
    for t, (x, b) in zip(CAND_T + [0.0, -0.5], pts):
        if not math.isfinite(b) or (guard and not x > 0):
            # nan / -inf bound or non-positive point: rejected whatever U is
            if (b != b or b == -math.inf or (guard and not x > 0)) and not (b == math.inf):
                rej.append((t, 1e-300))
            continue
        if b < -0.05 and b > -600:
            rej.append((t, math.exp(0.5 * b)))
        if b - 1.0 > -600 and x > 0:
            acc.append((t, math.exp(min(b, 0.0) - 1.0) if b <= 30 else 0.5))
    if not acc:
        return None
    out = []
    for _ in range(pattern):
        if not rej:
            break
        out.append(rej[rs.randint(len(rej))])
    out.append(acc[rs.randint(len(acc))])
    return out


def identity_oracle(H, D, entry, pars, m, call, f_log):
    """implementation only: log g(T) - log|dX/dT| + log a(T) - log f(X) must not depend on T where a < 1"""
    law = H.gen_law(call[0], call[1:])
    vals = []
    for p in (0.1, 0.3, 0.5, 0.7, 0.9):
        t = float(law.ppf(p))
        if call[0] == "normal" and t <= 0:
            continue

        def acc(u):
            v, err, rng, _, _ = entry_call(H, D, entry, pars, 1, m, [(t, u), (t, 1e-300), (t, 1e-300)])
            return err is None and len(rng.calls) == 2
        if not acc(1e-300):
            continue
        if acc(1.0 - 2 ** -53):
            continue
        lo, hi = 1e-300, 1.0
        for _ in range(60):
            mid = math.sqrt(lo * hi) if lo < 1e-3 else 0.5 * (lo + hi)
            if acc(mid):
                lo = mid
            else:
                hi = mid
        h = 1e-5 * abs(t)
        xs = []
        for tt in (t - h, t, t + h):
            v, err, _, _, _ = entry_call(H, D, entry, pars, 1, m, [(tt, 1e-300), (tt, 1e-300)])
            xs.append(None if v is None else v[0])
        if any(v is None for v in xs) or not xs[1] > 0:
            continue
        dxdt = (xs[2] - xs[0]) / (2 * h)
        vals.append((xs[1], float(law.logpdf(t)) - math.log(abs(dxdt)) + math.log(lo) - f_log(xs[1])))
    if len(vals) >= 2 and max(v[1] for v in vals) - min(v[1] for v in vals) > 1e-5:
        return vals
    return None


def run_mhn_stream(ctx, cuqi, thorough, H):
    from cuqi.distribution import ModifiedHalfNormal
    rs = np.random.RandomState(ctx.seed + 5151)
    cov = {"entry": {}, "loop": {}, "iterations_per_draw": {}, "raise": {}, "N": {}, "alpha_type": {}, "guard_rejections": 0, "zero_draw": 0}

    def bump(h, k):
        cov[h][str(k)] = cov[h].get(str(k), 0) + 1

    # ------------------------------------------------------------------ case list
    cases = []      # dict(entry, D, pars, N, m, key, desc, ptoks)
    grid = [(2.0, 3.0, 1.0), (0.5, 1.0, 1.0), (3.0, 2.0, 2.0), (1.5, 1.0, 3.0), (5.0, 0.125, 1.0), (3.0, 1.0, 4.0), (1.0, 0.5, 0.5),
            (2.0, 1.0, -1.0), (0.5, 2.0, -2.0), (1.0, 1.0, 0.0), (4.0, 0.5, -0.5), (1.0, 2.0, -1.0), (0.75, 1.0, -3.0)]
    for _ in range(4 * ctx.scale):
        grid.append((float(rs.choice([0.5, 0.75, 1.0, 1.5, 2.0, 3.0, 6.0])), float(rs.choice([0.25, 0.5, 1.0, 2.0, 4.0])),
                     float(rs.choice([-2.0, -0.5, 0.0, 0.5, 1.0, 3.0]))))
    D0 = ModifiedHalfNormal(2.0, 3.0, 1.0)
    for (a, b, c) in grid:
        ms = [None]
        if c <= 0:
            ms += ["mode", "MODE", 0.75, 1.25]
        else:
            ms += [0.75] if rs.rand() < 0.3 else []
        for m in ms:
            cases.append(dict(entry="private", D=D0, pars=(a, b, c), N=1, m=m))
        # the sub-samplers called directly: their guards and loops
        cases.append(dict(entry="pg1", D=D0, pars=(a, b, c), N=1, m=None))
        cases.append(dict(entry="ng", D=D0, pars=(a, b, c), N=1, m=(None if rs.rand() < 0.5 else "mode")))
        if c > 0:
            cases.append(dict(entry="gp", D=D0, pars=(a, b, c), N=1, m=None))
            if a > 1:
                cases.append(dict(entry="np", D=D0, pars=(a, b, c), N=1, m=None))
    # public path: what `_alpha` is, N
    alphas = [2.0, 3, 0.5, 1.0, 1.5, np.float64(2.0), [2.0, 0.5, 3.0], (1.5, 2.0), np.array([2.0]), np.array([0.5, 3.0]),
              np.array([3.0, 2.0, 0.75, 1.0])]
    for _ in range(3 * ctx.scale):
        L = int(rs.randint(1, 5))
        alphas.append(np.array([float(rs.choice([0.5, 0.75, 1.0, 1.5, 2.0, 3.0])) for _ in range(L)]))
    for a in alphas:
        L = 1 if isinstance(a, (float, int, np.floating)) else len(a)
        bc = [(3.0, 1.0)]
        if L > 1:
            bc.append((np.full(L, 2.0), np.full(L, -1.0)))
        for (b, c) in bc:
            for N in sorted(set([1, L, L + 1] + ([2, 4] if thorough or L == 1 else []))):
                try:
                    with quiet():
                        D = ModifiedHalfNormal(a, b, c)
                        _ = D.dim
                except Exception as e:  # noqa
                    ctx.note(f"MHN constructor refused alpha={a!r}: {type(e).__name__}")
                    continue
                cases.append(dict(entry="sample", D=D, pars=(a, b, c), N=N, m=None))

    # ------------------------------------------------------------------ phase 1: probes (per draw)
    probes_l = []
    for cs in cases:
        a, b, c = cs["pars"]
        if cs["entry"] == "sample":
            cs["ptoks"] = (pval_tok(a), pval_tok(b), pval_tok(c))
            for i in range(cs["N"]):
                probes_l.append(f"mhnprobe sample {cs['ptoks'][0]} {cs['ptoks'][1]} {cs['ptoks'][2]} {i} {qv(CAND_T + [0.0, -0.5])}")
        else:
            probes_l.append(f"mhnprobe {cs['entry']} {q(a)} {q(b)} {q(c)} {m_tok(cs['m'])} {qv(CAND_T + [0.0, -0.5])}")
    # K1 / K2 of the normal-vs-sqrt-gamma choice for every parameter triple a draw is made with: when they agree to
    # 1e-9 the choice depends on the last bits of `gamma()` / `power()` and the case is skipped (counted)
    kl, kidx = [], []
    for cs in cases:
        a, b, c = cs["pars"]
        if cs["entry"] == "sample":
            vals_a = [float(a)] if isinstance(a, (float, int, np.floating)) else [float(x) for x in a]
            trip = [(x, x, x) for x in vals_a]
        elif cs["entry"] in ("private", "pg1"):
            trip = [(a, b, c)]
        else:
            trip = []
        kidx.append((len(kl), len(trip)))
        kl += [f"mhn {q(x)} {q(y)} {q(z)}" for (x, y, z) in trip]
    both = ctx.lean.drive(probes_l + kl)
    po, ko = both[:len(probes_l)], both[len(probes_l):]
    for cs, (k0, kn) in zip(cases, kidx):
        cs["k_close"] = False
        for o in ko[k0:k0 + kn]:
            t = o.split()
            if t and t[0] == "pg1":
                K1, K2 = H.fl(t[1]), H.fl(t[2])
                if not (abs(K2 - K1) > 1e-9 * max(abs(K1), abs(K2))):
                    cs["k_close"] = True
    pos = 0
    run_l = []
    for cs in cases:
        nd = cs["N"] if cs["entry"] == "sample" else 1
        pr = [parse_probe(H, po[pos + i]) for i in range(nd)]
        raw = po[pos:pos + nd]
        pos += nd
        if cs["k_close"]:
            cov["skipped_K1_close_to_K2"] = cov.get("skipped_K1_close_to_K2", 0) + 1
            cs["probe"], cs["probe_raw"], cs["iters"], cs["stream"] = pr, raw, [], None
            run_l.append("noop")
            continue
        stream, iters = [], []
        for i in range(nd):
            if pr[i] is None:
                break           # the model raises at this draw: the stream so far is all that is read
            pat = int(rs.choice([0, 0, 1, 2, 3]))
            st = build_stream(rs, pr[i], pat)
            if st is None:
                stream = None
                break
            stream += st
            iters.append(len(st))
        cs["probe"], cs["probe_raw"], cs["iters"] = pr, raw, iters
        if stream is None:
            cs["stream"] = None
            run_l.append("noop")
            continue
        stream = stream + [(1.0, 1e-300)]          # never reached when model and code agree
        cs["stream"] = stream
        sm = ";".join(f"{q(t)},{q(u)}" for (t, u) in stream)
        if cs["entry"] == "sample":
            run_l.append(f"mhnrun sample {cs['ptoks'][0]} {cs['ptoks'][1]} {cs['ptoks'][2]} {cs['N']} {sm}")
        elif cs["entry"] in ("private", "ng"):
            a, b, c = cs["pars"]
            run_l.append(f"mhnrun {cs['entry']} {q(a)} {q(b)} {q(c)} {m_tok(cs['m'])} {sm}")
        else:
            a, b, c = cs["pars"]
            run_l.append(f"mhnrun {cs['entry']} {q(a)} {q(b)} {q(c)} {sm}")
    ro = ctx.lean.drive(run_l)

    # ------------------------------------------------------------------ phase 2: the code on the same streams
    for cs, mo in zip(cases, ro):
        if cs["stream"] is None:
            ctx.case("mhn-stream-skipped", {"entry": cs["entry"], "pars": repr(cs["pars"])}, nontrivial=False)
            continue
        entry, D, pars, N, m, stream = cs["entry"], cs["D"], cs["pars"], cs["N"], cs["m"], cs["stream"]
        a = pars[0]
        atype = type(a).__name__ + ("" if isinstance(a, (float, int, np.floating)) else f"[{len(a)}]")
        vec = entry == "sample" and not isinstance(a, (float, int, np.floating)) and len(a) > 1
        desc = {"family": "ModifiedHalfNormal", "entry": entry, "parameters": [np.asarray(p, dtype=float).tolist() if not isinstance(p, (float, int)) else p for p in pars],
                "alpha_type": atype, "N": N, "m": m, "stream_of_(proposal_draw,uniform)": [[t, u] for (t, u) in stream]}
        scheme = "-"
        for p in cs["probe"]:
            if p is not None:
                scheme = p[0][0] + ("" if p[1] else "-noguard")
                bump("loop", scheme)
        key = f"MHN:stream:{entry}:{scheme}" + (":vector" if vec else "")
        ctx.case("mhn-stream", desc)
        bump("entry", entry); bump("N", N)
        if entry == "sample":
            bump("alpha_type", atype)
        for k in cs["iters"]:
            bump("iterations_per_draw", k)
        vals, err, rng, untouched, sobj = entry_call(H, D, entry, pars, N, m, stream)
        if not untouched:
            ctx.fail(key + ":global-state", desc, "global numpy random state untouched when rng is given", "changed")
        m_raises = mo.startswith("err:")
        bump("raise", (mo if m_raises else "no"))
        if mo == "bad-op" or mo == "err:exhausted":
            ctx.disagree("harness:mhn-stream", desc, "a model answer", mo, "driver could not process the line")
            continue
        bad = None
        if m_raises != (err is not None):
            bad = ("raises" if m_raises else "returns", err if err is not None else vals, "raise / no raise")
        elif not m_raises:
            toks = mo.split(" ")
            mv = [H.fl(t) for t in toks[1].split(",")] if toks[1] != "_" else []
            consumed = int(toks[2])
            mcalls = parse_calls(H, toks[3])
            icalls = rng.calls
            for x, y in zip(mv, vals):
                if math.isfinite(x) and math.isfinite(y):
                    cov["tie_max_value_deviation_vs_tol_1e-9"] = max(cov.get("tie_max_value_deviation_vs_tol_1e-9", 0.0), abs(x - y) / (1.0 + abs(x)))
            if len(mv) != len(vals) or not all(close(x, y, 1e-9) or (x == y) for x, y in zip(mv, vals)):
                bad = (mv, vals, "returned draws")
            elif len(icalls) != 2 * consumed:
                bad = (f"{2 * consumed} generator calls ({consumed} iterations)", f"{len(icalls)} calls", "number of loop iterations (generator calls consumed)")
            else:
                # every iteration: proposal call of the draw it belongs to, then uniform()
                k = 0
                for di, nit in enumerate(cs["iters"]):
                    for _ in range(nit):
                        pc, uc = icalls[2 * k], icalls[2 * k + 1]
                        k += 1
                        ia = [float(np.asarray(v).ravel()[0]) for v in pc[1]]
                        if di < len(mcalls) and (pc[0] != mcalls[di][0] or not vclose(ia, list(mcalls[di][1:]), 1e-9)):
                            bad = (mcalls[di], (pc[0], ia), f"proposal generator call of draw {di}")
                        if uc[0] != "uniform" or [float(v) for v in uc[1]] != [0.0, 1.0] or pc[2] != () or uc[2] != ():
                            bad = ("uniform() scalar after each scalar proposal", str((pc, uc))[:160], "generator calls of one iteration")
            for (t, u) in stream[:consumed]:
                if t == 0.0:
                    cov["zero_draw"] += 1
                if t <= 0:
                    cov["guard_rejections"] += 1
        if bad is not None:
            ctx.disagree(key, desc, bad[0], bad[1], bad[2])
            # ---- implementation-only oracles near the case
            nf = 0
            if err is None and vals is not None:
                # support
                for x in vals:
                    if not (x > 0) and scheme != "gamma-noguard":
                        ctx.fail(key, desc, "a draw inside the support (x > 0)", x, "a draw outside the support of the density is returned"); nf += 1
                        break
            if nf == 0 and err is not None and not m_raises and entry in ("private", "sample") and "StreamExhausted" not in err:
                ctx.fail(key, desc, "a draw", err, "sampling raises for valid parameters"); nf += 1
            if nf == 0 and entry != "sample" and cs["probe"][0] is not None:
                aa, bb, cc = pars
                viol = identity_oracle(H, D, entry, pars, m, _recorded_call(rng, cs), lambda x: (aa - 1) * math.log(x) - bb * x * x + cc * x)
                if viol:
                    ctx.fail(key, desc, "proposal density x acceptance probability proportional to x^(alpha-1) exp(-beta x^2 + gamma x)",
                             {"(X, log ratio)": viol}, "rejection step does not produce the target density"); nf += 1
            if nf == 0 and entry == "sample" and err is None:
                lp = lambda x: float(H.logpdf1(D, np.array([x])))   # noqa
                try:
                    viol = identity_oracle(H, D, entry, pars, m, _recorded_call(rng, cs), lp) if not vec else None
                except Exception:
                    viol = None
                if viol:
                    ctx.fail(key, desc, "proposal density x acceptance probability proportional to exp(logpdf) of the same object",
                             {"(X, log ratio)": viol}, "rejection step does not produce the density the object reports"); nf += 1
        # ---- oracles run on every case
        if entry == "sample":
            dim = int(D.dim)
            if err is not None:
                if "StreamExhausted" in err:
                    pass
                elif isinstance(a, (float, int, np.floating)):
                    ctx.note(f"MHN sample refuses alpha of type {atype}: {err[:60]}")
                    cov["refusals_numpy_scalar"] = cov.get("refusals_numpy_scalar", 0) + 1
                else:
                    ctx.fail("MHN:sample:indexed-params:raises", desc, f"{N} draw(s) of a {dim}-dimensional ModifiedHalfNormal", err,
                             "sampling raises for a valid object and N >= 1: draw i is made with alpha[i] (indexed by the draw number)")
            elif sobj is not None:
                for d, g in H.wrap_oracle(cuqi, D, N, sobj):
                    ctx.fail((f"MHN:sample:indexed-params:{'N1' if N == 1 else 'N>1'}" if dim > 1 else f"wrap:mhn:{'N1' if N == 1 else 'N>1'}"), desc, d, g,
                             "wrapping: N scalars are returned whatever the dimension (draw i is made with alpha[i])")
                # sequential consumption: N draws = N single draws on the same stream
                if dim == 1 and N > 1 and bad is None:
                    rest, seq_vals, ok = list(stream), [], True
                    for i in range(N):
                        v1, e1, r1, _, _ = entry_call(H, D, "sample", pars, 1, None, rest)
                        if e1 is not None:
                            ok = False; break
                        seq_vals.append(v1[0]); rest = rest[len(r1.calls) // 2:]
                    if ok and seq_vals != vals and not isinstance(a, np.ndarray):
                        ctx.fail(key + ":sequential", desc, seq_vals, vals, "N draws differ from N single draws reading the same generator stream one after the other")
    ctx.extra_cov["mhn_stream"] = cov


def _recorded_call(rng, cs):
    c0 = rng.calls[0] if rng.calls else None
    if c0 is None:
        p = cs["probe"][0][0]
        return (p[0], p[1], p[2])
    return (c0[0],) + tuple(float(np.asarray(v).ravel()[0]) for v in c0[1])
