"""C04, session-3 extension: the Gaussian OBJECT around get_sqrtprec_from_* (Model/C04_gaussobj.lean).

Streams (all: real code vs Lean driver on the same inputs, exact on status / rank / error class, 1e-9 on values;
implementation-only oracle = scipy multivariate normal with the documented covariance of the CURRENT specification):
  * `gstored`: matrix arguments by storage — scipy dia_matrix (main diagonal only, explicit zero band, bidiagonal /
    tridiagonal, non-zero padding), dia_array, LinearOperator with / without a `logdet` attribute, 1x1 scipy-sparse,
    non-square LinearOperator — for all four forms.
  * `gobj`: operation histories on ONE object — constructor with 0 / 1 / 2 matrix keywords, assignments to the mutable
    matrix (new value of any kind), to a non-mutable matrix keyword (ValueError), to the mean, `compute_cov()`, reading
    `.cov`, `logpdf` — every answer compared.
  * `compute_cov` on both sides of config.MAX_DIM_INV.
"""
import math
import numpy as np
import scipy.sparse as spa
import scipy.stats as sps
from fractions import Fraction
from harness.core import quiet, q, qv, qm


def _tok_plain(kind, Mv):
    return f"p|{kind}|{qm(Mv)}"


def _tok_dia(obj):
    data = np.asarray(obj.data, dtype=float)
    return f"d|{obj.shape[0]}|{','.join(str(int(o)) for o in obj.offsets)}|{qm(data.tolist())}"


def _parse_mat(tok):
    return np.array([[float(Fraction(v)) for v in r.split(",")] for r in tok.split(";")])


def gaussobj_section(ctx, D, rng, S):
    from harness.props import c04 as base
    from scipy.sparse.linalg import aslinearoperator
    from cuqi import config
    close = base.close
    dy, dec, call, fnum, verdict, _dense, relclose = base.dy, base.dec, base.call, base.fnum, base.verdict, base._dense, base.relclose
    cov_hist = {}
    ctx.extra_cov["gaussobj_histogram"] = cov_hist

    def bump(k):
        cov_hist[k] = cov_hist.get(k, 0) + 1

    forms = ["cov", "prec", "sqrtcov", "sqrtprec"]

    def doc_cov(form, A):
        """covariance the code's reading of the specification denotes (A: full matrix)"""
        if form == "cov":
            return A
        if form == "prec":
            return np.linalg.inv(A)
        if form == "sqrtcov":
            return A @ A.T
        return np.linalg.inv(A.T @ A)

    # ------------------------------------------------------------------ A. stored arguments
    jobs, lines = [], []

    def add(form, label, n, obj, tok, A, note=None):
        mu = [dy(rng, -1, 1) for _ in range(n)]
        x = [mu[j] + dy(rng, -2, 2) for j in range(n)]
        lines.append(f"gstored {form} {n} {qv(x)} {qv(mu)} {tok}")
        jobs.append((form, label, n, obj, A, mu, x))

    def sym_band(n, d, o):
        return base.band(n, d, o)

    for form in forms:
        spd_like = form in ("cov", "prec")
        for rep in range(1 * S):
            # main diagonal only (what spa.diags(v) gives)
            n = rng.choice([2, 3, 4, 5])
            v = [dy(rng, 0.5, 3) * (1 if spd_like else rng.choice([-1, 1])) for _ in range(n)]
            o = spa.diags(v)
            add(form, "dia:main-diagonal", n, o, _tok_dia(o), np.diag(v))
            # diagonal matrix stored with an explicit all-zero band
            n = rng.choice([2, 3, 4])
            v = [dy(rng, 0.5, 3) for _ in range(n)]
            o = spa.dia_matrix((np.array([v, [0.0] * n]), [0, rng.choice([1, -1])]), shape=(n, n))
            add(form, "dia:explicit-zero-band", n, o, _tok_dia(o), np.diag(v))
            # banded: symmetric tridiagonal (cov / prec), upper or lower bidiagonal (square roots) — the class docstring's example
            n = rng.choice([3, 4, 5, 6])
            if spd_like:
                A = sym_band(n, rng.choice([2.0, 3.0]), rng.choice([-1.0, 0.5]))
                o = spa.diags([np.diag(A, 0), np.diag(A, 1), np.diag(A, -1)], [0, 1, -1])
            else:
                k = rng.choice([1, -1])
                dg, off = rng.choice([1.0, 2.0]), rng.choice([-1.0, -0.5, 0.5])
                o = spa.diags([[dg] * n, [off] * (n - 1)], [0, k])
                A = o.toarray()
            add(form, "dia:banded", n, o, _tok_dia(o), np.asarray(o.toarray(), dtype=float))
            # banded with NON-ZERO numbers in the padding positions of the data array (they are not part of the matrix)
            n = rng.choice([3, 4])
            if spd_like:
                A = sym_band(n, 3.0, -1.0)
                data = np.array([[3.0] * n, [7.0] + [-1.0] * (n - 1), [-1.0] * (n - 1) + [5.0]])
                o = spa.dia_matrix((data, [0, 1, -1]), shape=(n, n))
            else:
                data = np.array([[2.0] * n, [7.0] + [-3.0] * (n - 1)])
                o = spa.dia_matrix((data, [0, 1]), shape=(n, n))
            add(form, "dia:banded-nonzero-padding", n, o, _tok_dia(o), np.asarray(o.toarray(), dtype=float))
            # dia_array (not a dia_matrix for spa.isspmatrix_dia): an ordinary sparse matrix
            if hasattr(spa, "dia_array"):
                n = rng.choice([2, 3])
                v = [dy(rng, 0.5, 3) for _ in range(n)]
                o = spa.dia_array((np.array([v]), [0]), shape=(n, n))
                add(form, "dia_array:main-diagonal", n, o, _tok_plain("sparse", np.diag(v).tolist()), np.diag(v))
        # 1x1 scipy-sparse
        for mk, lab in ((spa.csr_matrix, "csr"), (spa.dia_matrix, "dia")):
            o = mk(np.array([[2.0]]))
            add(form, f"sparse-1x1:{lab}", 1, o, _tok_dia(o) if lab == "dia" else _tok_plain("sparse", [[2.0]]), np.array([[2.0]]))
    # above the sparse-storage threshold
    for n in (76, 80):
        v = [float(rng.choice([1, 2, 4])) for _ in range(n)]
        o = spa.diags(v)
        add("sqrtprec", "dia:main-diagonal:dim>75", n, o, _tok_dia(o), np.diag(v))
        o = spa.diags([[2.0] * n, [-1.0] * (n - 1)], [0, 1])
        add("sqrtprec", "dia:banded:dim>75", n, o, _tok_dia(o), np.asarray(o.toarray(), dtype=float))
    # LinearOperator as sqrtprec
    for rep in range(2 * S):
        n = rng.choice([2, 3, 4])
        R = np.triu(np.array([[dy(rng, -1, 1, 2) for _ in range(n)] for _ in range(n)])) + np.eye(n) * 2
        L = aslinearoperator(R)
        add("sqrtprec", "linop:no-logdet", n, L, f"l|{qm(R.tolist())}|-", R)
        L2 = aslinearoperator(R)
        dc = Fraction(1) / (Fraction(float(np.prod(np.diag(R)))) ** 2)          # det of the covariance: 1/det(R)^2 (R triangular, dyadic)
        L2.logdet = np.array([math.log(dc.numerator) - math.log(dc.denominator)])
        add("sqrtprec", "linop:logdet", n, L2, f"l|{qm(R.tolist())}|{dc.numerator}/{dc.denominator}", R)
    Rn = np.array([[1.0, 0.5, 0.0], [0.0, 2.0, 1.0]])
    add("sqrtprec", "linop:non-square", 3, aslinearoperator(Rn), f"l|{qm(Rn.tolist())}|-", None)

    outs = ctx.lean.drive(lines)
    for (form, label, n, obj, A, mu, x), out in zip(jobs, outs):
        desc = {"form": form, "storage": label, "dim": n, "mean": mu, "x": x,
                "matrix": A.tolist() if A is not None and n <= 6 else "(long)",
                "dia_data": np.asarray(obj.data).tolist() if hasattr(obj, "offsets") and n <= 6 else None,
                "dia_offsets": [int(o) for o in obj.offsets] if hasattr(obj, "offsets") else None}
        ctx.case("gauss-stored", desc)
        bump(f"stored:{form}:{label}")
        stored_off = label.startswith("dia:") and form == "sqrtprec" and len(getattr(obj, "offsets", [0])) > 1
        key = f"Gaussian:{form}:stored:{label}" + (":stored-offdiagonals" if stored_off else "")
        xa, mua = np.array(x), np.array(mu)
        try:
            with quiet():
                g = D.Gaussian(mua.copy(), **{form: obj})
        except Exception as e:  # noqa
            g = None; cerr = type(e).__name__
        istat, ival = call(lambda: g.logpdf(xa)) if g is not None else ("raise", cerr)
        t = out.split()
        mism, fail = [], None
        # ---- oracle (implementation only): a returned value must be the documented density
        if istat == "value" and A is not None and A.shape == (n, n):
            try:
                C = doc_cov(form, A)
                ref = float(sps.multivariate_normal(mua, C).logpdf(xa))
                if not relclose(ref, ival, 1e-8):
                    fail = (ref, ival, "Gaussian.logpdf returns a value that is not the documented density for this storage of the matrix "
                                       "(dia_matrix sqrtprec: log-determinant taken from the whole stored data array, padding and off-diagonal bands included)"
                            if stored_off else "Gaussian.logpdf is not the documented density for this storage of the matrix")
            except Exception:
                pass
        # ---- tie
        if t[0] == "ok":
            if istat != "value" or not close(dec(t[4]), ival, 1e-9):
                mism.append(f"logpdf {[istat, ival]} vs model {dec(t[4])}")
            if g is not None:
                with quiet():
                    try:
                        lu = fnum(g._logupdf(xa)); ld = fnum(g.logdet); rk = int(g.rank)
                    except Exception as e:  # noqa
                        lu = ld = rk = None; mism.append(f"_logupdf / logdet / rank raised {type(e).__name__}")
                if rk is not None:
                    dc = Fraction(t[2][2:])
                    if rk != int(t[1]):
                        mism.append(f"rank {rk} vs model {t[1]}")
                    if not close(math.log(dc.numerator) - math.log(dc.denominator), ld, 1e-9):
                        mism.append(f"logdet {ld} vs model")
                    if not close(dec(t[5]), lu, 1e-9):
                        mism.append(f"_logupdf {lu} vs model {dec(t[5])}")
        elif t[0] == "-inf":
            if istat != "value" or ival != float("-inf"):
                mism.append(f"model: logdet +inf, logpdf -inf; implementation {[istat, ival]}")
            elif g is not None:
                with quiet():
                    lu = fnum(g._logupdf(xa))
                if not close(-0.5 * dec(t[1]), lu, 1e-9):
                    mism.append(f"_logupdf {lu} vs model {-0.5 * dec(t[1])}")
        elif t[0] == "nologdet":
            if istat != "raise" or ival != "NotImplementedError":
                mism.append(f"model: logpdf refused (no log-determinant); implementation {[istat, ival]}")
            elif g is not None:
                with quiet():
                    lu = fnum(g._logupdf(xa))
                if not close(-0.5 * dec(t[1]), lu, 1e-9):
                    mism.append(f"_logupdf {lu} vs model {-0.5 * dec(t[1])}")
                    fail = fail or (-0.5 * dec(t[1]), lu, "un-normalised log-density is not -1/2 (x-mu)^T P (x-mu)")
        elif t[0] == "raise":
            if istat != "raise":
                mism.append(f"model: refused; implementation {[istat, ival]}")
        else:
            ctx.note(f"gstored: model answer {out[:30]} for {form}/{label}")
        verdict(ctx, key, desc, not mism, out[:120], mism, fail, "stored Gaussian argument: model and implementation differ: " + "; ".join(mism))

    # ------------------------------------------------------------------ B. operation histories on one object
    def rand_spec(form, n):
        """(label, python object, token, full matrix A)"""
        kind = rng.choice(["scalar", "vector", "dense", "dense", "csr-diag", "dia-diag"])
        pos = form in ("cov", "prec")
        if kind == "scalar":
            v = dy(rng, 0.5, 3); return kind, float(v), _tok_plain("scalar", [[v]]), np.eye(n) * v
        if kind in ("vector", "csr-diag", "dia-diag"):
            v = [dy(rng, 0.5, 3) * (1 if pos else rng.choice([1, 1, -1])) for _ in range(n)]
            if kind == "vector":
                return kind, np.array(v), _tok_plain("vector", [v]), np.diag(v)
            if kind == "csr-diag":
                return kind, spa.csr_matrix(np.diag(v)), _tok_plain("sparse", np.diag(v).tolist()), np.diag(v)
            o = spa.diags(v); return kind, o, _tok_dia(o), np.diag(v)
        while True:
            B = np.array([[dy(rng, -1, 1, 2) for _ in range(n)] for _ in range(n)])
            A = B @ B.T + np.eye(n) * rng.choice([1.0, 2.0]) if pos else (B + B.T) / 2 + np.eye(n) * 2.5      # symmetric (R R^T = R^T R)
            if abs(np.linalg.det(A)) > 0.3 and np.count_nonzero(A - np.diag(np.diag(A))) > 0 and (not pos or np.all(np.linalg.eigvalsh(A) > 0.2)):
                return kind, A, _tok_plain("dense", A.tolist()), A

    runs, olines = [], []
    nrun = 8 * S
    for r in range(nrun):
        n = rng.choice([2, 3, 3, 4])
        form = forms[r % 4]
        mean = [dy(rng, -1, 1) for _ in range(n)]
        ops = []          # (token, python action)
        nkw = 1 if r >= 3 else [0, 2, 1][r]
        if nkw == 0:
            ops.append(("new", ("new", {})))
            form = "cov"; cur = None
        elif nkw == 2:
            f2 = rng.choice([f for f in forms if f != form])
            s1, s2 = rand_spec(form, n), rand_spec(f2, n)
            ops.append((f"new~{form}={s1[2]}~{f2}={s2[2]}", ("new", {form: s1[1], f2: s2[1]})))
            cur = None
        else:
            s1 = rand_spec(form, n)
            ops.append((f"new~{form}={s1[2]}", ("new", {form: s1[1]})))
            cur = s1
        for step in range(rng.choice([4, 5, 6, 7])):
            c = rng.random()
            if c < 0.35:
                s = rand_spec(form, n); ops.append((f"set~{form}~{s[2]}", ("set", form, s[1], s))); cur_new = s
            elif c < 0.47:
                f2 = rng.choice([f for f in forms if f != form]); s = rand_spec(f2, n)
                ops.append((f"set~{f2}~{s[2]}", ("set", f2, s[1], None))); cur_new = None
            elif c < 0.57:
                m = [dy(rng, -1, 1) for _ in range(n)]; ops.append((f"mean~{qv(m)}", ("mean", m))); cur_new = None
            elif c < 0.77:
                ops.append(("ccov", ("ccov",))); cur_new = None
            else:
                ops.append(("rcov", ("rcov",))); cur_new = None
            for extra in rng.sample(["rcov", "lp", "ccov", "rcov"], rng.choice([1, 2, 2, 3])):
                if extra == "lp":
                    x = [dy(rng, -2, 2) for _ in range(n)]
                    ops.append((f"lp~{qv(x)}", ("lp", x)))
                else:
                    ops.append((extra, (extra,)))
        olines.append(f"gobj {n} {qv(mean)} " + " ".join(o[0] for o in ops))
        runs.append((n, form, mean, ops))
    # MAX_DIM_INV: compute_cov is refused above it
    T = int(config.MAX_DIM_INV)
    olines.append("maxdiminv")
    olines.append(f"gobj {T + 1} 0 new~prec=p|scalar|2 ccov")
    olines.append(f"gobj {T + 1} 0 new~cov=p|scalar|2 ccov rcov")
    oouts = ctx.lean.drive(olines)

    for (n, form, mean, ops), out in zip(runs, oouts):
        answers = out.split(" ")
        g, log = None, []
        cur_A, cur_mean, cur_obj = None, np.array(mean), None
        for (tok, act), ans in zip(ops, answers):
            log.append(tok if len(tok) < 60 else tok[:57] + "...")
            desc = {"dim": n, "form": form, "mean0": mean, "history": list(log)}
            ctx.case("gauss-object", desc)
            bump(f"object:{act[0]}:{ans.split(':')[0] if not ans.startswith('f:') else 'value'}")
            key = f"Gaussian:object:{form}:{act[0]}"
            mism, fail = [], None
            if act[0] == "new":
                try:
                    with quiet():
                        g = D.Gaussian(np.array(mean), **act[1])
                    got = "ok"
                    if len(act[1]) == 1:
                        cur_obj = list(act[1].values())[0]
                except Exception as e:  # noqa
                    g = None; got = "E:" + type(e).__name__
                if got != ans:
                    mism.append(f"constructor: {got} vs model {ans}")
                if len(act[1]) == 1:
                    cur_A = _full(list(act[1].values())[0], n)
            elif g is None:
                if ans != "-":
                    mism.append(f"no object, model answers {ans}")
            elif act[0] == "set":
                try:
                    with quiet():
                        setattr(g, act[1], act[2])
                    got = "ok"
                except Exception as e:  # noqa
                    got = "E:" + type(e).__name__
                if got != ans:
                    mism.append(f"assignment to {act[1]}: {got} vs model {ans}")
                if got == "ok":
                    if act[1] == form:
                        cur_A = _full(act[2], n); cur_obj = act[2]
                    else:
                        cur_A = None           # accepted against the model: what the object now denotes is not defined by the property (tie break only)
            elif act[0] == "mean":
                with quiet():
                    g.mean = np.array(act[1])
                cur_mean = np.array(act[1])
            elif act[0] in ("ccov", "rcov"):
                try:
                    with quiet():
                        r = g.compute_cov() if act[0] == "ccov" else g.cov
                    got = r
                except Exception as e:  # noqa
                    got = "E:" + type(e).__name__
                Cdoc = doc_cov(form, cur_A) if cur_A is not None else None
                if isinstance(got, str):
                    if got != ans:
                        mism.append(f"{act[0]}: {got} vs model {ans}")
                        if act[0] == "ccov" and Cdoc is not None:
                            fail = (Cdoc.tolist(), got, "compute_cov() refuses although the matrix is set and dim <= MAX_DIM_INV")
                elif got is None:
                    if ans != "None":
                        mism.append(f"{act[0]}: None vs model {ans}")
                else:
                    Gm = np.asarray(_dense(got), dtype=float)
                    if ans == "R":
                        U = np.asarray(_dense(cur_obj), dtype=float) if cur_obj is not None else None
                        if U is None or Gm.size != U.size or not np.array_equal(Gm.ravel(), U.ravel()):
                            mism.append(f"{act[0]}: returned object is not the user's covariance argument")
                    elif ans.startswith("M:"):
                        Cm = _parse_mat(ans[2:])
                        if Gm.shape != Cm.shape or not np.allclose(Gm, Cm, rtol=1e-8, atol=1e-10):
                            mism.append(f"{act[0]}: matrix differs from the model's exact covariance")
                    else:
                        mism.append(f"{act[0]}: a matrix vs model {ans}")
                    # oracle: a covariance that is returned must be the covariance of the CURRENT specification
                    if Cdoc is not None:
                        Gfull = Gm if Gm.shape == (n, n) else (np.eye(n) * Gm.ravel()[0] if Gm.size == 1 else np.diag(Gm.ravel()))
                        if Gfull.shape != Cdoc.shape or not np.allclose(Gfull, Cdoc, rtol=1e-7, atol=1e-9):
                            fail = (Cdoc.tolist(), Gfull.tolist(),
                                    ("compute_cov()" if act[0] == "ccov" else "`cov`") + " is not the covariance of the current specification (stale or wrongly expanded)")
            elif act[0] == "lp":
                xa = np.array(act[1])
                st, v = call(lambda: g.logpdf(xa))
                if ans.startswith("f:"):
                    if st != "value" or not close(dec(ans), v, 1e-9):
                        mism.append(f"logpdf {[st, v]} vs model {dec(ans)}")
                elif ans == "E:NotImplementedError":
                    if st != "raise" or v != "NotImplementedError":
                        mism.append(f"logpdf {[st, v]} vs model {ans}")
                elif ans not in ("unsupported",):
                    if not (st == "raise" and ans == "raise") and not (st == "value" and ans == "-inf" and v == float("-inf")):
                        mism.append(f"logpdf {[st, v]} vs model {ans}")
                if cur_A is not None and st == "value":
                    ref = float(sps.multivariate_normal(cur_mean, doc_cov(form, cur_A)).logpdf(xa))
                    if not relclose(ref, v, 1e-8):
                        fail = (ref, v, "after this history logpdf is not the density of the current specification")
                elif cur_A is not None and st == "raise" and not spa.issparse(cur_obj):
                    fail = ("a value", f"raises {v}", "after this history logpdf is refused for a valid dense specification")
            verdict(ctx, key, desc, not mism, ans[:100], mism, fail, "Gaussian object: model and implementation differ: " + "; ".join(mism))
            if act[0] == "new" and mism:
                break          # constructor outcomes differ: the rest of the history has nothing to be compared with

    # ---- MAX_DIM_INV
    o_const, o_prec, o_cov = oouts[len(runs)], oouts[len(runs) + 1], oouts[len(runs) + 2]
    ctx.case("gauss-object-maxdiminv", {"MAX_DIM_INV": T})
    if int(o_const) != T:
        ctx.disagree("config:MAX_DIM_INV", {}, o_const, T, "the model's constant is not the configuration's")
        ctx.note("MAX_DIM_INV changed: compute_cov refusal is checked around the model's constant only")
    else:
        for fm, oo in (("prec", o_prec), ("cov", o_cov)):
            with quiet():
                g = D.Gaussian(np.zeros(T + 1), **{fm: 2.0})
            st, v = call(lambda: float(np.asarray(_dense(g.compute_cov())).sum()))
            got = "E:" + v if st == "raise" else "a matrix"
            want = oo.split(" ")[1]
            desc = {"dim": T + 1, "form": fm}
            ctx.case("gauss-object-maxdiminv", desc)
            if got != want:
                ctx.disagree(f"Gaussian:object:{fm}:compute_cov:dim>MAX_DIM_INV", desc, want, got, "compute_cov above MAX_DIM_INV")
        # at the constant itself the covariance must still be offered (implementation only; cov form: no inversion)
        with quiet():
            g = D.Gaussian(np.zeros(T), cov=2.0)
        st, v = call(lambda: float(np.trace(np.asarray(_dense(g.compute_cov())))))
        ctx.case("gauss-object-maxdiminv", {"dim": T, "form": "cov"})
        if st != "value" or not close(v, 2.0 * T, 1e-9):
            ctx.disagree("Gaussian:object:cov:compute_cov:dim=MAX_DIM_INV", {"dim": T}, 2.0 * T, [st, v], "compute_cov at MAX_DIM_INV")
            ctx.fail("Gaussian:object:cov:compute_cov:dim=MAX_DIM_INV", {"dim": T}, 2.0 * T, [st, v],
                     "compute_cov() at dim = MAX_DIM_INV does not return cov*I (refused or wrong)")


def _full(obj, n):
    """full n x n matrix a user argument denotes (scalar / vector / dense / sparse)"""
    if spa.issparse(obj):
        return np.asarray(obj.toarray(), dtype=float)
    a = np.asarray(obj, dtype=float)
    if a.ndim == 0 or a.size == 1 and a.ndim < 2:
        return np.eye(n) * float(a.ravel()[0])
    if a.ndim == 1:
        return np.diag(a)
    return a
