"""C12, session-3 extension streams (helper module of harness/props/c12.py; own random streams, so the older
streams of c12.py see exactly the inputs they saw before).

  nofun2par_ranges   range geometries WITHOUT fun2par whose parameter and function sizes coincide (user geometry with a
                     square linear / elementwise par2fun, KLExpansion_Full): `forward` must refuse for every
                     representation, or return parameters p with R.par2fun(p) = F(D.par2fun(x)).
"""
import numpy as np
from harness.core import quiet, q, qv, qm


def _base():
    from harness.props import c12
    return c12


def nofun2par_ranges(ctx, cuqi, lines, pending, verdicts, oracle_jobs, nconf):
    b = _base()
    from cuqi.array import CUQIarray
    from cuqi.samples import Samples
    G = cuqi.geometry
    rng = np.random.RandomState(ctx.seed + 1207)
    cov = ctx.extra_cov.setdefault("nofun2par_range_configs", {})

    class UserLinearRange(G.Geometry):
        """user geometry with par2fun = E p (E square) and NO fun2par"""
        def __init__(self, E):
            self._E = E
        @property
        def par_shape(self):
            return (self._E.shape[1],)
        @property
        def fun_shape(self):
            return (self._E.shape[0],)
        def par2fun(self, p):
            return self._E @ p
        def _plot(self):
            pass

    class UserCubeRange(G.Geometry):
        """user geometry with par2fun = p**3 elementwise and NO fun2par"""
        def __init__(self, n):
            self._n = n
        @property
        def par_shape(self):
            return (self._n,)
        @property
        def fun_shape(self):
            return (self._n,)
        def par2fun(self, p):
            return p ** 3
        def _plot(self):
            pass

    MK = ["gen-none-k", "linmat", "linfun-k", "gen-jac-s", "linfun-s", "pde-none", "gen-gd-k", "heat-jac"]
    DK = ["cont1d", "default1d", "map-sq-1-1d", "step", "discrete", "kl"]
    RK = ["user-linear", "klfull", "user-cube", "user-linear-singular"]
    for ci in range(nconf):
        mk = MK[ci % len(MK)]
        dk = DK[(ci // 2) % len(DK)]
        rk = RK[ci % len(RK)] if ci >= 3 else RK[ci]
        n = int(rng.randint(2, 5))
        D = b.make_geometries(cuqi, rng, n, dk)
        if D is None:
            continue
        nDf = int(np.prod(D.fun_shape))
        nr = nDf if mk.startswith("heat") else int(rng.randint(2, 5))
        if rk.startswith("user-linear"):
            E = rng.randint(-2, 3, size=(nr, nr)).astype(float)
            if rk.endswith("singular"):
                E[:, -1] = E[:, 0]
            robj = UserLinearRange(E)
            Et = qm(E)
            R = b.Geo("UserLinearRange", "lin", robj, lambda g, gr, Et=Et: f"lin:{g}:0:{gr}:{Et}:none:1", False, (nr,), nr, keeps=True, has_f2p=False)
        elif rk == "user-cube":
            robj = UserCubeRange(nr)
            R = b.Geo("UserCubeRange", "mapn", robj, lambda g, gr: f"mapn:{g}:{gr}:id:cube:0", False, (nr,), nr, has_f2p=False)
        else:
            robj = G.KLExpansion_Full(np.linspace(0.0, 1.0, nr), std=2.0, cor_len=0.5, nu=1.0)
            with quiet():
                E = np.column_stack([np.asarray(robj.par2fun(e), dtype=float) for e in np.eye(nr)])
            Et = qm(E)
            R = b.Geo("KLExpansion_Full", "lin", robj, lambda g, gr, Et=Et: f"lin:{g}:0:{gr}:{Et}:none:0", False, (nr,), nr, keeps=False, has_f2p=False, exact=False)
        try:
            M = b.build_model(cuqi, rng, mk, D, R, D.obj, R.obj)
        except Exception as e:
            ctx.note(f"nofun2par: constructor refused {mk} {D.label}->{R.label}: {type(e).__name__}: {str(e)[:60]}")
            continue
        model = M.obj
        Dg, Rg = model.domain_geometry, model.range_geometry
        assert Rg.par_dim == int(np.prod(R.fun_shape))          # the sizes coincide: a pass-through would go unnoticed by shape
        eqr = b_eq(Dg, Rg) + b_eq(Rg, Dg)
        gD, gR = 0, 1
        Dtok, Rtok = D.token(gD), R.token(gR)
        foreign = G.Continuous1D(np.arange(D.par_dim) + 0.5)
        canon = b.Canon(cuqi, [(Dg, gD), (Rg, gR), (foreign, 2)])
        exact = D.exact and R.exact and M.exact
        tol = b.EXACT_TOL if exact else b.TOL
        conf = {"nofun2par_range": True, "model": mk, "domain": D.label, "domain_gradient": None, "range": R.label, "n": D.par_dim,
                "seed_index": 600000 + ci, "geometry_eq_raises": False, "loose_geometry_eq": False}
        cov[f"{mk.split('-')[0]}|{D.label}|{R.label}"] = cov.get(f"{mk.split('-')[0]}|{D.label}|{R.label}", 0) + 1
        lo = 0 if (D.nonneg or M.nonneg) else -3
        x = rng.randint(lo, 4, size=D.par_dim).astype(float)
        with quiet():
            fx = np.asarray(Dg.par2fun(x), dtype=float)
        Ns = int(rng.randint(1, 4))
        Xs = rng.randint(lo, 4, size=(D.par_dim, Ns)).astype(float)
        Xs[:, 0] = x
        fl = lambda tok, ip=True: f"fwd {M.token} {Dtok} {Rtok} {eqr} {tok} {b.tok_bool(ip)} 1 _"
        reps = [("nd-par", lambda: model.forward(x.copy()), fl(f"nd:{qv(x)}")),
                ("nd-fun", lambda: model.forward(fx.copy(), is_par=False), fl(f"nd:{qv(fx.ravel())}", False)),
                ("arr-par", lambda: model.forward(CUQIarray(x.copy(), is_par=True, geometry=Dg)), fl(f"arr:1:{gD}:{qv(x)}")),
                ("arr-fun", lambda: model.forward(CUQIarray(fx.copy(), is_par=False, geometry=Dg)), fl(f"arr:0:{gD}:{qv(fx.ravel())}")),
                ("arr-fun-argF", lambda: model.forward(CUQIarray(fx.copy(), is_par=False, geometry=Dg), is_par=False), fl(f"arr:0:{gD}:{qv(fx.ravel())}", False)),
                ("samples", lambda: model.forward(Samples(Xs.copy(), geometry=Dg)), fl(f"smp:1:{gD}:{qm(Xs.T)}")),
                ("samples-nogeom", lambda: model.forward(Samples(Xs.copy())), fl(f"smp:1:7:{qm(Xs.T)}")),
                ("arr-foreign-par", lambda: model.forward(CUQIarray(x.copy(), is_par=True, geometry=foreign)), fl(f"arr:1:2:{qv(x)}"))]
        results = {}
        for kind, thunk, line in reps:
            st, val = b.call(thunk)
            c = canon(val) if st == "ok" else ("err", val)
            results[kind] = c
            desc = {**conf, "call": "forward", "input": kind, "x": x.tolist()}
            ctx.case("nofun2par:forward:" + kind, desc, nontrivial=True)
            lines.append(line); pending.append((len(lines) - 1, f"tie:forward:{kind}", desc, c, tol))
        oracle_jobs.append(("forward", conf, M, D, R, model, Dg, Rg, x, fx, Xs, None, results, gR, exact))
        # gradient is refused: the range geometry is not identity-like
        d = rng.randint(-3, 4, size=R.par_dim).astype(float)
        st, val = b.call(lambda: model.gradient(d.copy(), x.copy()))
        c = canon(val) if st == "ok" else ("err", val)
        desc = {**conf, "call": "gradient", "wrt": "nd-par", "direction": "nd-par", "x": x.tolist(), "d": d.tolist()}
        ctx.case("nofun2par:gradient", desc)
        lines.append(f"grad {M.token} {Dtok} {Rtok} {eqr} nd:{qv(d)} nd:{qv(x)} 1 1")
        pending.append((len(lines) - 1, "tie:gradient:wrt-nd-par:dir-nd-par", desc, c, tol))
        if c[0] != "err":
            ctx.fail("gradient:norange-identity:wrt-nd-par:dir-nd-par:refusal", desc, "an exception (range geometry is not identity-like)", b.short(c),
                     "gradient returned a value where it must be refused")


def b_eq(a_, b_):
    try:
        with quiet():
            return "T" if bool(a_ == b_) else "F"
    except IndexError:
        return "I"
    except KeyError:
        return "K"


# ------------------------------------------------------------------------------------------------ LinearModel objects
LIN_PATHS_NOT = ["_", "g", "g,g"]
LIN_PATHS_T = ["T", "g,T", "T,g", "T,T", "g,T,g", "T,g,T", "g,T,T"]


def linear_objects(ctx, cuqi, lines, pending, verdicts, nconf):
    """`LinearModel` objects (matrix-backed, function-backed with subclass-keeping / stripping callables) x domain / range
    geometries (identity-like, affine / square / cube `MappedGeometry`, expansions) x a call PATH of `get_matrix()` and `.T`
    steps, then probes on the object reached: forward / adjoint on the in-scope representations and Samples, `@`,
    `get_matrix()`, `gradient`, `_non_default_args`.  Model side: `Model/C12_linear.lean` through the driver op `lin`
    (the conversions of `.T` — a LinearModel built from the BOUND methods — are computed by the model).
    Oracle: (a) forward of the object reached acts identically on every in-scope representation (wrapped like the input);
    (b) the probes do not depend on whether `get_matrix()` was called on the way."""
    b = _base()
    from cuqi.array import CUQIarray
    from cuqi.samples import Samples
    G = cuqi.geometry
    rng = np.random.RandomState(ctx.seed + 1211)
    cov = ctx.extra_cov.setdefault("linear_object_configs", {})
    covp = ctx.extra_cov.setdefault("linear_object_paths", {})
    covo = ctx.extra_cov.setdefault("linear_object_outcomes", {})
    # (no sqrt-inverse maps here: the exact model cannot take irrational roots, and a cached matrix would then differ)
    FLAT = ["cont1d", "discrete", "default1d", "map-aff-1-1d", "map-aff-1-1d", "map-cube-0-1d", "map-sq-0-1d"]
    EXPN = ["step", "kl", "custom"]
    for ci in range(nconf):
        backing = ["matrix", "function-k", "function-s"][ci % 3]
        with_T = ci % 4 != 3
        if with_T:
            dk = FLAT[(ci // 3) % len(FLAT)]; rk = FLAT[(ci // 2 + 3) % len(FLAT)] if ci % 5 else "cont1d"
            path = LIN_PATHS_T[ci % len(LIN_PATHS_T)] if ci % 8 else "_"
        else:
            dk = (FLAT + EXPN)[(ci // 4) % (len(FLAT) + len(EXPN))]; rk = (FLAT[:5] + ["step"])[(ci // 8) % 6]
            path = LIN_PATHS_NOT[(ci // 4) % len(LIN_PATHS_NOT)]
        n = int(rng.randint(2, 4)); nr = int(rng.randint(2, 4))
        D = b.make_geometries(cuqi, rng, n, dk)
        R = b.make_geometries(cuqi, rng, nr, rk)
        if D is None or R is None:
            continue
        nDf, nRf = int(np.prod(D.fun_shape)), int(np.prod(R.fun_shape))
        A = rng.randint(-2, 3, size=(nRf, nDf)).astype(float)

        def make(A=A, backing=backing, D=D, R=R):
            with quiet():
                if backing == "matrix":
                    return cuqi.model.LinearModel(A.copy(), range_geometry=R.obj, domain_geometry=D.obj)
                if backing == "function-k":
                    return cuqi.model.LinearModel(lambda x: A @ x, lambda y: A.T @ y, range_geometry=R.obj, domain_geometry=D.obj)
                return cuqi.model.LinearModel(lambda x: A @ np.asarray(x, dtype=float), lambda y: A.T @ np.asarray(y, dtype=float),
                                              range_geometry=R.obj, domain_geometry=D.obj)
        mtok = f"linmat:{qm(A)}" if backing == "matrix" else f"linfun:{b.tok_bool(backing == 'function-k')}:{qm(A)}:{qm(A.T)}:x"
        try:
            root = make()
        except Exception as e:
            ctx.note(f"linear-objects: constructor refused {backing} {D.label}->{R.label}: {type(e).__name__}")
            continue
        Dg, Rg = root.domain_geometry, root.range_geometry
        eqr = b_eq(Dg, Rg) + b_eq(Rg, Dg)
        if "I" in eqr or "K" in eqr:
            continue
        loose = (eqr[0] == "T" and type(Dg) is not type(Rg)) or (eqr[1] == "T" and type(Dg) is not type(Rg))
        Dtok, Rtok = D.token(0), R.token(1)
        canon = b.Canon(cuqi, [(Dg, 0), (Rg, 1)])
        exact = D.exact and R.exact
        tol = b.EXACT_TOL if exact else b.TOL
        head = f"lin {mtok} {Dtok} {Rtok} {eqr} {D.par_dim} {R.par_dim} {path}"

        def walk(model, path, with_g=True):
            """follow the path on the real objects; errors of get_matrix are swallowed like `afterGetMatrix` does"""
            cur = model
            for o in ([] if path == "_" else path.split(",")):
                if o == "T":
                    with quiet():
                        cur = cur.T
                elif with_g:
                    try:
                        with quiet():
                            cur.get_matrix()
                    except Exception:
                        pass
            return cur
        try:
            cur = walk(root, path)
            ref_root = make()
            ref_obj = walk(ref_root, path, with_g=False)      # the same object without any get_matrix() on the way
        except Exception as e:
            ctx.note(f"linear-objects: path {path} raised {type(e).__name__} ({backing}, {D.label}->{R.label})")
            continue
        nT = path.count("T")
        cD, cR = (D, R) if nT % 2 == 0 else (R, D)              # roles of the geometries for the object reached
        cDg, cRg = cur.domain_geometry, cur.range_geometry
        gcD, gcR = (0, 1) if nT % 2 == 0 else (1, 0)
        conf = {"linear_object": True, "backing": backing, "domain": D.label, "range": R.label, "path": path, "n": D.par_dim,
                "A": A.tolist(), "seed_index": 700000 + ci}
        cov[f"{backing}|{D.family}|{R.family}"] = cov.get(f"{backing}|{D.family}|{R.family}", 0) + 1
        covp[path] = covp.get(path, 0) + 1
        lo = 0 if (cD.nonneg or cR.nonneg) else -3
        x = rng.randint(lo, 4, size=cD.par_dim).astype(float)
        y = rng.randint(lo, 4, size=cR.par_dim).astype(float)
        Xs = rng.randint(lo, 4, size=(cD.par_dim, 2)).astype(float); Xs[:, 0] = x
        Ys = rng.randint(lo, 4, size=(cR.par_dim, 2)).astype(float); Ys[:, 0] = y
        with quiet():
            fx = np.asarray(cDg.par2fun(x), dtype=float)
            fy = np.asarray(cRg.par2fun(y), dtype=float)
        arr_ok = not loose
        probes = [("fwd:nd-par", lambda o: o.forward(x.copy()), f"fwd nd:{qv(x)} 1"),
                  ("fwd:nd-fun", lambda o: o.forward(fx.copy(), is_par=False), f"fwd nd:{qv(fx.ravel())} 0"),
                  ("fwd:samples", lambda o: o.forward(Samples(Xs.copy(), geometry=cDg)), f"fwd smp:1:{gcD}:{qm(Xs.T)} 1"),
                  ("adj:nd-par", lambda o: o.adjoint(y.copy()), f"adj nd:{qv(y)} 1"),
                  ("adj:nd-fun", lambda o: o.adjoint(fy.copy(), is_par=False), f"adj nd:{qv(fy.ravel())} 0"),
                  ("adj:samples", lambda o: o.adjoint(Samples(Ys.copy(), geometry=cRg)), f"adj smp:1:{gcR}:{qm(Ys.T)} 1"),
                  ("mm:nd", lambda o: o @ x.copy(), f"mm nd:{qv(x)}"),
                  ("mm:samples", lambda o: o @ Samples(Xs.copy(), geometry=cDg), f"mm smp:1:{gcD}:{qm(Xs.T)}"),
                  ("grad:nd-nd", lambda o: o.gradient(y.copy(), x.copy()), f"grad nd:{qv(y)} nd:{qv(x)} 1 1"),
                  ("args", lambda o: o._non_default_args, "args"),
                  ("gm", lambda o: o.get_matrix(), "gm")]          # last: it fills the cache of the object probed
        if arr_ok:
            probes[2:2] = [("fwd:arr-par", lambda o: o.forward(CUQIarray(x.copy(), is_par=True, geometry=cDg)), f"fwd arr:1:{gcD}:{qv(x)} 1"),
                           ("fwd:arr-par-argF", lambda o: o.forward(CUQIarray(x.copy(), is_par=True, geometry=cDg), is_par=False), f"fwd arr:1:{gcD}:{qv(x)} 0"),
                           ("fwd:arr-fun", lambda o: o.forward(CUQIarray(fx.copy(), is_par=False, geometry=cDg)), f"fwd arr:0:{gcD}:{qv(fx.ravel())} 1")]
            probes[8:8] = [("adj:arr-par", lambda o: o.adjoint(CUQIarray(y.copy(), is_par=True, geometry=cRg)), f"adj arr:1:{gcR}:{qv(y)} 1"),
                           ("adj:arr-fun", lambda o: o.adjoint(CUQIarray(fy.copy(), is_par=False, geometry=cRg)), f"adj arr:0:{gcR}:{qv(fy.ravel())} 1"),
                           ("grad:arr-nd", lambda o: o.gradient(CUQIarray(y.copy(), geometry=cRg), x.copy()), f"grad arr:1:{gcR}:{qv(y)} nd:{qv(x)} 1 1")]

        # (the reference object has its own geometry objects when they were given as int: its own canonicaliser)
        canon_ref = b.Canon(cuqi, [(ref_root.domain_geometry, 0), (ref_root.range_geometry, 1)])

        def canon_any(lab, st, val, canon=canon):
            if st != "ok":
                return ("err", val)
            if lab == "gm":
                Mx = val.toarray() if hasattr(val, "toarray") else np.asarray(val)
                return ("raw", None, np.array(Mx, dtype=float))
            if lab == "args":
                return ("raw", f"args {','.join(val)} {b.tok_bool(cur._matrix is not None)}")
            return canon(val)
        got, got_ref = {}, {}
        for lab, th, ptok in probes:
            # `gm` last on `cur` (it fills the cache); the reference object is probed in the same order
            st, val = b.call(lambda: th(cur))
            c = canon_any(lab, st, val)
            got[lab] = c
            st2, val2 = b.call(lambda: th(ref_obj))
            got_ref[lab] = canon_any(lab, st2, val2, canon_ref) if lab != "args" else None
            desc = {**conf, "call": "linear-object", "probe": lab, "x": x.tolist(), "y": y.tolist()}
            ctx.case(f"linobj:{'T' if nT else 'plain'}:{lab}", desc, nontrivial=True)
            covo[c[0] if c[0] != "raw" else "ok"] = covo.get(c[0] if c[0] != "raw" else "ok", 0) + 1
            lines.append(f"{head} {ptok}")
            if lab == "gm" and c[0] == "raw":
                pending.append((len(lines) - 1, f"tie:linobj:{lab}", desc, ("mat", c[2]), tol))
            elif lab == "args":
                pending.append((len(lines) - 1, f"tie:linobj:{lab}", desc, ("raw", c[1]), 0.0))
            else:
                pending.append((len(lines) - 1, f"tie:linobj:{lab}", desc, c, tol))
        # ---- oracle (b): nothing depends on get_matrix() having been called on the way
        if "g" in path:
            for lab in got:
                a_, r_ = got[lab], got_ref[lab]
                if r_ is None or lab == "gm":       # the matrix itself is not C12's subject (C07)
                    continue
                same = (a_[0] == r_[0]) and (a_[1] == r_[1] if a_[0] == "err" else
                                              (a_[2].shape == r_[2].shape and b.veq(a_[2], r_[2], tol)) if a_[0] == "raw" else b.same_canon(a_, r_, tol))
                desc = {**conf, "call": "linear-object", "probe": lab, "x": x.tolist(), "y": y.tolist()}
                if not same:
                    ctx.fail(f"linobj:{lab}:depends-on-get_matrix", desc, _sh(b, r_), _sh(b, a_), "the same call gives another result after get_matrix() filled the cache")
                else:
                    verdicts["linobj:history-independent"] = verdicts.get("linobj:history-independent", 0) + 1
        # ---- oracle (a): forward of the object reached is representation-invariant and wraps like the input
        base_c = got["fwd:nd-par"]
        dbl = "plain" if nT == 0 else ("transposed-identity" if (cD.ident and cR.ident and D.ident and R.ident) else "transposed-converting")
        for lab in ("fwd:nd-fun", "fwd:arr-par", "fwd:arr-par-argF", "fwd:arr-fun", "fwd:samples", "mm:nd", "mm:samples"):
            if lab not in got:
                continue
            c = got[lab]
            desc = {**conf, "call": "linear-object", "probe": lab, "x": x.tolist(), "reference_probe": "fwd:nd-par"}
            key = f"linobj:{dbl}:{lab}"
            if base_c[0] == "err" or c[0] == "err":
                if (base_c[0] == "err") != (c[0] == "err"):
                    if lab == "fwd:nd-fun" or "fun" in lab:
                        continue        # function-value forms may be refused / accepted independently (fun2par availability)
                    ctx.fail(key + ":raised", desc, _sh(b, base_c), _sh(b, c), "one representation of the same parameter vector is refused, another accepted")
                continue
            num_b = base_c[1]
            num_c = c[1] if c[0] == "nd" else c[3][:, 0] if c[0] == "smp" else c[3]
            if num_c.shape != num_b.shape or not b.veq(num_c, num_b, max(tol, 1e-9)):
                ctx.fail(key + ":value", desc, _sh(b, base_c), _sh(b, c),
                         "the outputs for two representations of the same parameter vector differ")
                verdicts["linobj:representation:differs"] = verdicts.get("linobj:representation:differs", 0) + 1
            else:
                verdicts["linobj:representation:same"] = verdicts.get("linobj:representation:same", 0) + 1
            want_kind = "arr" if lab.startswith("fwd:arr") else "smp" if "samples" in lab else "nd"
            if c[0] != want_kind or (want_kind == "arr" and not (c[1] is True and c[2] == gcR)) or (want_kind == "smp" and not (c[1] == gcR and c[2] is True)):
                ctx.fail(key + ":wrap", desc, f"{want_kind} (parameters on the range geometry)", _sh(b, c), "output is not wrapped like the input")


def _sh(b, c):
    if c is None:
        return None
    if c[0] == "raw":
        return c[1] if c[1] is not None else np.round(c[2], 9).tolist()
    return b.short(c)


# ------------------------------------------------------------------------------------------------ constructors and glue
def constructors(ctx, cuqi, lines, pending, thorough):
    """`Model.__init__`, `LinearModel.__init__`, `PDEModel.__init__`, `CUQIarray.__new__`, `Samples.__iter__ / Ns` against
    `Model/C12_ctor.lean` (driver ops ctor / linctor / pdector / arrnew / iter): which exception class in which order of the
    checks, how the geometry arguments are read, which gradient function is installed, the names of the model's input,
    `domain_dim` / `range_dim` / `len(model)`.  Pure correspondence stream (the property does not speak about constructors)."""
    import inspect
    from cuqi.array import CUQIarray
    from cuqi.samples import Samples
    G = cuqi.geometry
    rng = np.random.RandomState(ctx.seed + 1213)
    cov = ctx.extra_cov.setdefault("constructor_outcomes", {})
    geoms = [G.Continuous1D(4), G.Discrete(3), G.Image2D((2, 2)), G.MappedGeometry(G.Continuous1D(2), map=lambda x: x ** 2)]

    def gid(g):
        for i, o in enumerate(geoms):
            if g is o:
                return 40 + i
        return 99
    GEOM_ARGS = [(3, "i:3"), (True, "i:1"), (False, "i:0"), (0, "i:0"), (-2, "i:-2"), (1, "i:1"), ((2, 3), "t:2,3"), ((1, 1), "t:1,1"), ((2, 3, 4), "t:2,3,4"),
                 ((5,), "t:5"), ((), "t:_"), (None, "none"), (2.0, "other"), ("3", "other"), ([2, 3], "other"), (np.int64(3), "other")] + \
                [(g, f"g:{40 + i}:{g.par_dim}") for i, g in enumerate(geoms)]

    def fmt_geom(g):
        if type(g).__name__ == "_DefaultGeometry2D":
            return f"d2:{g.fun_shape[0]}:{g.fun_shape[1]}"
        if type(g).__name__ == "_DefaultGeometry1D":
            return f"d1:{len(g.grid)}"
        return f"g:{gid(g)}:{g.par_dim}"

    def sig_tok(f):
        if hasattr(f, "_non_default_args"):
            return ",".join(f._non_default_args) or "_", "_"
        ps = inspect.signature(f).parameters
        return "-", (",".join(f"{k}.{0 if v.default is inspect._empty else 1}" for k, v in ps.items()) or "_")
    inner = None
    with quiet():
        inner = cuqi.model.Model(lambda q: q, 1, 1)
    FWD = [lambda x: x, lambda a, b=1, *args, **kwargs: a, lambda args, kwargs, z: z, lambda u, *, k: u, lambda theta=2: theta, inner, 3, None, "f"]
    CALL = [("a", None), ("c", "fn"), ("n", 3)]

    def pyarg(v):
        """classification of the python VALUE (the model derives callable(...), the cached names and the non-default arguments from it)"""
        if v is None:
            return "0"
        if isinstance(v, cuqi.model.Model):
            return "M|" + (",".join(v._non_default_args) or "_")
        if inspect.isfunction(v) or inspect.ismethod(v):
            ps = inspect.signature(v).parameters
            return "F|" + (",".join(f"{k}.{0 if p_.default is inspect._empty else 1}" for k, p_ in ps.items()) or "_")
        if isinstance(v, np.ndarray) and v.ndim == 2:
            return f"A|{v.shape[0]}|{v.shape[1]}"
        if isinstance(v, list):
            return "L"
        if isinstance(v, str):
            return "S"
        return "N"

    def run_one(kind, line, thunk, canon_ok, desc, line2=None):
        try:
            with quiet():
                r = thunk()
            impl = canon_ok(r)
        except Exception as e:
            impl = f"err {type(e).__name__}"
        ctx.case(f"ctor:{kind}", desc)
        cov[f"{kind}:{impl.split(' ')[0] if not impl.startswith('err') else impl}"] = cov.get(f"{kind}:{impl.split(' ')[0] if not impl.startswith('err') else impl}", 0) + 1
        lines.append(line); pending.append((len(lines) - 1, f"tie:ctor:{kind}", desc, ("raw", impl), 0.0))
        if line2 is not None:
            lines.append(line2); pending.append((len(lines) - 1, f"tie:ctor:{kind}:from-values", desc, ("raw", impl), 0.0))

    # ---- Model.__init__
    combos = [(fi, gi, ji, ri, di) for fi in range(len(FWD)) for gi in range(3) for ji in range(3) for ri in range(len(GEOM_ARGS)) for di in range(len(GEOM_ARGS))]
    base = [(fi, gi, ji, 0, 0) for fi in range(len(FWD)) for gi in range(3) for ji in range(3)] + \
           [(0, 0, 0, ri, di) for ri in range(len(GEOM_ARGS)) for di in (0, 11, 12, 16)] + [(0, 1, 0, 0, di) for di in range(len(GEOM_ARGS))]
    if not thorough:
        pick = rng.choice(len(combos), size=250, replace=False)
        combos = base + [combos[i] for i in pick]
    for (fi, gi, ji, ri, di) in combos:
        f = FWD[fi]
        ug = (lambda direction, wrt: direction) if CALL[gi][1] == "fn" else CALL[gi][1]
        uj = (lambda wrt: np.eye(1)) if CALL[ji][1] == "fn" else CALL[ji][1]
        ra, rt = GEOM_ARGS[ri]; da, dt = GEOM_ARGS[di]
        fc = callable(f)
        cached, params = sig_tok(f) if fc else ("-", "_")
        line = f"ctor {b_tok(fc)} {CALL[gi][0]} {CALL[ji][0]} {rt} {dt} {cached} {params}"
        desc = {"call": "Model.__init__", "forward": fi, "gradient": CALL[gi][0], "jacobian": CALL[ji][0], "range_arg": rt, "domain_arg": dt, "seed_index": 800000}

        def canon_ok(m, ug=ug):
            gs = "none" if m._gradient_func is None else ("gradient" if m._gradient_func is ug else "jacobian")
            assert len(m) == m.range_dim
            return f"ok {gs} {fmt_geom(m.range_geometry)} {fmt_geom(m.domain_geometry)} {m.range_dim} {m.domain_dim} {','.join(m._non_default_args) or '_'}"
        kw = {}
        if ug is not None:
            kw["gradient"] = ug
        if uj is not None:
            kw["jacobian"] = uj
        run_one("model", line, lambda: cuqi.model.Model(f, ra, da, **kw), canon_ok, desc,
                line2=f"ctorpy {pyarg(f)} {pyarg(ug)} {pyarg(uj)} {rt} {dt}")

    # ---- LinearModel.__init__
    LF = [(np.arange(6.0).reshape(2, 3), "m|2|3"), (np.ones((1, 4)), "m|1|4"), ([[1.0, 2.0]], "n"), (lambda x: x, None), (lambda v, w=0: v, None), (inner, None)]
    ADJ = [("a", None), ("c", lambda y: y), ("n", np.eye(2))]
    lcombos = [(li, ai, ri, di) for li in range(len(LF)) for ai in range(3) for ri in range(len(GEOM_ARGS)) for di in range(len(GEOM_ARGS))]
    if not thorough:
        pick = rng.choice(len(lcombos), size=200, replace=False)
        lcombos = [(li, ai, 11, 11) for li in range(len(LF)) for ai in range(3)] + [(li, 1, 0, 11) for li in range(len(LF))] + [lcombos[i] for i in pick]
    for (li, ai, ri, di) in lcombos:
        f, ftok = LF[li]
        if ftok is None:
            c_, p_ = sig_tok(f)
            ftok = f"c|{c_}|{p_}"
        ra, rt = GEOM_ARGS[ri]; da, dt = GEOM_ARGS[di]
        line = f"linctor {ftok} {ADJ[ai][0]} {rt} {dt}"
        desc = {"call": "LinearModel.__init__", "forward": li, "adjoint": ADJ[ai][0], "range_arg": rt, "domain_arg": dt, "seed_index": 800001}

        def canon_ok(m):
            return f"ok {b_tok(m._matrix is not None)} {fmt_geom(m.range_geometry)} {fmt_geom(m.domain_geometry)} {m.range_dim} {m.domain_dim} {','.join(m._non_default_args) or '_'}"
        run_one("linear", line, lambda: cuqi.model.LinearModel(f, ADJ[ai][1], ra, da), canon_ok, desc,
                line2=f"linctorpy {pyarg(f)} {pyarg(ADJ[ai][1])} {rt} {dt}")

    # ---- PDEModel.__init__
    from cuqi.pde import SteadyStateLinearPDE
    with quiet():
        pde = SteadyStateLinearPDE(lambda x: (np.eye(2), x))
    for isp, P in ((True, pde), (False, 3), (False, lambda x: x)):
        for ri in range(len(GEOM_ARGS)):
            for di in (0, 6, 11, 12, 17):
                ra, rt = GEOM_ARGS[ri]; da, dt = GEOM_ARGS[di]
                desc = {"call": "PDEModel.__init__", "is_pde": isp, "range_arg": rt, "domain_arg": dt, "seed_index": 800002}

                def canon_ok(m):
                    gs = "none" if m._gradient_func is None else "gradient"
                    return f"ok {gs} {fmt_geom(m.range_geometry)} {fmt_geom(m.domain_geometry)} {m.range_dim} {m.domain_dim} {','.join(m._non_default_args) or '_'}"
                run_one("pde", f"pdector {b_tok(isp)} {rt} {dt}", lambda: cuqi.model.PDEModel(P, ra, da), canon_ok, desc)

    # ---- CUQIarray.__new__
    ARR = [3.0, [1.0, 2.0, 3.0], np.ones((2, 2)), np.ones((2, 3, 2)), [], np.ones((4, 1)), np.array(5), [[1.0, 2.0]]]
    for a in ARR:
        aa = np.asarray(a)
        for isp in (True, False):
            for g in (None, geoms[0], geoms[2]):
                desc = {"call": "CUQIarray.__new__", "shape": list(aa.shape), "is_par": isp, "geometry": None if g is None else type(g).__name__, "seed_index": 800003}
                line = f"arrnew {aa.ndim} {aa.shape[0] if aa.ndim else 0} {b_tok(isp)} {'-' if g is None else gid(g)}"

                def canon_ok(r, g=g, isp=isp):
                    assert r.is_par is isp
                    return f"d1:{len(r.geometry.grid)}" if g is None else f"g:{gid(r.geometry)}:0"
                run_one("cuqiarray", line, lambda: CUQIarray(a, is_par=isp, geometry=g), canon_ok, desc)

    # ---- Samples.__iter__ / Ns
    for k in range(12 if not thorough else 60):
        r_, N_ = int(rng.randint(1, 4)), int(rng.randint(0, 4))
        X = rng.randint(-3, 4, size=(r_, N_)).astype(float)
        desc = {"call": "Samples.__iter__", "shape": [r_, N_], "seed_index": 800004}
        if k % 3 != 2:
            s_ = Samples(X.copy())
            items = [np.asarray(c, dtype=float) for c in s_]
            impl = f"it {s_.Ns} {qm(np.array(items)) if items else '_'}"
            line = f"iter a {qm(X) if X.size else '_'} {N_}"
            if X.size == 0:
                continue
        else:
            L = [X[:, j].copy() for j in range(N_)]
            s_ = Samples(L)
            items = [np.asarray(c, dtype=float) for c in s_]
            impl = f"it {s_.Ns} {qm(np.array(items)) if items else '_'}"
            line = f"iter l {qm(np.array(L)) if L else '_'} 0"
        ctx.case("ctor:samples-iter", desc)
        lines.append(line); pending.append((len(lines) - 1, "tie:samples:iter", desc, ("raw", impl), 0.0))


def b_tok(v):
    return "1" if v else "0"


# ------------------------------------------------------------------------------------------------ Geometry.__eq__
class _Unsupported(Exception):
    pass


def _safe(s):
    return "".join(c if (c.isalnum() or c in "_-.[]") else "%%%02x" % ord(c) for c in s)


class GeomEncoder:
    """vars(geometry) -> token of Driver/C12.lean (op `geq`).  Reads attribute VALUES only; the comparison itself is the model's."""
    def __init__(self, cuqi):
        self.G = cuqi.geometry
        self.cls = {self.G.Geometry: 0, self.G.Continuous1D: 1, self.G.Image2D: 2}
        self.objs = []

    def clsid(self, c):
        if c not in self.cls:
            self.cls[c] = 10 + len(self.cls)
        return self.cls[c]

    def objid(self, o):
        for i, p in enumerate(self.objs):
            if p is o:
                return i
        self.objs.append(o)
        return len(self.objs) - 1

    def scalar(self, v):
        if v is None:
            return "None"
        if isinstance(v, str):
            return "s:" + _safe(v)
        if isinstance(v, (bool, np.bool_)):
            return "1" if v else "0"
        if isinstance(v, (int, float, np.integer, np.floating)):
            if v != v or v in (float("inf"), float("-inf")):
                raise _Unsupported("nan/inf")
            return q(float(v)) if not isinstance(v, (int, np.integer)) else str(int(v))
        return "f:%d" % self.objid(v)

    def val(self, v):
        G = self.G
        if isinstance(v, G.Geometry):
            return self.geom(v)
        if isinstance(v, (tuple, list)):
            items = [self.val(x) for x in v]
            return ["S", str(len(items))] + [t for it in items for t in it]
        if isinstance(v, range):
            v = np.arange(len(v)) if (len(v) == 0 or (v.start == 0 and v.step == 1)) else np.array(list(v))
        if isinstance(v, np.ndarray):
            if v.dtype == object or v.ndim > 2:
                raise _Unsupported("object / rank>2 array")
            if v.dtype.kind in "US":
                data = ["s:" + _safe(str(x)) for x in v.ravel()]
            else:
                data = [self.scalar(x.item()) for x in v.ravel()]
            return ["A", str(v.ndim)] + [str(d) for d in v.shape] + [str(len(data))] + data
        return ["A", "0", "1", self.scalar(v)]

    def geom(self, g):
        G = self.G
        mro = [self.clsid(c) for c in type(g).__mro__ if isinstance(c, type) and issubclass(c, G.Geometry)]
        eqf = type(g).__eq__
        kind = 1 if eqf is G._geometry._DefaultGeometry1D.__eq__ else 2 if eqf is G._geometry._DefaultGeometry2D.__eq__ else 0 if eqf is G.Geometry.__eq__ else None
        if kind is None:
            raise _Unsupported("user __eq__")
        pd = g.par_dim
        if pd is None:
            raise _Unsupported("par_dim None")
        items = list(vars(g).items())
        out = ["G", str(len(mro))] + [str(m) for m in mro] + [str(kind), str(int(pd)), str(len(items))]
        for k, v in items:
            out += [_safe(k)] + self.val(v)
        return out

    def token(self, g):
        return "~".join(self.geom(g))


def geometry_zoo(cuqi, rng, n_extra):
    """instances of every shipped geometry class (and user subclasses), in families that share grids / sizes so that
    equal, unequal, loosely-equal and attribute-mismatching pairs all occur"""
    G = cuqi.geometry
    sq = lambda x: x ** 2
    zoo = []
    for N in (1, 3, 4):
        zoo += [G.Continuous1D(N), G.Continuous1D(np.arange(N) + 0.5), G.Continuous1D(N, axis_labels=["t"]), G.Discrete(N),
                G.Discrete(["a%d" % i for i in range(N)]), G._geometry._DefaultGeometry1D(N), G.Continuous1D(np.zeros(N))]
        if N >= 3:
            zoo += [G.StepExpansion(np.arange(N, dtype=float), n_steps=N - 1), G.StepExpansion(np.arange(N, dtype=float), n_steps=N - 1, fun2par_projection="max"),
                    G.KLExpansion(np.arange(N, dtype=float), num_modes=2), G.KLExpansion(np.arange(N, dtype=float), num_modes=2, decay_rate=2.0),
                    G.KLExpansion_Full(np.arange(N, dtype=float)), G.KLExpansion(np.arange(N, dtype=float))]
        zoo += [G.MappedGeometry(G.Continuous1D(N), map=sq), G.MappedGeometry(G.Continuous1D(N), map=sq, imap=np.sqrt), G.MappedGeometry(G.Continuous1D(N), map=np.exp),
                G.MappedGeometry(G.Discrete(N), map=sq), G.MappedGeometry(G.MappedGeometry(G.Continuous1D(N), map=sq), map=sq)]
    zoo += [G.Image2D((2, 2)), G.Image2D((2, 2), order="F"), G.Image2D((2, 2), visual_only=True), G.Image2D((2, 3)), G._geometry._DefaultGeometry2D((2, 2)),
            G._geometry._DefaultGeometry2D((2, 3)), G.Continuous2D((2, 2)), G.Continuous2D((2, 3)), G.Continuous2D((np.arange(2) + 0.5, np.arange(2))),
            G.Continuous1D(4), G.Continuous1D(np.array([0.0])), G.Continuous1D(np.array([0.0, 0.0, 0.0]))]

    class SubC1D(G.Continuous1D):
        pass

    class UserG(G.Geometry):
        def __init__(self, E):
            self._E = E
        @property
        def par_shape(self):
            return (self._E.shape[1],)
        def par2fun(self, p):
            return self._E @ p
        def _plot(self):
            pass
    zoo += [SubC1D(3), SubC1D(4), UserG(np.eye(2)), UserG(np.eye(2)), UserG(np.ones((3, 2))), UserG(np.ones((1, 2)))]
    # geometries with extra instance attributes, variables generated / assigned, names set by a distribution
    g1 = G.Continuous1D(3); g1.gradient = sq
    g2 = G.Continuous1D(3); _ = g2.variables
    g3 = G.Continuous1D(3); g3.variables = ["a", "b", "c"]
    g4 = G.Continuous1D(3); g4._variable_name = "x"; _ = g4.variables
    g5 = G.Continuous1D(3); g5._variable_name = "x"
    g6 = G.Continuous1D(1); _ = g6.variables
    g7 = G.Discrete(3); g7._variable_name = None
    zoo += [g1, g2, g3, g4, g5, g6, g7]
    import copy
    zoo += [copy.deepcopy(z) for z in zoo[:: max(1, len(zoo) // max(1, n_extra))]][:n_extra]
    return zoo


def geometry_equality(ctx, cuqi, lines, pending, thorough):
    """`a == b` for pairs out of a zoo of all shipped geometry classes: the implementation's answer against `geomEqD` computed by the model
    from `vars(a)`, `vars(b)` taken right before the comparison (the comparison itself may add attributes to `b`)."""
    rng = np.random.RandomState(ctx.seed + 1217)
    enc = GeomEncoder(cuqi)
    with quiet():
        zoo = geometry_zoo(cuqi, rng, 12)
        # pinned: objects that differ ONLY in the length of a list / tuple attribute with an equal common prefix, list vs tuple, list vs scalar
        G_ = cuqi.geometry
        pinned = [G_.Continuous1D(3, axis_labels=["t"]), G_.Continuous1D(3, axis_labels=["t", "u"]), G_.Continuous1D(3, axis_labels=("t",)),
                  G_.Continuous1D(3, axis_labels="t"), G_.Continuous1D(3, axis_labels=[])]
        npin = len(pinned)
        zoo = pinned + zoo
    cov = ctx.extra_cov.setdefault("geometry_eq_outcomes", {})
    covc = ctx.extra_cov.setdefault("geometry_eq_classes", {})
    pairs = [(i, j) for i in range(len(zoo)) for j in range(len(zoo))]
    if not thorough:
        diag = [(i, i) for i in range(len(zoo))]
        same_cls = [(i, j) for (i, j) in pairs if i != j and (isinstance(zoo[j], type(zoo[i])) or isinstance(zoo[i], type(zoo[j])))]
        rest = [p for p in pairs if p[0] != p[1] and p not in set(same_cls)]
        pick_s = rng.choice(len(same_cls), size=min(500, len(same_cls)), replace=False)
        pick_r = rng.choice(len(rest), size=min(200, len(rest)), replace=False)
        pairs = [(i, j) for i in range(npin) for j in range(npin) if i != j] + diag + [same_cls[k] for k in pick_s] + [rest[k] for k in pick_r]
    for (i, j) in pairs:
        a, b_ = zoo[i], zoo[j]
        try:
            ta, tb = enc.token(a), enc.token(b_)
        except _Unsupported as e:
            cov["unsupported"] = cov.get("unsupported", 0) + 1
            continue
        try:
            with quiet():
                impl = "T" if bool(a == b_) else "F"
        except Exception as e:
            impl = f"err {type(e).__name__}"
        desc = {"call": "Geometry.__eq__", "left": type(a).__name__, "right": type(b_).__name__, "i": i, "j": j, "seed_index": 900000}
        ctx.case("geometry-eq", desc)
        cov[impl] = cov.get(impl, 0) + 1
        covc[type(a).__name__] = covc.get(type(a).__name__, 0) + 1
        lines.append(f"geq {ta} {tb}")
        pending.append((len(lines) - 1, "tie:geometry-eq", desc, ("raw", impl), 0.0))
    return enc


# ------------------------------------------------------------------------------------------------ gradient with a Samples `wrt`
def gradient_samples_wrt(ctx, cuqi, lines, pending, verdicts, nconf):
    """`model.gradient(direction, Samples(...), is_wrt_par=True/False)` for every model kind x domain geometry kind, direction an
    array or a Samples object.  Model: `gradientFull` (driver op `gradsw`); the only leaf datum is what `domain_geometry.fun2par`
    does to the Samples object (measured: hands it back / exception class).  Oracle: the call must raise."""
    b = _base()
    from cuqi.samples import Samples
    rng = np.random.RandomState(ctx.seed + 1219)
    cov = ctx.extra_cov.setdefault("gradient_samples_wrt", {})
    for ci in range(nconf):
        mk = b.MODEL_KINDS[ci % len(b.MODEL_KINDS)]
        dk = b.DOMAIN_KINDS[(ci // 2) % len(b.DOMAIN_KINDS)]
        n = int(rng.randint(2, 4))
        D = b.make_geometries(cuqi, rng, n, dk)
        if D is None:
            continue
        if (mk.startswith(("pde", "linmat")) or "jac" in mk) and not D.flat1d:
            D = b.make_geometries(cuqi, rng, n, "cont1d")
        nDf = int(np.prod(D.fun_shape))
        R = b.make_geometries(cuqi, rng, nDf if mk.startswith("heat") else int(rng.randint(2, 4)), ["cont1d", "discrete", "default1d", "map-aff-1-1d"][ci % 4])
        if ci % 3 == 0 and not isinstance(D.obj, (int, tuple)):
            b.install_geom_gradient(D, "s")
        try:
            M = b.build_model(cuqi, rng, mk, D, R, D.obj, R.obj)
        except Exception as e:
            ctx.note(f"gradient-samples-wrt: constructor refused {mk} {D.label}: {type(e).__name__}")
            continue
        model = M.obj
        Dg, Rg = model.domain_geometry, model.range_geometry
        Xs = rng.randint(0, 4, size=(D.par_dim, 2)).astype(float)
        S = Samples(Xs.copy(), geometry=Dg)
        try:
            with quiet():
                Dg.fun2par(Samples(Xs.copy(), geometry=Dg))
            conv = "pass"
        except Exception as e:
            conv = type(e).__name__
        d = rng.randint(-3, 4, size=R.par_dim).astype(float)
        Dtok, Rtok = D.token(0), R.token(1)
        for dlab, dth, dtok in (("nd", lambda: d.copy(), f"nd:{qv(d)}"), ("samples", lambda: Samples(np.column_stack([d, d])), "smp")):
            for iwp in (False, True):
                st, val = b.call(lambda: model.gradient(dth(), Samples(Xs.copy(), geometry=Dg, is_par=iwp), is_wrt_par=iwp))
                impl = f"err {val}" if st != "ok" else "value"
                desc = {"call": "gradient", "model": mk, "domain": D.label, "domain_gradient": D.gradstyle, "range": R.label, "direction": dlab, "wrt": "samples",
                        "is_wrt_par": iwp, "fun2par_on_samples": conv, "seed_index": 950000 + ci}
                ctx.case(f"gradient:samples-wrt:{'par' if iwp else 'fun'}:{dlab}", desc)
                cov[f"{conv}|{impl}"] = cov.get(f"{conv}|{impl}", 0) + 1
                lines.append(f"gradsw {M.token} {Dtok} {Rtok} {dtok} {b.tok_bool(iwp)} {conv}")
                pending.append((len(lines) - 1, f"tie:gradient:wrt-samples-{'par' if iwp else 'fun'}:dir-{dlab}", desc, ("raw", impl), 0.0))
                if st == "ok":
                    ctx.fail(f"gradient:samples-wrt:dir-{dlab}:refusal", desc, "an exception (a Samples object as linearisation point is not supported)", "a value",
                             "gradient returned a value for a Samples `wrt`")
                else:
                    verdicts["gradient:samples-wrt:refused"] = verdicts.get("gradient:samples-wrt:refused", 0) + 1


# ------------------------------------------------------------------------------------------------ geometries re-assigned after construction
def geometry_reassignment(ctx, cuqi, lines, pending, verdicts, oracle_jobs, nconf):
    """Histories: build a model, THEN assign `model.domain_geometry` / `model.range_geometry` (plain public attributes) to another
    geometry on the same function space, THEN call forward / gradient.  The Lean model object is a value whose geometries are
    fields read at call time, so its prediction is that of a model constructed with the new geometries (driver lines carry the NEW
    tokens).  Oracle: `oracle_forward` / `oracle_gradient` of c12.py with the CURRENT geometries (refusal iff not formable NOW)."""
    b = _base()
    from cuqi.array import CUQIarray
    from cuqi.samples import Samples
    rng = np.random.RandomState(ctx.seed + 1223)
    cov = ctx.extra_cov.setdefault("geometry_reassignment", {})
    IDENT = ["cont1d", "default1d", "discrete"]
    NEWD = ["map-sq-1-1d", "map-aff-1-1d", "map-cube-0-1d", "step", "kl", "map-sq-1-1d+grad", "step+grad", "discrete", "cont1d"]
    NEWR = ["map-aff-1-1d", "step", "map-cube-0-1d", "discrete"]
    MK = [k for k in b.MODEL_KINDS]
    for ci in range(nconf):
        mk = MK[ci % len(MK)]
        which = ["domain", "range", "domain", "both", "to-identity"][ci % 5]
        n = int(rng.randint(2, 5))
        if which == "to-identity":
            D0 = b.make_geometries(cuqi, rng, n, ["map-sq-1-1d", "map-aff-1-1d", "step"][ci % 3])
        else:
            D0 = b.make_geometries(cuqi, rng, n, IDENT[ci % 3])
        if D0 is None:
            continue
        nDf = int(np.prod(D0.fun_shape))
        nr = nDf if mk.startswith("heat") else int(rng.randint(2, 5))
        R0 = b.make_geometries(cuqi, rng, nr, IDENT[(ci // 3) % 3])
        try:
            M = b.build_model(cuqi, rng, mk, D0, R0, D0.obj, R0.obj)
        except Exception as e:
            ctx.note(f"reassignment: constructor refused {mk}: {type(e).__name__}")
            continue
        model = M.obj
        # a first gradient / forward call on the fresh object (whatever it gives)
        x0 = rng.randint(0, 3, size=D0.par_dim).astype(float)
        b.call(lambda: model.forward(x0.copy()))
        b.call(lambda: model.gradient(np.ones(R0.par_dim), x0.copy()))
        # ---- the re-assignment
        D, R = D0, R0
        if which in ("domain", "both"):
            dk = NEWD[(ci // 2) % len(NEWD)]
            want = dk.split("+")[0]
            if want in ("step", "kl"):
                if nDf < 3:
                    continue
                D = b.make_geometries(cuqi, rng, nDf - 1, want, N_override=nDf)
            else:
                D = b.make_geometries(cuqi, rng, nDf, want)
            if D is None:
                continue
            if dk.endswith("+grad"):
                b.install_geom_gradient(D, "s")
            model.domain_geometry = D.obj if not isinstance(D.obj, int) else cuqi.geometry._geometry._DefaultGeometry1D(D.obj)
        if which in ("range", "both"):
            rk = NEWR[(ci // 3) % len(NEWR)]
            if rk == "step":
                if nr < 3:
                    continue
                R = b.make_geometries(cuqi, rng, nr - 1, "step", N_override=nr)
            else:
                R = b.make_geometries(cuqi, rng, nr, rk)
            if R is None:
                continue
            model.range_geometry = R.obj
        if which == "to-identity":
            D = b.make_geometries(cuqi, rng, nDf, IDENT[ci % 3])
            model.domain_geometry = D.obj if not isinstance(D.obj, int) else cuqi.geometry._geometry._DefaultGeometry1D(D.obj)
        Dg, Rg = model.domain_geometry, model.range_geometry
        eqr = b_eq(Dg, Rg) + b_eq(Rg, Dg)
        if "I" in eqr or "K" in eqr:
            continue
        loose = eqr[0] == "T" and type(Dg) is not type(Rg)
        gD, gR = 0, 1
        Dtok, Rtok = D.token(gD), R.token(gR)
        canon = b.Canon(cuqi, [(Dg, gD), (Rg, gR)])
        exact = D.exact and R.exact and M.exact
        tol = b.EXACT_TOL if exact else b.TOL
        conf = {"geometry_reassigned": which, "model": mk, "domain": D.label, "domain_gradient": D.gradstyle, "range": R.label, "initial_domain": D0.label,
                "initial_range": R0.label, "n": D.par_dim, "seed_index": 980000 + ci, "geometry_eq_raises": False, "loose_geometry_eq": loose}
        cov[f"{which}|{D0.label}->{D.label}{'+grad' if D.gradstyle else ''}|{R0.label}->{R.label}"] = cov.get(f"{which}|{D0.label}->{D.label}{'+grad' if D.gradstyle else ''}|{R0.label}->{R.label}", 0) + 1
        lo = 0 if (D.nonneg or M.nonneg) else -3
        x = rng.randint(lo, 4, size=D.par_dim).astype(float)
        with quiet():
            fx = np.asarray(Dg.par2fun(x), dtype=float)
        Xs = rng.randint(lo, 4, size=(D.par_dim, 2)).astype(float); Xs[:, 0] = x
        fl = lambda tok, ip=True: f"fwd {M.token} {Dtok} {Rtok} {eqr} {tok} {b.tok_bool(ip)} 1 _"
        reps = [("nd-par", lambda: model.forward(x.copy()), fl(f"nd:{qv(x)}")),
                ("nd-fun", lambda: model.forward(fx.copy(), is_par=False), fl(f"nd:{qv(fx.ravel())}", False)),
                ("samples", lambda: model.forward(Samples(Xs.copy(), geometry=Dg)), fl(f"smp:1:{gD}:{qm(Xs.T)}"))]
        if not loose:
            reps += [("arr-par", lambda: model.forward(CUQIarray(x.copy(), is_par=True, geometry=Dg)), fl(f"arr:1:{gD}:{qv(x)}")),
                     ("arr-fun", lambda: model.forward(CUQIarray(fx.copy(), is_par=False, geometry=Dg)), fl(f"arr:0:{gD}:{qv(fx.ravel())}"))]
        results = {}
        for kind, thunk, line in reps:
            st, val = b.call(thunk)
            c = canon(val) if st == "ok" else ("err", val)
            results[kind] = c
            desc = {**conf, "call": "forward", "input": kind, "x": x.tolist()}
            ctx.case("reassigned:forward:" + kind, desc, nontrivial=True)
            lines.append(line); pending.append((len(lines) - 1, f"tie:forward:{kind}", desc, c, tol))
        oracle_jobs.append(("forward", conf, M, D, R, model, Dg, Rg, x, fx, Xs, None, results, gR, exact))
        d = rng.randint(-3, 4, size=R.par_dim).astype(float)
        wrts = [("nd-par", lambda: x.copy(), True, f"nd:{qv(x)}")]
        dirs = [("nd-par", lambda: d.copy(), True, f"nd:{qv(d)}")]
        if not loose:
            wrts.append(("arr-par", lambda: CUQIarray(x.copy(), is_par=True, geometry=Dg), True, f"arr:1:{gD}:{qv(x)}"))
            dirs.append(("arr-par", lambda: CUQIarray(d.copy(), is_par=True, geometry=Rg), True, f"arr:1:{gR}:{qv(d)}"))
        gres = {}
        for (wk, wth, iwp, wtok) in wrts:
            for (dk_, dth, idp, dtok) in dirs:
                st, val = b.call(lambda: model.gradient(dth(), wth(), is_direction_par=idp, is_wrt_par=iwp))
                c = canon(val) if st == "ok" else ("err", val)
                gres[(wk, dk_)] = c
                desc = {**conf, "call": "gradient", "wrt": wk, "direction": dk_, "x": x.tolist(), "d": d.tolist()}
                ctx.case(f"reassigned:gradient:{wk}:{dk_}", desc, nontrivial=True)
                lines.append(f"grad {M.token} {Dtok} {Rtok} {eqr} {dtok} {wtok} {b.tok_bool(idp)} {b.tok_bool(iwp)}")
                pending.append((len(lines) - 1, f"tie:gradient:wrt-{wk}:dir-{dk_}", desc, c, tol))
        oracle_jobs.append(("gradient", conf, M, D, R, model, Dg, Rg, x, fx, d, gres, exact))
