"""C01, attribute-level stream: ONE real cuqi distribution whose mutable variables are constants, `None`
or callables with named arguments (shared between attributes, zero-argument callables, some with name
collisions), driven through conditioning / evaluation programs and compared with `Model/C01_attrs.lean`
(`attr` lines of `Driver/C01.lean`) after every call: kind, ordered parameter names, the state of every
mutable variable (`None` / callable identity + `partial.keywords` + remaining arguments / the value, which
the model gives as "callable f applied to these values" and the harness recomputes), data of a likelihood,
value of evaluated densities and of `logd`.

Oracle (implementation only; programs without name collisions): a valid evaluation returns the family
log-density of a *fresh fully specified* distribution at the complete assignment; a valid conditioning
call succeeds; an evaluation with a missing / unknown / doubly specified variable raises.
"""
import functools, random
from fractions import Fraction
import numpy as np
from harness.core import quiet, q
from harness.props.c01 import enc, enc_pos, enc_kw, refusal_reason, _named_lambda, TOL, UNKNOWN, close

VEC_NAMES, SC_NAMES = ["x", "u", "w"], ["s", "t", "r"]
FAMS = {
    "Gaussian": ("mean", ["cov", "prec", "sqrtcov", "sqrtprec"]),
    "Normal": ("mean", ["std"]),
    "Laplace": ("location", ["scale"]),
    "GMRF": ("mean", ["prec"]),
    "LMRF": ("location", ["scale"]),
    "Gamma": (None, ["shape", "rate"]),
    "Beta": (None, ["alpha", "beta"]),
}


def _sc(v):
    return float(np.asarray(v, dtype=float).reshape(-1)[0])


class AttrProgram:
    """one distribution + a sequence of calls"""

    def __init__(self, cuqi, rng, idx, collision=False, script=None):
        self.cuqi, self.rng, self.idx = cuqi, rng, idx
        self.collision = collision
        self.tokens, self.impl, self.meta, self.fails, self.objs = [], [], [], [], []
        self.setup()
        if script is None:
            self.run()
        else:
            script(self)

    # ------------------------------------------------------------------ the distribution
    def setup(self):
        rng = self.rng
        self.family = fam = rng.choice(list(FAMS))
        loc, scales = FAMS[fam]
        self.n = n = rng.choice([2, 3]) if loc else 1
        self.name = "y"
        attrs = []                                   # (key, role)
        if loc:
            attrs.append((loc, "loc"))
            attrs.append((rng.choice(scales), "scale"))
        else:
            attrs += [(a, "scale") for a in scales]
        self.fns = []                                # id -> (sig, python function of the values in signature order)
        self.kindof = {}                             # variable name -> 'vec' | 'sc'
        self.spec = {}                               # key -> ('const', value) | ('none',) | ('fn', id)
        for key, role in attrs:
            r = rng.random()
            if r < 0.3:
                self.spec[key] = ("const", self._const(role))
            elif r < 0.5 and not (fam == "Gaussian" and role == "scale" and key != "cov"):
                self.spec[key] = ("none",)
                self.kindof[key] = "vec" if role == "loc" else "sc"
            else:
                self.spec[key] = ("fn", self._make_fn(role))
        if self.collision:
            self._collide(attrs)
        zero_arg = any(sp[0] == "fn" and not self.fns[sp[1]][0] for sp in self.spec.values())
        # oracle: the property's premises hold (distinct variables, hyper-parameters through callables with arguments)
        self.oracle = self.collision in (None, "self", "other") and not zero_arg
        self.kp = "attr:collision-other:" if self.collision == "other" else "attr:"
        # candidate values
        self.vals = {}
        for nm, kd in list(self.kindof.items()) + [(self.name, "main")]:
            if kd == "vec":
                a = np.array([rng.randint(-4, 4) / 2.0 for _ in range(n)])
                b = a + np.array([rng.choice([0.5, 1.0, -1.5]) for _ in range(n)])
            elif kd == "sc":
                a, b = [np.array([float(t)]) for t in rng.sample([0.25, 0.5, 1.0, 2.0, 4.0], 2)]
            else:
                if fam in ("Gamma",):
                    a, b = np.array([0.5]), np.array([1.5])
                elif fam == "Beta":
                    a, b = np.array([0.25]), np.array([0.5])
                else:
                    a = np.array([rng.randint(-4, 4) / 2.0 for _ in range(n)])
                    b = a + 0.5
            self.vals[nm] = [a, b]
        self.kindof[self.name] = "main"
        # the real object
        from cuqi import distribution as D
        kw = {}
        for key, _ in attrs:
            sp = self.spec[key]
            if sp[0] == "const":
                kw[key] = sp[1]
            elif sp[0] == "none":
                kw[key] = None
            else:
                sig, fn = self.fns[sp[1]]
                lam = _named_lambda(sig, fn) if sig else (lambda fn=fn: fn())
                lam._c01_id = sp[1]
                kw[key] = lam
        with quiet():
            self.obj = getattr(D, fam)(**kw, geometry=n, name=self.name)
            self.mvars = list(self.obj.get_mutable_variables())
        self.fixed = {}
        self.desc = {"program": f"attr-{self.idx}", "family": fam, "dim": n, "collision": self.collision,
                     "attrs": {k: (self.spec[k][0] if self.spec[k][0] != "fn" else "fn(" + ",".join(self.fns[self.spec[k][1]][0]) + ")") for k in self.mvars}}
        toks = []
        for k in self.mvars:
            sp = self.spec[k]
            toks.append(f"{k}=N" if sp[0] == "none" else (f"{k}=V0" if sp[0] == "const" else f"{k}=F{sp[1]}:" + (",".join(self.fns[sp[1]][0]) or ".")))
        self.head = "attr " + self.name + " " + " ".join(toks)
        self._record(None, self.describe(self.obj), {"op": "new", "kind": "-", "mode": "-", "what": "valid"}, self.obj)

    def _const(self, role):
        rng = self.rng
        if role == "loc":
            return np.array([rng.randint(-2, 2) for _ in range(self.n)], dtype=float)
        return float(rng.choice([0.5, 1.0, 2.0, 4.0]))

    def _make_fn(self, role):
        rng = self.rng
        if role == "loc":
            k = rng.choice([0, 1, 1, 2, 2, 2, 3, 3])
            sig = rng.sample(VEC_NAMES, min(k, 3))
            if sig and rng.random() < 0.3:
                sig.insert(rng.randrange(len(sig) + 1), rng.choice(SC_NAMES))
        else:
            k = rng.choice([0, 1, 1, 2, 2, 2, 3, 3])
            sig = rng.sample(SC_NAMES, k)
            if self.n > 1 and rng.random() < 0.2:
                sig.insert(rng.randrange(len(sig) + 1), rng.choice(VEC_NAMES))
        for a in sig:
            self.kindof.setdefault(a, "vec" if a in VEC_NAMES else "sc")
        w = [rng.choice([-2, -1, 1, 2, 3]) for _ in sig]
        base = self._const(role)
        fn = self._pyfn(role, list(sig), w, base)
        self.fns.append((list(sig), fn))
        return len(self.fns) - 1

    def _pyfn(self, role, sig, w, base):
        kinds = self.kindof
        n = self.n

        def fn(*vals):
            assert len(vals) == len(sig)
            if role == "loc":
                out = np.array(base, dtype=float)
                mult = 1.0
                for a, wi, v in zip(sig, w, vals):
                    if kinds.get(a) == "vec" or (kinds.get(a) == "main" and n > 1):
                        out = out + wi * np.asarray(v, dtype=float).reshape(-1)
                    else:
                        mult *= _sc(v)
                return out * mult
            out = float(base)
            for a, wi, v in zip(sig, w, vals):
                if kinds.get(a) == "vec" or (kinds.get(a) == "main" and n > 1):
                    out *= 1.0 + float(np.sum(np.asarray(v, dtype=float) ** 2))
                else:
                    out *= _sc(v) ** (1 if wi > 0 else -1)
            return out
        return fn

    def _collide(self, attrs):
        """name collisions between a callable's arguments and the distribution's own vocabulary:
        'self'  an argument called like the mutable variable the callable sits in (std=lambda std: 0.1+std): a legitimate model,
        'other' an argument called like ANOTHER mutable variable that holds a constant / a callable,
        'dup'   an argument called like a mutable variable that is None, or like the distribution itself (tie only)"""
        rng = self.rng
        roles = dict(attrs)
        fnkeys = [k for k, _ in attrs if self.spec[k][0] == "fn" and self.fns[self.spec[k][1]][0]]
        if not fnkeys:
            key, role = attrs[-1]
            sig = [rng.choice(SC_NAMES if role == "scale" else VEC_NAMES)]
            self.kindof.setdefault(sig[0], "vec" if sig[0] in VEC_NAMES else "sc")
            self.fns.append((sig, None))
            self.spec[key] = ("fn", len(self.fns) - 1)
            fnkeys = [key]
        key = rng.choice(fnkeys)
        fid = self.spec[key][1]
        sig = list(self.fns[fid][0])
        j = rng.randrange(len(sig))
        role = roles[key]
        cls = self.collision
        others = [k for k, _ in attrs if k != key and self.spec[k][0] != "none"]
        if cls == "other" and not others:
            cls = self.collision = "dup"
        if cls == "self":
            new, kind_new = key, ("vec" if role == "loc" else "sc")
        elif cls == "other":
            new = rng.choice(others)
            kind_new = "vec" if roles[new] == "loc" else "sc"      # values the other variable's setter accepts
        else:
            nones = [k for k, _ in attrs if k != key and self.spec[k][0] == "none"]
            new = rng.choice(nones + [self.name])
            kind_new = self.kindof.get(new) or ("vec" if self.n > 1 else "sc")
        old = sig[j]
        sig[j] = new
        self.kindof[new] = kind_new
        if old not in [a for f in self.fns for a in f[0] if f is not self.fns[fid]] + sig:
            self.kindof.pop(old, None)
        w = [rng.choice([2, 3]) for _ in sig]
        base = (np.array([rng.choice([-2, -1, 1, 2]) for _ in range(self.n)], dtype=float) if role == "loc" else float(rng.choice([0.5, 2.0, 4.0])))
        self.fns[fid] = (sig, self._pyfn(role, sig, w, base))

    # ------------------------------------------------------------------ describing the implementation's object
    def describe(self, o):
        """(kind, names, {key: state}, extra): state = ('N',) | ('F', id, {k: arr}, rem) | ('V', array)"""
        from cuqi.likelihood import Likelihood
        from cuqi.density import EvaluatedDensity
        from cuqi.utilities import get_non_default_args
        if isinstance(o, EvaluatedDensity):
            return ("EvaluatedDensity", [], {}, float(np.asarray(o.logd(), dtype=float).reshape(-1)[0]))
        d, kind, extra = o, "Distribution", None
        if isinstance(o, Likelihood):
            d, kind, extra = o.distribution, "Likelihood", np.asarray(o.data, dtype=float).reshape(-1)
        states = {}
        for k in d.get_mutable_variables():
            v = getattr(d, k)
            if v is None:
                states[k] = ("N",)
            elif callable(v):
                base, bound = v, {}
                if isinstance(v, functools.partial):
                    base, bound = v.func, dict(v.keywords)
                fid = getattr(base, "_c01_id", None)
                # how a partially applied callable is represented (functools.partial or any equivalent wrapper) is not
                # part of the behaviour: identity and bound values are compared only when they can be read off
                states[k] = ("F", fid, None if fid is None else {a: np.asarray(b, dtype=float).reshape(-1) for a, b in bound.items()},
                             list(get_non_default_args(v)))
            else:
                states[k] = ("V", np.asarray(v, dtype=float).reshape(-1))
        return (kind, [str(t) for t in o.get_parameter_names()], states, extra)

    # ------------------------------------------------------------------ leaf oracle
    def attr_value(self, key, assign):
        sp = self.spec[key]
        if sp[0] == "const":
            return sp[1]
        if sp[0] == "none":
            return self._val(key, assign[key])
        sig, fn = self.fns[sp[1]]
        return fn(*[self._val(a, assign[a]) for a in sig])

    def _val(self, name, i):
        v = self.vals[name][i]
        return v.copy() if self.kindof[name] == "vec" or (self.kindof[name] == "main" and self.n > 1) else float(v[0])

    def fresh_logpdf(self, attr_values, x):
        from cuqi import distribution as D
        with quiet():
            dist = getattr(D, self.family)(**attr_values, geometry=self.n)
            xx = np.asarray(x, dtype=float).reshape(-1)
            val = dist.logpdf(xx if self.n > 1 else float(xx[0]))
        return float(np.asarray(val, dtype=float).reshape(-1)[0])

    def leaf(self, assign):
        return self.fresh_logpdf({k: self.attr_value(k, assign) for k in self.mvars}, self.vals[self.name][assign[self.name]])

    # ------------------------------------------------------------------ calls
    def _record(self, token, rec, meta, obj=None):
        if token is not None:
            self.tokens.append(token)
        self.impl.append(rec); self.meta.append(meta); self.objs.append(obj)

    def kind(self):
        from cuqi.likelihood import Likelihood
        from cuqi.density import EvaluatedDensity
        return "EvaluatedDensity" if isinstance(self.obj, EvaluatedDensity) else ("Likelihood" if isinstance(self.obj, Likelihood) else "Distribution")

    def names(self):
        with quiet():
            return [str(t) for t in self.obj.get_parameter_names()]

    def _args(self, pos, kw):
        pargs = [self._val(n, i) if n in self.vals else 1.0 for n, i in pos]
        kwargs = {k: (self._val(k, i) if k in self.vals else 1.0) for k, i in kw}
        return pargs, kwargs

    def call_cond(self, pos, kw, mode, what):
        kb = self.kind()
        pargs, kwargs = self._args(pos, kw)
        adopt = what in ("valid", "collision-adopt")
        token = ("C;" if adopt else "c;") + enc_pos(pargs) + ";" + enc_kw([(k, kwargs[k]) for k, _ in kw])
        try:
            with quiet():
                new = self.obj(*pargs, **kwargs)
                rec = self.describe(new)
            ok = True
        except Exception as e:  # noqa
            rec, ok, new = "err:" + type(e).__name__, False, None
        self._record(token, rec, {"op": "cond", "kind": kb, "mode": mode, "what": what}, new)
        if what == "valid":
            if ok:
                for n, i in list(pos) + list(kw):
                    self.fixed.setdefault(n, i)
                self.obj = new
            elif self.oracle:
                self.fails.append((f"{self.kp}cond:{kb}:{mode}:raises", {**self.desc, "call": token, "calls": list(self.tokens), "record": len(self.impl) - 1},
                                   "conditioned object", rec, "a valid conditioning call on a distribution / likelihood is refused"))
        elif what == "collision-adopt" and ok:
            self.obj = new
        return ok

    def call_logd(self, pos, kw, mode, what, assign=None):
        kb = self.kind()
        pargs, kwargs = self._args(pos, kw)
        token = "E;" + enc_pos(pargs) + ";" + enc_kw([(k, kwargs[k]) for k, _ in kw])
        try:
            with quiet():
                val = self.obj.logd(*pargs, **kwargs)
            arr = np.asarray(val, dtype=float).reshape(-1)
            rec = ("val", float(arr[0])) if arr.size == 1 else "err:nonscalar"
        except Exception as e:  # noqa
            rec = "err:" + type(e).__name__
        self._record(token, rec, {"op": "logd", "kind": kb, "mode": mode, "what": what}, self.obj)
        d = {**self.desc, "call": token, "calls": list(self.tokens), "record": len(self.impl) - 1, "fixed": dict(self.fixed)}
        if not self.oracle or what == "zero-arg-callable":
            return
        if what == "valid":
            full = {n: 0 for n in self.vals}      # (a variable the implementation lost through a name collision: candidate 0)
            full.update(self.fixed); full.update(assign)
            want = self.leaf(full)
            if not (isinstance(rec, tuple) and close(rec[1], want, TOL)):
                self.fails.append((f"{self.kp}logd:{kb}:{mode}:" + ("raises" if isinstance(rec, str) else "value"), d, want,
                                   rec if isinstance(rec, str) else rec[1],
                                   "log-density of the conditioned distribution / likelihood is not the family log-density at the complete assignment"))
        elif isinstance(rec, tuple) and refusal_reason(self.names(), len(pargs), [k for k, _ in kw]) is not None:
            self.fails.append((f"{self.kp}logd:{kb}:malformed:{what}:accepted", d, "an error", rec[1], f"evaluation with a {what} variable returns a number"))

    # ------------------------------------------------------------------ generators
    def gen_cond(self):
        rng = self.rng
        pn = self.names()
        kb = self.kind()
        if kb == "EvaluatedDensity" or not pn:
            self.call_cond([], [], "empty", "valid"); return
        r = rng.random()
        idx = lambda: 0 if rng.random() < 0.7 else 1
        if r < 0.30:       # probes: the property is silent, model and code must agree
            c = rng.choice(["nonmut", "nonmut+name", "unknown", "unknown+name", "double", "toomany", "mainkw", "empty", "unknown+main"])
            nonmut = [k for k in self.mvars if k not in pn]
            if c.startswith("nonmut") and nonmut:
                kw = [(rng.choice(nonmut), 0)] + ([(self.name, 0)] if c.endswith("name") else [])
                if pn[:-1] and rng.random() < 0.5:
                    kw.append((pn[0], 0))
                self.call_cond([], kw, "keyword", c)
            elif c == "unknown":
                self.call_cond([], [(UNKNOWN, 0)] + ([(pn[0], 0)] if rng.random() < 0.5 else []), "keyword", c)
            elif c == "unknown+name":
                self.call_cond([], [(UNKNOWN, 0), (self.name, 0)], "keyword", c)
            elif c == "unknown+main":
                self.call_cond([(n, 0) for n in (pn if kb == "Distribution" else pn + [self.name])], [(UNKNOWN, 0)], "mixed", c)
            elif c == "double":
                m = rng.randint(1, len(pn))
                self.call_cond([(n, 0) for n in pn[:m]], [(rng.choice(pn[:m]), 1)], "mixed", c)
            elif c == "toomany":
                self.call_cond([(n, 0) for n in pn] + [(None, 0)] * rng.randint(1, 2), [], "positional", c)
            elif c == "mainkw":
                self.call_cond([], [("_main_parameter", 0)], "keyword", c)
            else:
                self.call_cond([], [], "empty", "valid")
            return
        mode = rng.choice(["keyword", "keyword", "positional", "mixed"])
        if kb == "Distribution" and len(pn) > 1 and rng.random() < 0.2:
            self.call_cond([], [(self.name, idx())], "keyword", "valid")        # -> Likelihood
            return
        if mode == "keyword":
            ks = rng.sample(pn, min(len(pn), rng.choice([1, 1, 2, len(pn)])))    # mostly one or two at a time (partial binding)
            self.call_cond([], [(n, idx()) for n in ks], mode, "valid")
        elif mode == "positional":
            m = rng.randint(1, len(pn))
            self.call_cond([(n, idx()) for n in pn[:m]], [], mode, "valid")
        else:
            m = rng.randint(1, len(pn))
            rest = pn[m:]
            ks = rng.sample(rest, rng.randint(0, len(rest))) if rest else []
            self.call_cond([(n, idx()) for n in pn[:m]], [(n, idx()) for n in ks], mode, "valid")

    def gen_eval(self, malformed=None):
        rng = self.rng
        pn = self.names()
        kb = self.kind()
        assign = {n: (1 if rng.random() < 0.3 else 0) for n in pn}
        if malformed is None:
            mode = rng.choice(["keyword", "positional", "mixed"])
            if mode == "mixed" and (kb != "Distribution" or len(pn) < 2):
                mode = "positional"
            if mode == "keyword" or not pn:
                ks = list(pn); rng.shuffle(ks)
                self.call_logd([], [(n, assign[n]) for n in ks], "keyword", "valid", assign)
            elif mode == "positional":
                self.call_logd([(n, assign[n]) for n in pn], [], mode, "valid", assign)
            else:
                m = rng.randint(1, len(pn) - 1)
                ks = pn[m:]; rng.shuffle(ks)
                self.call_logd([(n, assign[n]) for n in pn[:m]], [(n, assign[n]) for n in ks], mode, "valid", assign)
            return
        if not pn:
            self.call_logd([], [(UNKNOWN, 0)], "keyword", "unknown"); return
        if malformed == "missing":
            drop = rng.choice(pn)
            if rng.random() < 0.5:
                self.call_logd([], [(n, assign[n]) for n in pn if n != drop], "keyword", "missing")
            else:
                self.call_logd([(n, assign[n]) for n in pn[:-1]], [], "positional", "missing")
        elif malformed == "unknown":
            ks = [(n, assign[n]) for n in pn] + [(UNKNOWN, 0)]; rng.shuffle(ks)
            self.call_logd([], ks, "keyword", "unknown")
        elif malformed == "renamed":
            victim = rng.choice(pn)
            m = rng.randint(0, pn.index(victim)) if kb == "Distribution" else 0
            ks = [((UNKNOWN, 0) if n == victim else (n, assign[n])) for n in pn[m:]]
            self.call_logd([(n, assign[n]) for n in pn[:m]], ks, "mixed" if m else "keyword", "renamed")
        elif malformed == "double":
            m = rng.randint(1, len(pn))
            dup = rng.choice(pn[:m])
            self.call_logd([(n, assign[n]) for n in pn[:m]], [(n, assign[n]) for n in pn[m:]] + [(dup, 1 - assign[dup])], "mixed", "double")
        else:
            self.call_logd([(n, assign[n]) for n in pn] + [(None, 0)], [], "positional", "toomany")

    def run(self):
        rng = self.rng
        if self.collision == "dup":
            return self.run_collision()
        for _ in range(rng.randint(2, 6)):
            r = rng.random()
            if r < 0.3:
                self.gen_eval()
            elif r < 0.45:
                self.gen_eval(rng.choice(["missing", "unknown", "renamed", "double", "toomany"]))
            else:
                self.gen_cond()
                if rng.random() < 0.6:
                    self.gen_eval()
        self.gen_eval()
        self.gen_eval(rng.choice(["missing", "unknown", "renamed", "double", "toomany"]))

    def run_collision(self):
        """names collide: the property's premises (distinct variables) do not hold; model and code must still agree"""
        rng = self.rng
        for _ in range(rng.randint(2, 5)):
            pn = []
            for t in self.names():
                if t not in pn:
                    pn.append(t)
            if self.kind() == "EvaluatedDensity" or not pn:
                break
            r = rng.random()
            if r < 0.5:
                ks = rng.sample(pn, rng.randint(1, len(pn)))
                ok = self.call_cond([], [(n, 0) for n in ks], "keyword", "collision-adopt")
            elif r < 0.7:
                ok = self.call_cond([(n, 0) for n in self.names()[:rng.randint(1, len(self.names()))]], [], "positional", "collision-adopt")
            else:
                ks = list(pn); rng.shuffle(ks)
                self.call_logd([], [(n, 0) for n in ks], "keyword", "collision")
                self.call_logd([(n, 0) for n in self.names()], [], "positional", "collision")

    def line(self):
        return self.head + " -- " + " ".join(self.tokens)


# ----------------------------------------------------------------------------- comparing with the model's records
def _vec(s):
    return np.array([] if s == "_" else [float(Fraction(t)) for t in s.split(",")], dtype=float)


def _same(a, b):
    a, b = np.asarray(a, dtype=float).reshape(-1), np.asarray(b, dtype=float).reshape(-1)
    return a.shape == b.shape and bool(np.all(np.abs(a - b) <= 1e-12 * (1.0 + np.abs(b))))


def model_value(p, key, st):
    """numeric value of a model state `Vc..` / `Vg..` / `Va..`"""
    if st.startswith("Vc"):
        return p.spec[key][1]
    if st.startswith("Vg"):
        v = _vec(st[2:])
        return v if (p.kindof.get(key) == "vec") else float(v[0])
    fid, rest = st[2:].split("(", 1)
    vals = [_vec(t) for t in rest[:-1].split("&")] if rest[:-1] else []
    return p.fns[int(fid)][1](*vals)


def cmp_state(p, key, mst, ist, owner=None):
    if mst == "N":
        return None if ist == ("N",) else f"{key}: model None, implementation {ist[0]}"
    if mst.startswith("F"):
        if ist[0] != "F":
            return f"{key}: model callable, implementation {ist[0]}"
        fid, rest = mst[1:].split("(", 1)
        bound_s, rem_s = rest[:-1].split("~")
        bound = dict(t.split("=") for t in bound_s.split("&")) if bound_s else {}
        rem = rem_s.split(",") if rem_s else []
        if rem != ist[3]:
            return f"{key}: remaining arguments {ist[3]} vs model {rem}"
        if ist[1] is None:
            return None
        if int(fid) != ist[1]:
            return f"{key}: another callable"
        if set(bound) != set(ist[2]) or any(not _same(_vec(bound[a]), ist[2][a]) for a in bound):
            return f"{key}: partial.keywords differ from the model's bound arguments"
        return None
    if ist[0] != "V":
        return f"{key}: model value, implementation {ist[0]}"
    want = np.asarray(model_value(p, key, mst), dtype=float).reshape(-1)
    got = ist[1]
    if got.size != want.size and want.size == 1:
        want = np.full(got.shape, want[0]) if got.size == p.n else want
    if got.size == want.size ** 2 and want.size > 1:        # a vector stored as a diagonal matrix
        want = np.diag(want).reshape(-1)
    if got.size == p.n ** 2 and want.size == 1 and p.n > 1:   # a scalar stored as a multiple of the identity
        want = (want[0] * np.eye(p.n)).reshape(-1)
    return None if _same(got, want) else f"{key}: value {got.tolist()} vs model {want.tolist()}"


def sym_value(p, sym):
    """evaluate the model's symbolic sum of family logpdf calls with fresh distributions"""
    if sym == "0":
        return 0.0
    tot = 0.0
    for term in sym.split("+"):
        body, x = term[4:].rsplit("]@", 1)
        vals = {}
        for part in body.split("|"):
            k, st = part.split(":", 1)
            vals[k] = model_value(p, k, st)
        tot += p.fresh_logpdf(vals, _vec(x))
    return tot


def compare(p, mrec, irec):
    if isinstance(irec, str):
        return None if mrec.startswith("err:") else "implementation raises, model does not"
    if mrec.startswith("err:"):
        return "model refuses, implementation does not"
    if irec[0] == "val":
        if not mrec.startswith("val:"):
            return "model returns an object, implementation a number"
        return None if close(irec[1], sym_value(p, mrec[4:]), TOL) else "values differ"
    if mrec.startswith("val:"):
        return "model returns a number, implementation an object"
    parts = mrec.split("!")
    kind, names, states, extra = irec
    if parts[0] != kind:
        return f"kind {kind} vs model {parts[0]}"
    mnames = [] if parts[1] == "." else parts[1].split(",")
    if mnames != names:
        return f"parameter names {names} vs model {mnames}"
    if kind == "EvaluatedDensity":
        return None if close(extra, sym_value(p, parts[2]), TOL) else "value of the evaluated density differs"
    mstates = dict(t.split(":", 1) for t in parts[2].split("|")) if parts[2] != "." else {}
    if list(mstates) != list(states):
        return "mutable variables differ"
    for k in states:
        why = cmp_state(p, k, mstates[k], states[k])
        if why:
            return why
    if kind == "Likelihood" and not _same(_vec(parts[3]), extra):
        return "data of the likelihood differ"
    return None


def near_oracle(p, i):
    """the object the implementation returned at record i, evaluated at a complete assignment, against the leaf value"""
    o = p.objs[i]
    if o is None or not p.oracle or not hasattr(o, "logd"):
        return None
    try:
        with quiet():
            pn = [str(t) for t in o.get_parameter_names()]
    except Exception:  # noqa
        return None
    # variables fixed up to record i = everything not a parameter any more (values: candidate 0 unless tracked)
    full = {n: p.fixed.get(n, 0) for n in p.vals}
    try:
        with quiet():
            got = float(np.asarray(o.logd(**{n: p._val(n, full[n]) for n in pn}), dtype=float).reshape(-1)[0])
    except Exception as e:  # noqa
        got = "err:" + type(e).__name__
    return got, full


def corpus(cuqi):
    """fixed programs: None + callable with two arguments through every kind of object; a zero-argument callable;
    the collision witness (`mean=lambda x`, `cov=lambda mean`)"""
    out = []

    def fixed_prog(idx, family, spec, fns, kinds, script, collision=None):
        p = AttrProgram.__new__(AttrProgram)
        p.cuqi, p.rng, p.idx, p.collision = cuqi, random.Random(f"C01-attr-corpus-{idx}"), f"corpus-{idx}", collision
        p.oracle = collision in (None, "self", "other") and all(f[0] for f in fns)
        p.kp = "attr:collision-other:" if collision == "other" else "attr:"
        p.tokens, p.impl, p.meta, p.fails, p.objs = [], [], [], [], []
        rng0 = p.rng

        class _R:     # the first rng draws of setup() are replaced by the fixed choices
            pass
        # build by hand (mirrors setup)
        p.family, p.n, p.name = family, 2, "y"
        p.fns, p.kindof, p.spec = [], dict(kinds), {}
        for key, sp in spec.items():
            p.spec[key] = sp
        for sig, role, w, base in fns:
            p.fns.append((list(sig), None))
        for j, (sig, role, w, base) in enumerate(fns):
            p.fns[j] = (list(sig), p._pyfn(role, list(sig), w, base))
        p.vals = {}
        for nm, kd in list(p.kindof.items()) + [("y", "main")]:
            if kd == "sc":
                p.vals[nm] = [np.array([2.0]), np.array([0.5])]
            else:
                p.vals[nm] = [np.array([1.0, -0.5]), np.array([0.5, 2.0])]
        p.kindof["y"] = "main"
        from cuqi import distribution as D
        kw = {}
        for key, sp in p.spec.items():
            if sp[0] == "const":
                kw[key] = sp[1]
            elif sp[0] == "none":
                kw[key] = None
            else:
                sig, fn = p.fns[sp[1]]
                lam = _named_lambda(sig, fn) if sig else (lambda fn=fn: fn())
                lam._c01_id = sp[1]
                kw[key] = lam
        with quiet():
            p.obj = getattr(D, family)(**kw, geometry=2, name="y")
            p.mvars = list(p.obj.get_mutable_variables())
        p.fixed = {}
        p.desc = {"program": f"attr-corpus-{idx}", "family": family, "dim": 2, "collision": collision}
        toks = []
        for k in p.mvars:
            sp = p.spec[k]
            toks.append(f"{k}=N" if sp[0] == "none" else (f"{k}=V0" if sp[0] == "const" else f"{k}=F{sp[1]}:" + (",".join(p.fns[sp[1]][0]) or ".")))
        p.head = "attr y " + " ".join(toks)
        p._record(None, p.describe(p.obj), {"op": "new", "kind": "-", "mode": "-", "what": "valid"}, p.obj)
        script(p)
        out.append(p)

    def s0(p):   # mean=None, cov=lambda s,t
        A = {"mean": 0, "s": 0, "t": 1, "y": 0}
        p.call_logd([], [(n, A[n]) for n in ["y", "t", "mean", "s"]], "keyword", "valid", A)
        p.call_logd([(n, A[n]) for n in ["mean", "s", "t", "y"]], [], "positional", "valid", A)
        p.call_cond([], [("t", 1)], "keyword", "valid")
        p.call_cond([], [("cov", 0)], "keyword", "nonmut")
        p.call_cond([("mean", 0)], [], "positional", "valid")
        p.call_logd([("s", 1)], [("y", 1)], "mixed", "valid", {"s": 1, "y": 1})
        p.call_cond([], [("y", 0)], "keyword", "valid")
        p.call_logd([("s", 0)], [], "positional", "valid", {"s": 0})
        p.call_logd([], [], "keyword", "missing")
        p.call_cond([], [("s", 1)], "keyword", "valid")
        p.call_logd([], [], "keyword", "valid", {})
    fixed_prog(0, "Gaussian", {"mean": ("none",), "cov": ("fn", 0)}, [(["s", "t"], "scale", [1, -1], 2.0)], {"mean": "vec", "s": "sc", "t": "sc"}, s0)

    def s1(p):   # zero-argument callable: evaluated by any conditioning call, logd before that raises inside the family
        p.call_logd([("y", 0)], [], "positional", "zero-arg-callable")
        p.call_cond([], [], "empty", "valid")
        p.call_logd([("y", 0)], [], "positional", "valid", {"y": 0})
        p.call_cond([("y", 1)], [], "positional", "valid")
        p.call_logd([], [], "keyword", "valid", {})
    fixed_prog(1, "Gaussian", {"mean": ("fn", 0), "cov": ("const", 2.0)}, [([], "loc", [], np.array([1.0, 0.0]))], {}, s1)

    def s2(p):   # collision witness: conditioning on `mean` (an argument of cov's callable) overwrites the callable in `mean`
        p.call_cond([], [("mean", 0)], "keyword", "collision-adopt")
        p.call_logd([("y", 0)], [], "positional", "collision")
    fixed_prog(2, "Gaussian", {"mean": ("fn", 0), "cov": ("fn", 1)}, [(["x"], "loc", [1], np.zeros(2)), (["mean"], "scale", [1], 1.0)],
               {"x": "vec", "mean": "sc"}, s2, collision="dup")
    return out


def run_attr_programs(ctx, cuqi, nprog):
    progs = []
    with quiet():
        progs += corpus(cuqi)
    for k in range(nprog):
        rng = random.Random(f"C01-attr-{ctx.seed}-{k}")
        try:
            p = AttrProgram(cuqi, rng, k, collision={3: "self", 7: "self", 9: "other", 11: "dup"}.get(k % 12))
        except Exception as e:  # noqa  (harness crash on this program)
            import traceback
            ctx.note(f"attr program {k}: harness error {type(e).__name__}: {e} :: {traceback.format_exc()[-400:]}")
            continue
        progs.append(p)
    outs = ctx.lean.drive([p.line() for p in progs])
    hist = {"states": {}, "result_kinds": {}, "errors_agreed": 0, "collision_programs": 0, "calls": 0}
    for p, out in zip(progs, outs):
        ctx.case("attr-program:" + p.family + (":collision-" + p.collision if p.collision else ""), {**p.desc, "calls": p.tokens}, len(p.impl) > 2)
        hist["collision_programs"] += int(bool(p.collision))
        fail_by_rec = {}
        for (key, d, want, got, what) in p.fails:
            ctx.fail(key, d, want, got, what)
            fail_by_rec.setdefault(d.get("record"), key)
        mrecs = out.split(";")
        if out == "bad-op" or len(mrecs) != len(p.impl):
            ctx.disagree("tie:attr:protocol", p.desc, out[:200], str(p.impl)[:200], "record count differs")
            continue
        for i, (mr, ir, meta) in enumerate(zip(mrecs, p.impl, p.meta)):
            hk = f"attr:{meta['op']}:{meta['kind']}:{meta['mode']}:{meta['what']}"
            ctx.kinds["call:" + hk] = ctx.kinds.get("call:" + hk, 0) + 1
            hist["calls"] += 1
            if isinstance(ir, str) and mr.startswith("err:"):
                hist["errors_agreed"] += 1
            if isinstance(ir, tuple) and ir[0] != "val":
                hist["result_kinds"][ir[0]] = hist["result_kinds"].get(ir[0], 0) + 1
                for st in ir[2].values():
                    tag = {"N": "None", "V": "value"}.get(st[0], "callable" + ("-partial" if st[0] == "F" and (st[2] or (st[2] is None)) else ""))
                    hist["states"][tag] = hist["states"].get(tag, 0) + 1
            try:
                why = compare(p, mr, ir)
            except Exception as e:  # noqa
                why = f"unparsable model record ({type(e).__name__}: {e})"
            if why:
                key = fail_by_rec.get(i) or f"tie:attr:{meta['op']}:{meta['kind']}:{meta['mode']}:{meta['what']}"
                d = {**p.desc, "calls": p.tokens, "record": i}
                ctx.disagree(key, d, mr[:300], str(ir)[:300], why)
                if i not in fail_by_rec:
                    near = near_oracle(p, i)
                    if near is not None:
                        got, full = near
                        want = p.leaf(full)
                        if not (isinstance(got, float) and close(got, want, TOL)):
                            ctx.fail(key, {**d, "assignment": full}, want, got,
                                     "the object returned by this call does not evaluate to the family log-density at the complete assignment")
                break
    ctx.extra_cov["attr_stream"] = hist
