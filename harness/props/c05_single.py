"""C05, stream "single-draw": the `N == 1` branch of every `_sample` that has one, tied SEPARATELY from `N > 1`.

`GMRF._sample` (zero boundary conditions) and `Gaussian._sample` (sparse stored sqrtprec) special-case one draw
(`mean + c * spsolve(chol.T, xi)` / `spsolve(...)[:, None]`).  All other read-offs of the check request `rows + 1`
draws in one call, which never enters these lines.  Here the affine map is read off by `rows + 2` calls of
`sample(1, rng=…)`, each with a scripted normal vector (0, the unit vectors, one vector of odd eighths).

Tie: every single draw equals the model's exact draw for the same normal vector (GMRF: `gmrfz` with the certificate
`U^T U = P` against the exact C20 precision; Gaussian: `gauss` with the code's solver selection), 1e-9; one generator
call of shape `(rows, 1)` per draw.
Oracle (implementation only): mean and covariance of draws taken one at a time are those of the object's own logpdf
(`grad = 0` at the draw for xi = 0, `(B B^T) H = I`), and the odd-eighths draw is `offset + B xi` (affinity).
"""
import numpy as np
from harness.core import quiet, q, qv, qm, pm, mclose


def odd_eighths(rs, n):
    return (2 * rs.randint(-6, 7, size=n) + 1) / 8.0


def single_readoff(H, D, rows, vecs):
    """one call of sample(1) per normal vector; returns (dim x len(vecs) array or None, error, calls_ok, untouched)"""
    cols, calls_ok, unt_all = [], True, True
    for v in vecs:
        rng = H.Script(lambda method, shape, k, v=v: np.asarray(v, dtype=float).reshape(shape))
        s, err, unt = H.call_sample(D, 1, rng)
        unt_all = unt_all and unt
        if err is not None:
            return None, err, calls_ok, unt_all
        if len(rng.calls) != 1 or tuple(rng.calls[0][2]) != (rows, 1) or rng.calls[0][0] not in ("randn", "standard_normal"):
            calls_ok = False
        cols.append(H.values(s)[:, 0] if H.values(s).shape[1] == 1 else H.values(s).ravel())
    try:
        return np.array(cols).T, None, calls_ok, unt_all
    except Exception as e:  # ragged
        return None, "ragged result: " + str(e)[:60], calls_ok, unt_all


def prepare(ctx, cuqi, thorough, H):
    import scipy.sparse as sp
    from cuqi.distribution import GMRF, Gaussian
    from cuqi.geometry import Image2D
    rs = np.random.RandomState(ctx.seed + 5454)
    items = []          # dict(key, desc, D, rows, line, sel)
    # ---------------------------------------------------------------- GMRF, zero boundary conditions
    gm = [(1, o, n) for o in (0, 1, 2) for n in ((2, 3, 5, 8) if not thorough else range(2, 11))] + \
         [(2, o, n) for o in (0, 1, 2) for n in ((2, 3) if not thorough else (2, 3, 4))]
    for (pd, order, n) in gm:
        dim = n if pd == 1 else n * n
        prec = float(rs.choice([0.25, 4.0, 16.0]))
        mean = H.rint(rs, -3, 3, size=dim).astype(float)
        desc = {"family": "GMRF", "bc": "zero", "physical_dim": pd, "order": order, "n": n, "prec": prec, "mean": mean.tolist(), "N": 1}
        try:
            with quiet():
                G = GMRF(mean, prec, bc_type="zero", order=order, **({} if pd == 1 else {"geometry": Image2D((n, n))}))
        except Exception:
            continue
        vecs = [np.zeros(dim)] + [np.eye(dim)[:, j] for j in range(dim)] + [odd_eighths(rs, dim)]
        U = H.dense(G._chol.T)
        line = f"gmrfz {qv(mean.tolist())} {q(1.0 / np.sqrt(prec))} {qm(U.tolist())} {order} {n} {pd} {qm(np.array(vecs).tolist())}"
        items.append(dict(key=f"single:GMRF:zero:{pd}D:order{order}", desc=desc, D=G, rows=dim, dim=dim, vecs=vecs, line=line, kind="gmrf", full=True))
    # ---------------------------------------------------------------- Gaussian
    gcfg = []
    for form in ("sqrtprec", "sqrtcov", "cov", "prec"):
        for kind in ("lower", "upper", "full"):
            gcfg.append((int(rs.randint(2, 6)), form, kind, None))
        for fmt in ("csr", "csc", "dia"):
            gcfg.append((int(rs.randint(3, 7)), form, str(rs.choice(["upperbi", "lowerbi", "tridiag"])), fmt))
    for form in ("sqrtprec", "cov"):
        gcfg.append((76, form, "vector", None))          # stored sparse above MIN_DIM_SPARSE: the sparse N == 1 line
        gcfg.append((int(rs.choice([76, 78])), form, "lowerbi" if form == "sqrtprec" else "diag", "csr"))
    if not thorough:
        keep = [c for c in gcfg if c[0] > 20] + [gcfg[i] for i in rs.choice(len(gcfg) - 4, size=14, replace=False)]
        gcfg = keep
    for (n, form, kind, fmt) in gcfg:
        mean = H.rint(rs, -3, 3, size=n).astype(float)
        if kind == "vector":
            param = rs.choice([0.25, 1.0, 4.0, 16.0], size=n) if form in ("cov", "prec") else rs.choice([0.5, 1.0, 2.0, 4.0, -2.0], size=n)
        else:
            M = H.gen_matrix(rs, kind, n)
            param = M @ M.T if form in ("cov", "prec") else M
        pobj = sp.csr_matrix(param).asformat(fmt) if fmt else param
        desc = {"family": "Gaussian", "dim": n, "form": form, "value": kind, "sparse_input": fmt or False, "N": 1,
                "param": (np.asarray(param).tolist() if n <= 8 else "…"), "mean": (mean.tolist() if n <= 8 else "…")}
        try:
            with quiet():
                G = Gaussian(mean, **{form: pobj})
                if int(G.dim) != n:
                    continue
        except Exception:
            continue
        R = G.sqrtprec
        is_sparse = bool(sp.issparse(R))
        Rd = H.dense(R)
        sel = list(range(n)) if n <= 20 else [0, n // 2, n - 1]
        vecs = [np.zeros(n)] + [np.eye(n)[:, j] for j in sel] + [odd_eighths(rs, n)]
        line = f"gauss {1 if is_sparse else 0} {qv(mean.tolist())} {qm(Rd.tolist())} {qm(np.array(vecs).tolist())}"
        items.append(dict(key=f"single:Gaussian:{form}:{kind}:{('sparse-' + fmt) if fmt else 'dense-in'}", desc=desc, D=G, rows=n, dim=n, vecs=vecs, line=line,
                          kind="gauss", full=(n <= 20), stored_sparse=is_sparse))
    return [it["line"] for it in items], items


def finish(ctx, cuqi, H, items, outs):
    hist = {}
    maxdev = [0.0]
    for it, out in zip(items, outs):
        key, desc, D, rows, dim, vecs = it["key"], it["desc"], it["D"], it["rows"], it["dim"], it["vecs"]
        ctx.case("single-draw", desc)
        tag = it["kind"] + (":stored-sparse" if it.get("stored_sparse") else "")
        hist[tag] = hist.get(tag, 0) + 1
        Si, err, calls_ok, unt = single_readoff(H, D, rows, vecs)
        if not unt:
            ctx.fail(key + ":global-state", desc, "global numpy random state untouched when rng is given", "changed")
        if err is not None:
            ctx.disagree(key, desc, "a draw", err, "a single draw raises")
            ctx.fail(key, desc, "one draw", err, "sampling one draw raises for a valid object")
            continue
        bad = False
        if not calls_ok:
            ctx.disagree(key, desc, f"one normal call of shape ({rows}, 1) per draw", "differs", "generator calls of a single draw")
            bad = True
        Sm = None
        if it["kind"] == "gauss" and " " in out and not out.startswith("err"):
            Sm = np.array([[float(x) for x in row] for row in pm(out.split(" ", 1)[1])]).T
        elif it["kind"] == "gmrf" and out not in ("err", "bad-op", "err-shape", "cert-fail"):
            Sm = np.array([[float(x) for x in row] for row in pm(out)]).T
        if Sm is None:
            ctx.disagree(key, desc, out[:60], "a draw", "model refuses / certificate U^T U = P fails")
            bad = True
        if Sm is not None and Si.shape == Sm.shape:
            maxdev[0] = max(maxdev[0], float(np.max(np.abs(Si - Sm) / (1.0 + np.abs(Sm)))))
        if Sm is None:
            pass
        elif Si.shape != Sm.shape or not mclose(Si.tolist(), Sm.tolist(), 1e-9):
            j = int(np.argmax(np.abs(Si - Sm).max(axis=0))) if Si.shape == Sm.shape else 0
            ctx.disagree(key, {**desc, "normal_vector": np.asarray(vecs[j]).tolist() if dim <= 10 else f"vector #{j}"},
                         Sm[:, j].tolist() if dim <= 10 else "…", Si[:, j].tolist() if (dim <= 10 and Si.ndim == 2) else "…",
                         "one draw for a given normal vector (N == 1 branch)")
            bad = True
        # ---- oracle: draws taken one at a time vs the object's own logpdf
        if Si.ndim == 2 and Si.shape[0] == dim:
            offset = Si[:, 0].copy()
            xi = np.asarray(vecs[-1], dtype=float)
            if it["full"]:
                B = Si[:, 1:-1] - offset[:, None]
                H.affine_oracle(D, offset, B, key, {**desc, "draws": "sample(1) called once per normal vector 0, e_1, …, e_n"}, ctx)
                if not np.allclose(Si[:, -1], offset + B @ xi, rtol=1e-9, atol=1e-9):
                    ctx.fail(key, {**desc, "normal_vector": xi.tolist()}, (offset + B @ xi).tolist()[:8], Si[:, -1].tolist()[:8],
                             "a single draw is not the affine image offset + B xi of its normal vector")
            elif bad:
                # large dimension: precision of the same object along the selected coordinates
                Rd = H.dense(D.sqrtprec)
                for c, j in enumerate([0, dim // 2, dim - 1]):
                    if not np.allclose(Rd @ (Si[:, 1 + c] - offset), np.eye(dim)[:, j], atol=1e-7):
                        ctx.fail(key, desc, f"sqrtprec (draw - mean) = e_{j}", "differs", "a single draw does not solve the system of the object's own sqrtprec")
                        break
    hist["tie_max_deviation_vs_tol_1e-9"] = maxdev[0]
    ctx.extra_cov["single_draw"] = hist


def run_single(ctx, cuqi, thorough, H):
    lines, items = prepare(ctx, cuqi, thorough, H)
    finish(ctx, cuqi, H, items, ctx.lean.drive(lines))
