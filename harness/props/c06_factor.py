"""C06, session 3 — tie of `Gaussian.<kind> = value` (get_sqrtprec_from_cov / _prec / _sqrtcov / _sqrtprec, dense input)
to `sqrtprecOf` of lean/CuqiVerif/Model/C06_factor.lean.

implementation : `Gaussian(np.zeros(dim), <kind>=value).sqrtprec`
model          : `factor <dim> <kind> <arr>` → branch, exact factor (inputs with rational roots) or the matrix its Gram matrix must
                 equal / invert (irrational roots), or the exception class
hard comparison: only what the property needs of a factor — it is a `size × size` matrix and `LᵀL` equals the model's `LᵀL`
                 (a different square root of the same precision is a legitimate refactoring: reported as a note);
oracle         : `LᵀL` is the DOCUMENTED precision of the specification (implementation only, float reference);
soft (noted, histogrammed, never an alarm): the factor itself, exception classes of invalid matrices, malformed shapes
                 (rows, columns, non-square) — the property says nothing about them.
"""
import numpy as np
from fractions import Fraction
from harness.core import quiet, q, qv, qm, pm

TOL_F = 1e-10   # float factor / Gram matrix vs exact model value (purely relative, max norm)

SQ = [0.25, 1.0, 4.0, 0.0625, 2.25, 16.0, 6.25, 0.5625]     # squares of dyadics: np.sqrt and 1/x exact or correctly rounded to the exact root
GEN = [0.5, 2.0, 3.0, 0.75, 1.5, 5.0]
KINDS = ["cov", "prec", "sqrtcov", "sqrtprec"]
SPARSE_FORMATS = ["dia", "csr", "csc", "coo", "bsr", "lil"]   # not dok: len(dok_matrix) is its number of stored entries, which cuqi takes for the dimension (a refusal, outside the property)


def dense(M):
    return np.asarray(M.todense()) if hasattr(M, "todense") else np.asarray(M)


def rel(a, b):
    from harness.props import c06 as _base
    return _base._rec(_rel0(a, b))


def _rel0(a, b):
    a = np.asarray(a, dtype=float); b = np.asarray(b, dtype=float)
    if a.shape != b.shape or not (np.all(np.isfinite(a)) and np.all(np.isfinite(b))):
        return float("inf")
    top = max(np.max(np.abs(a)), np.max(np.abs(b))) if a.size else 0.0
    return float(np.max(np.abs(a - b)) / top) if top > 0 else 0.0


def exact_float(Fm):
    """matrix of Fractions -> float matrix if every entry is exactly representable, else None"""
    out = np.zeros((len(Fm), len(Fm[0])))
    for i, row in enumerate(Fm):
        for j, v in enumerate(row):
            f = float(v)
            if Fraction(f) != v:
                return None
            out[i, j] = f
    return out


def dyadic_upper(r, dim):
    """upper-triangular with power-of-two diagonal and small integer entries above: the inverse is dyadic too"""
    U = np.triu(r.randint(-1, 2, size=(dim, dim))).astype(float)
    for i in range(dim):
        U[i, i] = float(r.choice([0.5, 1.0, 2.0, 4.0]))
    return U


def frac_inv_upper(U):
    n = U.shape[0]
    F = [[Fraction(float(U[i, j])) for j in range(n)] for i in range(n)]
    X = [[Fraction(0)] * n for _ in range(n)]
    for j in range(n):
        for i in range(n - 1, -1, -1):
            s = Fraction(1 if i == j else 0) - sum(F[i][k] * X[k][j] for k in range(i + 1, n))
            X[i][j] = s / F[i][i]
    return X


def fmul(A, B):
    return [[sum(A[i][k] * B[k][j] for k in range(len(B))) for j in range(len(B[0]))] for i in range(len(A))]


def ftr(A):
    return [list(c) for c in zip(*A)]


def gen_valid(r, dim, kind, shape):
    """(value handed to Gaussian, arr token, tag, documented precision (float) or None, rational-root expected?)"""
    exact = r.rand() < 0.65
    pool = SQ if exact else GEN
    if shape == "scalar":
        v = float(r.choice(pool))
        form = r.randint(4)
        val = [v, np.array([v]), np.array([[v]]), [v]][form]
        tok = "s:" + q(v) if form in (0, 3) else ("v:" + q(v) if form == 1 else "m:" + q(v))
        d = np.full(dim, v)
        tag = f"{kind}-scalar-" + ["float", "arr1", "arr11", "list1"][form]
    elif shape in ("vector", "diag"):
        d = r.choice(pool, size=dim).astype(float)
        if shape == "vector":
            form = r.randint(2)
            val = d.copy() if form == 0 else d.tolist()
            tok = "v:" + qv(d)
            tag = f"{kind}-vector-" + ["ndarray", "list"][form]
        else:
            val = np.diag(d); tok = "m:" + qm(val); tag = f"{kind}-diag"
        if dim == 1:
            tag += "-dim1"       # a length-1 vector / 1x1 matrix takes the scalar branch
    else:
        d = None
    if d is not None:
        prec = {"cov": 1.0 / d, "prec": d, "sqrtcov": 1.0 / d ** 2, "sqrtprec": d ** 2}[kind]
        return val, tok, tag, np.diag(prec), exact
    # full matrices
    for _ in range(100):
        U = dyadic_upper(r, dim)
        if np.count_nonzero(U - np.diag(np.diag(U))) == 0:
            U[0, dim - 1] = 1.0
        Ui = frac_inv_upper(U)
        sub = ""
        if kind == "prec":
            if exact:
                val = U.T @ U
            else:
                G = r.randint(-2, 3, size=(dim, dim)).astype(float); val = G.T @ G + np.diag(r.choice(GEN, size=dim))
            doc = val
        elif kind == "cov":
            if exact:
                val = exact_float(fmul(Ui, ftr(Ui)))          # inv(cov) = UᵀU exactly
                if val is None:
                    continue
            else:
                G = r.randint(-2, 3, size=(dim, dim)).astype(float); val = G.T @ G + np.diag(r.choice(GEN, size=dim))
            doc = np.linalg.inv(val)
        elif kind == "sqrtprec":
            k = r.randint(3)
            val = [U, U.T, r.randint(-2, 3, size=(dim, dim)).astype(float) + 3.0 * np.eye(dim)][k]
            sub = ["-upper", "-lower", "-general"][k]
            doc = val.T @ val; exact = True
        else:  # sqrtcov: the code forms S Sᵀ; documented Sᵀ S — only symmetric S (and the known-finding class separately)
            k = r.randint(3)
            if k == 0:      # S = U⁻¹: inv(S Sᵀ) = UᵀU, rational Cholesky — but Sᵀ S ≠ S Sᵀ: known-finding class
                val = exact_float(Ui)
                if val is None:
                    continue
                sub = "-nonsym"
            elif k == 1:    # symmetric S
                G = np.triu(r.randint(-1, 2, size=(dim, dim))).astype(float)
                val = G + G.T + 4.0 * np.eye(dim); sub = "-sym"; exact = False
            else:           # orthogonal-times-diagonal would need irrational entries; use a signed permutation times dyadic diagonal
                perm = r.permutation(dim)
                val = np.zeros((dim, dim))
                for i in range(dim):
                    val[i, perm[i]] = float(r.choice([0.5, 1.0, 2.0, -2.0, 4.0]))
                if np.count_nonzero(val - np.diag(np.diag(val))) == 0:
                    continue
                sub = "-sym" if np.array_equal(val @ val.T, val.T @ val) else "-nonsym"
            doc = np.linalg.inv(val.T @ val)
        if np.linalg.cond(doc) > 1e4:
            continue
        return val, "m:" + qm(val), f"{kind}-full{sub}", doc, exact
    raise RuntimeError("could not generate a full matrix specification")


def gen_invalid(r, dim):
    """matrices no Gaussian has / malformed shapes: only exception classes and shapes are compared, softly"""
    kind = KINDS[r.randint(4)]
    c = r.randint(7)
    if c == 0:      # non-symmetric full cov / prec
        kind = ["cov", "prec"][r.randint(2)]
        val = np.eye(dim) * 3.0; val[0, dim - 1] = 1.0
        tag = "nonsymmetric"
    elif c == 1:    # symmetric, not positive definite (exactly singular minors avoided)
        kind = ["cov", "prec"][r.randint(2)]
        val = np.eye(dim); val[0, dim - 1] = val[dim - 1, 0] = 2.0
        tag = "indefinite"
    elif c == 2:    # exactly singular 2x2 block structure (cov: inv raises; prec: Cholesky raises)
        kind = ["cov", "prec", "sqrtcov"][r.randint(3)]
        dim = 2
        val = np.array([[1.0, 1.0], [1.0, 1.0]]) if kind != "sqrtcov" else np.array([[1.0, 2.0], [2.0, 4.0]])
        tag = "singular2"
    elif c == 3:    # non-square 2-D
        val = r.randint(1, 4, size=(dim + 1, dim)).astype(float); tag = "nonsquare"
    elif c == 4:    # (1, c) row
        cols = dim if r.rand() < 0.5 else dim + 1
        val = np.array([r.choice(SQ, size=cols)]).astype(float); tag = f"row-{'dim' if cols == dim else 'other'}"
    elif c == 5:    # (r, 1) column
        val = r.choice(SQ, size=(dim, 1)).astype(float); tag = "column"
    else:           # negative diagonal entry in a cov / prec vector: nan, no exception
        kind = ["cov", "prec"][r.randint(2)]
        val = r.choice(SQ, size=dim).astype(float); val[0] = -4.0; tag = "negative-entry"
        return dim, kind, val, "v:" + qv(val), f"{kind}-{tag}"
    if dim == 1 and tag in ("nonsymmetric", "indefinite"):
        val = np.array([[4.0]]); tag = "dim1"
    return dim, kind, val, "m:" + qm(val), f"{kind}-{tag}"


def impl_factor(cuqi, dim, kind, val):
    from cuqi.distribution import Gaussian
    try:
        with quiet(), np.errstate(all="ignore"):
            g = Gaussian(np.zeros(dim), **{kind: (val.copy() if hasattr(val, "copy") else val)})
            L = dense(g.sqrtprec)
            impl_factor.last_sparse = hasattr(g.sqrtprec, "todense")
        return "ok", np.array(L, dtype=float)
    except Exception as ex:
        return "err:" + type(ex).__name__, str(ex)[:100]


def run_factor(ctx, cuqi, r, thorough):
    n_valid = 100 if not thorough else 2500
    n_invalid = 30 if not thorough else 300
    cases = []
    for t in range(n_valid):
        dim = int(r.randint(1, 7))
        kind = KINDS[t % 4]
        shape = ["scalar", "vector", "diag", "full"][(t // 4) % 4]
        if shape == "full" and dim == 1:
            dim = 2
        val, tok, tag, doc, exact = gen_valid(r, dim, kind, shape)
        cases.append({"valid": True, "dim": dim, "kind": kind, "val": val, "tok": tok, "tag": tag, "doc": doc})
    # every kind x {diagonal, banded} x scipy.sparse storage format (isspmatrix_dia tests the FORMAT, not diagonality)
    import scipy.sparse as spa
    for rep in range(1 if not thorough else 6):
        for kind in KINDS:
            for form in ("diag", "band"):
                for fmt in SPARSE_FORMATS:
                    dim = int(r.randint(3, 7))
                    if form == "diag":
                        dv = r.choice(SQ, size=dim).astype(float)
                        val = np.diag(dv)
                        doc = np.diag({"cov": 1.0 / dv, "prec": dv, "sqrtcov": 1.0 / dv ** 2, "sqrtprec": dv ** 2}[kind])
                    else:
                        dg = r.choice([2.0, 3.0, 4.0], size=dim).astype(float)
                        off = r.choice([-1.0, 0.5, 1.0], size=dim - 1).astype(float)
                        if kind == "sqrtprec":
                            sub = r.randint(3)
                            val = (np.eye(dim) - np.diag(np.ones(dim - 1), 1)) if sub == 0 else (np.diag(dg) + np.diag(off, 1 if sub == 1 else -1))
                        else:
                            val = np.diag(dg) + np.diag(off, 1) + np.diag(off, -1)
                        Dm = val if kind in ("cov", "prec") else val.T @ val
                        doc = np.linalg.inv(Dm) if kind in ("cov", "sqrtcov") else Dm
                    cases.append({"valid": True, "dim": dim, "kind": kind, "val": getattr(spa, fmt + "_matrix")(val), "tok": "m:" + qm(val),
                                  "tag": f"{kind}-{form}-sparse-{fmt}", "doc": doc, "fmt": fmt})
    # integer-valued parameters in integer dtypes / python ints / lists of ints, every kind x every form
    # (np.reciprocal, ** and / keep or change dtypes differently: the numbers, not the dtype, specify the Gaussian)
    r_i = np.random.RandomState(ctx.seed + 60611)
    DTF = ["int64", "int32", "int16", "pylist", "uint8"]
    ti = 0
    for rep in range(1 if not thorough else 8):
        for kind in KINDS:
            for shape in ("scalar", "vector", "diag", "full"):
                dim = int(r_i.randint(2, 6))
                form = DTF[(ti + ctx.seed) % len(DTF)]; ti += 1
                if form == "uint8" and shape == "full":
                    form = "int16"                       # (negative entries)
                cast = (lambda a: np.asarray(a).astype(int).tolist()) if form == "pylist" else (lambda a, form=form: np.asarray(a).astype(form))
                if shape == "scalar":
                    v = int(r_i.choice([1, 2, 3, 4, 5, 9]))
                    val = v if form == "pylist" else np.array([v]).astype(form)
                    tok = ("s:" if form == "pylist" else "v:") + q(float(v)); dv = np.full(dim, float(v))
                elif shape in ("vector", "diag"):
                    dv = r_i.choice([1, 2, 3, 4, 5, 9], size=dim).astype(float)
                    if not np.any(dv > 1):
                        dv[0] = 3.0
                    val = cast(dv if shape == "vector" else np.diag(dv))
                    tok = ("v:" + qv(dv)) if shape == "vector" else ("m:" + qm(np.diag(dv)))
                if shape != "full":
                    doc = np.diag({"cov": 1.0 / dv, "prec": dv, "sqrtcov": 1.0 / dv ** 2, "sqrtprec": dv ** 2}[kind])
                else:
                    U = np.triu(r_i.randint(-1, 2, size=(dim, dim))).astype(float)
                    for i_ in range(dim):
                        U[i_, i_] = float(r_i.choice([1, 2, 3]))
                    U[0, dim - 1] = 1.0
                    if kind in ("cov", "prec"):
                        M_ = U.T @ U
                    elif kind == "sqrtprec":
                        M_ = U
                    else:
                        M_ = U + U.T + 6.0 * np.eye(dim)          # symmetric sqrtcov: S Sᵀ = Sᵀ S
                    val = cast(M_); tok = "m:" + qm(M_)
                    doc = {"cov": lambda: np.linalg.inv(M_), "prec": lambda: M_, "sqrtcov": lambda: np.linalg.inv(M_.T @ M_), "sqrtprec": lambda: M_.T @ M_}[kind]()
                # narrow integer dtypes: numpy evaluates np.sqrt of an int16 array in float32 and of a uint8 array in FLOAT16 (eps 1e-3), and
                # cuqi does not cast (observation, see docs/C06.md) — compared to 1e-5 / 1e-2: gross errors (integer arithmetic) are still caught
                cases.append({"valid": True, "dim": dim, "kind": kind, "val": val, "tok": tok, "tag": f"{kind}-{shape}-{form}", "doc": doc,
                              "tol": {"int16": 1e-5, "uint8": 1e-2}.get(form)})
    for t in range(n_invalid):
        dim = int(r.randint(2, 6))
        dim, kind, val, tok, tag = gen_invalid(r, dim)
        cases.append({"valid": False, "dim": dim, "kind": kind, "val": val, "tok": tok, "tag": tag, "doc": None})
    lines = [(f"factors {c['dim']} {c['kind']} {c['fmt']} {c['tok']}" if c.get("fmt") else f"factor {c['dim']} {c['kind']} {c['tok']}") for c in cases]
    combos = [(a, b, c_, d) for a in (0, 1) for b in (0, 1) for c_ in (0, 1) for d in (0, 1)]
    lines += [f"kinds {a} {b} {c_} {d}" for a, b, c_, d in combos]
    outs = ctx.lean.drive(lines)

    hist = {"branch": {}, "outcome": {}, "tag": {}, "soft_mismatch": {}, "storage_path": {}}
    def bump(h, k):
        hist[h][k] = hist[h].get(k, 0) + 1
    for c, o in zip(cases, outs):
        dim, kind, val, tag = c["dim"], c["kind"], c["val"], c["tag"]
        desc = {"dim": dim, "kind": kind, "value": dense(val).tolist(), "tag": tag, "model": o[:60]}
        key = f"factor:{tag}"
        ctx.case("factor-valid" if c["valid"] else "factor-invalid", desc)
        st, L = impl_factor(cuqi, dim, kind, val)
        toks = o.split(" ")
        if c.get("fmt"):
            # storage-dispatch table of the model: code path and whether the stored factor is sparse (soft: storage is not demanded)
            path, rs = toks[0], toks[1] == "1"
            toks = toks[2:]; o = " ".join(toks)
            bump("storage_path", f"{kind}:{c['fmt']}:{'diag' if '-diag-' in tag else 'band'}->{path}")
            if st == "ok" and bool(getattr(impl_factor, "last_sparse", False)) != rs:
                bump("soft_mismatch", "storage:" + tag)
                ctx.note(f"{key}: model path {path} predicts a {'sparse' if rs else 'dense'} stored factor, implementation stores the other (storage only)")
        bump("tag", tag); bump("outcome", toks[0])
        if toks[0] in ("ok", "irrational"):
            bump("branch", toks[1])
        if not c["valid"]:
            # soft: exception classes / shapes of inputs the property does not speak about
            same = (toks[0] == st) if toks[0].startswith("err:") else \
                   (st == "ok" and ((toks[0] == "flat1" and L.ndim == 1 and L.size == 1) or
                                    (toks[0] == "ok" and L.shape == (int(toks[2]),) * 2 and rel(L, np.array([[float(v) for v in row] for row in pm(toks[3])])) <= TOL_F) or
                                    (toks[0] == "irrational" and L.shape == (int(toks[2]),) * 2)))
            if not same:
                bump("soft_mismatch", tag)
                ctx.note(f"invalid Gaussian parameter {tag}: model {o[:50]} / implementation {st} {'' if st != 'ok' else L.shape} (not demanded by the property)")
            continue
        # ---- valid specification: hard comparison on the Gram matrix, oracle against the documented precision
        if st != "ok":
            ctx.disagree(key + ":refusal", desc, o[:80], st + " " + str(L), "Gaussian refuses a valid specification")
            ctx.fail(key + ":refusal", desc, "a square-root precision", st + " " + str(L), "Gaussian refuses a valid covariance / precision specification")
            continue
        if toks[0] not in ("ok", "irrational"):
            ctx.disagree(key + ":model-refusal", desc, o[:80], "accepted", "model refuses a specification the implementation accepts")
            G = L.T @ L if L.ndim == 2 else None
            if G is None or G.shape != c["doc"].shape or rel(G, c["doc"]) > 1e-9:
                ctx.fail(key + ":model-refusal", desc, c["doc"].tolist(), None if G is None else G.tolist(), "LᵀL is not the documented precision")
            continue
        size = int(toks[2])
        TOLc = c.get("tol") or TOL_F
        TOLd = c.get("tol") or 1e-9
        if c.get("tol") and L.ndim == 2 and L.shape == c["doc"].shape:
            hist.setdefault("narrow_dtype_deviation_max", {})
            fm = tag.rsplit("-", 1)[-1]
            hist["narrow_dtype_deviation_max"][fm] = max(hist["narrow_dtype_deviation_max"].get(fm, 0.0), _rel0(L.T @ L, c["doc"]))
        nfail = len(ctx.failures)
        dkeys = []
        if L.ndim != 2 or L.shape != (size, size):
            ctx.disagree(key + ":shape", desc, [size, size], list(L.shape), "shape of Gaussian.sqrtprec")
            dkeys.append(key + ":shape")
            G = None
        else:
            G = L.T @ L
            if toks[0] == "ok":
                Lm = np.array([[float(v) for v in row] for row in pm(toks[3])])
                if rel(G, Lm.T @ Lm) > TOLc:
                    ctx.disagree(key + ":gram", desc, (Lm.T @ Lm).tolist(), G.tolist(), "LᵀL of Gaussian.sqrtprec vs the model's exact factor")
                    dkeys.append(key + ":gram")
                elif rel(L, Lm) > TOLc:
                    bump("soft_mismatch", "factor-differs:" + tag)
                    ctx.note(f"{key}: the implementation's factor differs from the model's but squares to the same precision (other square root)")
            else:
                S = np.array([[float(v) for v in row] for row in pm(toks[4])])
                bad = rel(G @ S, np.eye(size)) > TOLd if toks[3] == "1" else rel(G, S) > TOLc
                if bad:
                    ctx.disagree(key + ":gram", desc, S.tolist(), G.tolist(), "LᵀL of Gaussian.sqrtprec vs the matrix the model says it must equal / invert")
                    dkeys.append(key + ":gram")
        # oracle (implementation only): the factor squares to the documented precision
        doc = c["doc"]
        okey = key + (":cov" if "sqrtcov-full-nonsym" in tag else ":doc-precision")
        if G is None or G.shape != doc.shape or rel(G, doc) > TOLd:
            ctx.fail(okey, desc, doc.tolist(), None if G is None else G.tolist(),
                     "Gaussian.sqrtprec does not square to the precision of the specified Gaussian (LᵀL ≠ documented precision)")
        new = {f_["key"] for f_ in ctx.failures[nfail:]}
        for dk in dkeys:
            if dk not in new and new:
                ctx.fail(dk, desc, "see " + ", ".join(sorted(new)), "oracle fails at the same input", "model/implementation disagreement at an input on which the oracle fails")

    # constructor: exactly one of the four matrix arguments
    from cuqi.distribution import Gaussian
    for (a, b, c_, d), o in zip(combos, outs[len(cases):]):
        kw = {k: 4.0 for k, on in zip(KINDS, (a, b, c_, d)) if on}
        ctx.case("factor-kinds", {"given": sorted(kw)})
        try:
            with quiet():
                g = Gaussian(np.zeros(3), **kw)
            got = g.get_mutable_variables()[1] if hasattr(g, "sqrtprec") else "none"
        except Exception as ex:
            got = "err:" + type(ex).__name__
        if got != o:
            if len(kw) == 1:
                key = f"factor:kinds:{sorted(kw)[0]}"
                ctx.disagree(key, {"given": sorted(kw)}, o, got, "which parameter a Gaussian is specified by")
                ctx.fail(key, {"given": sorted(kw)}, o, got, "a Gaussian specified by exactly one matrix parameter is not accepted as such")
            else:
                bump("soft_mismatch", "kinds")
                ctx.note(f"Gaussian({sorted(kw)}): model {o}, implementation {got} (argument validation; not demanded by the property)")
    # dense full matrices of dimension > MIN_DIM_SPARSE (eigen-decomposition route) at absolute scales 2^-40 .. 2^20:
    # oracle only (float64 reference of the documented precision, purely relative) — the exact model is too slow at this size
    r_l = np.random.RandomState(ctx.seed + 60612)
    scales = [-40, -30, -20, -10, 0, 10, 20]
    nbad = 0
    for kind in KINDS:
        for j, k2 in enumerate(scales if thorough else [scales[(ctx.seed + KINDS.index(kind)) % 7], -40 if kind in ("cov", "sqrtcov") else 20, -30]):
            dim = int(r_l.randint(76, 82))
            Bm = np.diag(3.0 + r_l.rand(dim)) + 0.8 * np.diag(r_l.rand(dim - 1) + 0.2, 1) + 0.3 * np.diag(r_l.rand(dim - 5) + 0.2, 5)
            Bm = Bm + Bm.T if kind != "sqrtprec" else Bm
            f = 2.0 ** (k2 if kind in ("cov", "prec") else k2 // 2)
            val = Bm * f
            D_ = val if kind in ("cov", "prec") else val.T @ val
            doc = np.linalg.inv(D_) if kind in ("cov", "sqrtcov") else D_
            tag = f"large:{kind}-full-dense{dim}:scale2^{k2}"
            desc = {"dim": dim, "kind": kind, "scale_log2": k2, "matrix": "s·(banded SPD), seed stream RandomState(seed+60612)", "first_row": val[0, :6].tolist()}
            ctx.case("factor-large", desc)
            st, L = impl_factor(cuqi, dim, kind, val)
            if st != "ok":
                ctx.fail(f"factor:{tag}:refusal", desc, "a square-root precision", st + " " + str(L), "Gaussian refuses a valid dense specification of dimension > 75")
                continue
            if L.ndim != 2 or L.shape[1] != dim or rel(L.T @ L, doc) > 1e-8:
                ctx.fail(f"factor:{tag}:doc-precision", desc, np.diag(doc)[:6].tolist(), (np.diag(L.T @ L)[:6].tolist() if L.ndim == 2 else None),
                         "Gaussian.sqrtprec does not square to the precision of the specified Gaussian (dense, dimension > 75, LᵀL vs inverse covariance, relative)")
    ctx.extra_cov["factor_stream"] = hist
