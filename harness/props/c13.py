"""C13 — geometry maps are mutually inverse and act column-wise on batches
(correspondence with the Lean model `CuqiVerif/Model/C13.lean` + property oracle on the real code)."""
import math
import numpy as np
from fractions import Fraction
from harness.core import import_cuqi, quiet, q, qv, close

EXC = "raise"


# ----------------------------------------------------------------------------- canonical forms
def enc(x):
    """numpy array -> the two protocol tokens `shape data` (C order)"""
    x = np.asarray(x, dtype=float)
    sh = ",".join(str(d) for d in x.shape) if x.ndim else "_"
    return sh + " " + qv(x.ravel(order="C"))


def canon(y):
    """implementation result -> 'raise' | 'nan' | (shape, [floats])"""
    if isinstance(y, BaseException):
        return EXC
    a = np.asarray(y, dtype=float)
    if np.isnan(a).any():
        return "nan"
    return (tuple(int(d) for d in a.shape), [float(v) for v in a.ravel(order="C")])


def parse_arr(s):
    """model output -> 'raise' | 'nan' | 'err' | (shape, [Fraction])"""
    if "|" not in s:
        return s
    sh, da = s.split("|")
    shape = () if sh == "_" else tuple(int(t) for t in sh.split(","))
    data = [] if da == "_" else [Fraction(t) for t in da.split(",")]
    return (shape, data)


def same(model, impl, tol=0.0):
    if isinstance(model, str) or isinstance(impl, str):
        if model == "err":
            model = EXC
        return model == impl
    if model[0] != impl[0] or len(model[1]) != len(impl[1]):
        return False
    if tol == 0.0:
        return all(Fraction(b) == a for a, b in zip(model[1], impl[1]))
    return all(close(float(a), b, tol) for a, b in zip(model[1], impl[1]))


def short(x, n=160):
    s = str(x)
    return s if len(s) <= n else s[:n] + "..."


def call(f, *a):
    try:
        with quiet():
            return f(*a)
    except Exception as e:  # the real code refuses
        return e


# ----------------------------------------------------------------------------- geometries under test
class G:
    """a geometry: implementation object factory + model spec"""
    def __init__(self, name, spec, make, par_dim, fun_shape, exact_inverse=True, tol=0.0, cls=None, unit=False,
                 inner=None, fmap=None, fimap=None):
        self.inner, self.fmap, self.fimap = inner, fmap, fimap   # mapped geometries: fresh wrapped geometry, map, imap
        self.name, self.spec, self.make = (name + "~unit" if unit else name), spec, make
        self.par_dim, self.fun_shape = par_dim, tuple(fun_shape)
        self.exact_inverse = exact_inverse      # fun2par is a two-sided inverse (not only a projection)
        self.tol = tol
        self.cls = cls or name
        self.unit = unit                        # has an axis of length one (squeeze rules bite)
        self._obj = None

    @property
    def obj(self):
        if self._obj is None:
            with quiet():
                self._obj = self.make()
        return self._obj


def ints(rng, shape, lo=-9, hi=9):
    return rng.randint(lo, hi + 1, size=shape).astype(float)


def step_bounds_float(grid, s):
    """the interval ends exactly as the implementation computes them (float64)"""
    L = grid[-1] - grid[0]
    x0 = grid[0]
    return [x0 + i * L / s for i in range(s + 1)]


def step_spec(grid, s, proj, bounds=None):
    b = "-" if bounds is None else qv(bounds)
    return f"step:{qv(grid)}:{b}:{s}:{proj}"


def build_geometries(cuqi, rng, thorough):
    from cuqi.geometry import (Continuous1D, Continuous2D, Image2D, Discrete, MappedGeometry, StepExpansion,
                               _DefaultGeometry1D, _DefaultGeometry2D)
    gs = []
    dims2 = [(2, 3), (3, 2), (3, 3), (2, 2), (4, 3), (1, 4), (4, 1), (1, 1), (5, 2), (7, 9), (3, 5)]
    if thorough:
        dims2 += [(a, b) for a in range(1, 6) for b in range(1, 7)]
    for (a, b) in dims2:
        unit = a == 1 or b == 1
        for o in ("C", "F"):
            gs.append(G("Image2D", f"image:{a}:{b}:{o}:0", lambda a=a, b=b, o=o: Image2D((a, b), order=o), a * b, (a, b)))
        gs.append(G("Image2D-visual", f"image:{a}:{b}:C:1", lambda a=a, b=b: Image2D((a, b), visual_only=True), a * b, (a * b,)))
        gs.append(G("Continuous2D", f"cont2d:{a}:{b}", lambda a=a, b=b: Continuous2D((a, b)), a * b, (a, b), unit=unit))
        gs.append(G("Default2D", f"image:{a}:{b}:C:0", lambda a=a, b=b: _DefaultGeometry2D((a, b)), a * b, (a, b)))
    for n in [1, 2, 3, 5, 8]:
        gs.append(G("Continuous1D", f"cont1d:{n}", lambda n=n: Continuous1D(n), n, (n,)))
        gs.append(G("Discrete", f"discrete:{n}", lambda n=n: Discrete(n), n, (n,)))
        gs.append(G("Default1D", f"cont1d:{n}", lambda n=n: _DefaultGeometry1D(n), n, (n,)))
    # mapped geometries: map = scale*f + shift (dyadic, exact in floating point)
    for (a, b), o, sc, sh in [((2, 3), "F", 2.0, 1.0), ((3, 2), "C", 0.5, -3.0), ((3, 3), "F", -4.0, 0.25), ((1, 3), "C", 2.0, 0.0)]:
        gs.append(G("Mapped(Image2D)", f"mapped:{q(sc)}:{q(sh)}:1:image:{a}:{b}:{o}:0",
                    lambda a=a, b=b, o=o, sc=sc, sh=sh: MappedGeometry(Image2D((a, b), order=o), map=lambda x: sc * x + sh, imap=lambda y: (y - sh) / sc),
                    a * b, (a, b)))
        gs.append(G("Mapped(Continuous2D)", f"mapped:{q(sc)}:{q(sh)}:1:cont2d:{a}:{b}",
                    lambda a=a, b=b, sc=sc, sh=sh: MappedGeometry(Continuous2D((a, b)), map=lambda x: sc * x + sh, imap=lambda y: (y - sh) / sc),
                    a * b, (a, b), unit=(a == 1 or b == 1)))
    gs.append(G("Mapped(Continuous1D)", "mapped:2:1:1:cont1d:4",
                lambda: MappedGeometry(Continuous1D(4), map=lambda x: 2.0 * x + 1.0, imap=lambda y: (y - 1.0) / 2.0), 4, (4,)))
    gs.append(G("Mapped-noinverse", "mapped:2:1:0:image:2:3:C:0",
                lambda: MappedGeometry(Image2D((2, 3)), map=lambda x: 2.0 * x + 1.0), 6, (2, 3)))
    # step expansions on grids whose arithmetic is exact (dyadic): model with exact bounds
    for (x0, h, n, s) in [(0.0, 1.0, 6, 3), (0.0, 0.5, 9, 4), (-2.0, 0.25, 7, 7), (1.0, 2.0, 5, 1), (0.0, 1.0, 2, 2),
                          (3.0, 0.125, 12, 5), (0.0, 1.0, 10, 3), (-1.0, 1.0, 8, 2)]:
        grid = x0 + h * np.arange(n)
        for proj in ("mean", "max", "min"):
            gs.append(G("StepExpansion", step_spec(grid, s, proj),
                        lambda grid=grid, s=s, proj=proj: StepExpansion(grid, n_steps=s, fun2par_projection=proj),
                        s, (n,), exact_inverse=False, tol=1e-12, unit=(s == 1)))
    for (x0, h, n, st), (sc, sh) in [((0.0, 1.0, 6, 3), (2.0, 1.0)), ((0.0, 0.5, 9, 4), (-2.0, 3.0)), ((-1.0, 1.0, 8, 2), (1.0, 3.0)),
                                     ((0.0, 1.0, 10, 3), (-0.5, -3.0))]:
        grid = x0 + h * np.arange(n)
        for proj in ("mean", "max", "min"):
            mk_in = lambda grid=grid, st=st, proj=proj: StepExpansion(grid, n_steps=st, fun2par_projection=proj)
            fm = lambda x, sc=sc, sh=sh: sc * x + sh
            fi = lambda y, sc=sc, sh=sh: (y - sh) / sc
            gs.append(G("Mapped(StepExpansion)", f"mapped:{q(sc)}:{q(sh)}:1:" + step_spec(grid, st, proj),
                        lambda mk_in=mk_in, fm=fm, fi=fi: MappedGeometry(mk_in(), map=fm, imap=fi),
                        st, (n,), exact_inverse=False, tol=1e-12, inner=mk_in, fmap=fm, fimap=fi))
    return gs


# ----------------------------------------------------------------------------- part A: the maps
def part_maps(ctx, cuqi, gs, thorough):
    rng = np.random.RandomState(ctx.seed + 1300)
    lines, meta = [], []

    def add(g, op, x, klass):
        lines.append(f"map {g.spec} {op} {enc(x)}")
        meta.append((g, op, x, klass))

    for g in gs:
        lines.append(f"shapes {g.spec}")
        meta.append((g, "shapes", None, "shapes"))
        batches = [1, 2, 3, 5] if not thorough else [1, 2, 3, 4, 5]
        # parameters: single vector, then batches
        add(g, "par2fun", ints(rng, (g.par_dim,)), "single")
        for ns in batches:
            add(g, "par2fun", ints(rng, (g.par_dim, ns)), "batch")
        add(g, "fun2par", ints(rng, g.fun_shape), "single")
        for ns in batches:
            add(g, "fun2par", ints(rng, g.fun_shape + (ns,)), "batch")
        add(g, "fun2vec", ints(rng, g.fun_shape), "single")
        add(g, "vec2fun", ints(rng, (int(np.prod(g.fun_shape)),)), "single")
        # the vector-form maps called directly on batches (matrix of columns)
        for ns in (2, 3):
            add(g, "fun2vec", ints(rng, g.fun_shape + (ns,)), "batch")
            add(g, "vec2fun", ints(rng, (int(np.prod(g.fun_shape)), ns)), "batch")
        # malformed: wrong size, transposed batch, extra axis
        add(g, "par2fun", ints(rng, (g.par_dim + 1,)), "malformed")
        add(g, "par2fun", ints(rng, (2, g.par_dim)), "malformed")
        add(g, "fun2par", ints(rng, (int(np.prod(g.fun_shape)) + 1,)), "malformed")
        add(g, "fun2par", ints(rng, (2,) + g.fun_shape), "malformed")
    outs = yield lines            # one driver call for all streams (see run)

    for (g, op, x, klass), out in zip(meta, outs):
        key = f"{g.name}:{op}:{klass}"
        desc = {"geometry": g.spec, "op": op, "class": klass, "input_shape": None if x is None else list(x.shape)}
        if op == "shapes":
            ctx.case("shapes", desc)
            o = g.obj
            def shp(name):
                r = call(lambda: getattr(o, name))
                return "err" if isinstance(r, BaseException) else (",".join(str(d) for d in r) if len(r) else "_")
            impl = f"par={shp('par_shape')} pardim={call(lambda: o.par_dim)} fun={shp('fun_shape')} vec={shp('funvec_shape')}"
            if impl != out:
                ctx.disagree(f"{g.name}:shapes", desc, out, impl, "reported shapes differ")
                oracle_shapes(ctx, f"{g.name}:shapes", desc, g)
            continue
        ctx.case(f"map-{op}-{klass}", desc, nontrivial=klass != "malformed")
        desc["input"] = short(x.tolist(), 120)
        y = call(getattr(g.obj, op), x.copy())
        m, im = parse_arr(out), canon(y)
        if klass == "malformed":
            # only the decision (refuse / accept and the shape) is compared with the model
            if isinstance(m, str) != isinstance(im, str) or (not isinstance(m, str) and m[0] != im[0]):
                ctx.disagree(key, desc, short(out), short(im), "malformed input handled differently")
                oracle_maps(ctx, key, g, rng)
            continue
        if not same(m, im, g.tol):
            ctx.disagree(key, desc, short(out), short(im), "map output differs")
            oracle_maps(ctx, key, g, rng)
    # the property oracle on every geometry (cheap)
    for g in gs:
        oracle_maps(ctx, None, g, rng)
        oracle_shapes(ctx, None, None, g)


def oracle_shapes(ctx, key, desc, g):
    """implementation only: reported shapes/dimensions are what the maps produce"""
    o = g.obj
    k = lambda suffix: key or f"{g.name}:{suffix}"
    d = {"geometry": g.spec}
    p = np.arange(1.0, g.par_dim + 1)
    ps, fs = call(lambda: o.par_shape), call(lambda: o.fun_shape)
    if isinstance(ps, BaseException) or isinstance(fs, BaseException):
        ctx.fail(k("shapes"), d, "shapes available", repr(ps) + repr(fs), "par_shape/fun_shape raise")
        return
    if tuple(ps) != (g.par_dim,) or o.par_dim != g.par_dim:
        ctx.fail(k("shapes"), d, (g.par_dim,), ps, "par_shape / par_dim is not the documented one")
    if call(lambda: o.fun_dim) != int(np.prod(fs)):
        ctx.fail(k("shapes"), d, int(np.prod(fs)), call(lambda: o.fun_dim), "fun_dim is not the product of fun_shape")
    f = call(o.par2fun, p)
    if isinstance(f, BaseException):
        ctx.fail(k("par2fun:single"), d, "par2fun accepts a parameter vector of par_shape", repr(f))
        return
    suffix = ""
    if tuple(np.shape(f)) != tuple(fs):
        ctx.fail(k("par2fun:single:shape") + suffix, d, tuple(fs), np.shape(f), "par2fun output shape is not fun_shape")
    if "noinverse" in g.name:
        return
    p2 = call(o.fun2par, f)
    if not isinstance(p2, BaseException) and tuple(np.shape(p2)) != tuple(ps):
        ctx.fail(k("fun2par:single:shape") + suffix, d, tuple(ps), np.shape(p2), "fun2par output shape is not par_shape")
    vs = call(lambda: o.funvec_shape)
    if not isinstance(vs, BaseException):
        v = call(o.fun2vec, f)
        if isinstance(v, BaseException) or tuple(np.shape(v)) != tuple(vs) or call(lambda: o.funvec_dim) != int(np.prod(vs)):
            ctx.fail(k("fun2vec:single:shape") + suffix, d, tuple(vs), repr(v) if isinstance(v, BaseException) else np.shape(v),
                     "fun2vec output shape is not funvec_shape")


def oracle_maps(ctx, key, g, rng):
    """implementation only: round trip, projection idempotence, column-wise action, vec round trip"""
    o = g.obj
    if "noinverse" in g.name:
        return
    k = lambda suffix: key or f"{g.name}:{suffix}"
    usuf = ""
    d = {"geometry": g.spec}
    tol = 1e-11
    eq = lambda a, b: np.shape(a) == np.shape(b) and np.allclose(a, b, rtol=tol, atol=tol, equal_nan=False)
    veq = lambda a, b: np.size(a) == np.size(b) and np.allclose(np.ravel(a), np.ravel(b), rtol=tol, atol=tol)
    if g.inner is not None:
        with quiet():
            inner = g.inner()
        for shp in (g.fun_shape, g.fun_shape + (2,)):
            fv = ints(rng, shp)
            want, got = call(lambda: inner.fun2par(g.fimap(fv.copy()))), call(o.fun2par, fv.copy())
            if isinstance(got, BaseException) or isinstance(want, BaseException) or not eq(np.asarray(got), np.asarray(want)):
                ctx.fail(k("fun2par:documented-order"), {**d, "f": short(fv.tolist())}, short(repr(want)), short(repr(got)),
                         "MappedGeometry.fun2par(f) is not geometry.fun2par(imap(f))")
        for shp in ((g.par_dim,), (g.par_dim, 2)):
            pv = ints(rng, shp)
            want, got = call(lambda: g.fmap(inner.par2fun(pv.copy()))), call(o.par2fun, pv.copy())
            if isinstance(got, BaseException) or isinstance(want, BaseException) or not eq(np.asarray(got), np.asarray(want)):
                ctx.fail(k("par2fun:documented-order"), {**d, "p": short(pv.tolist())}, short(repr(want)), short(repr(got)),
                         "MappedGeometry.par2fun(p) is not map(geometry.par2fun(p))")
    for trial in range(2):
        p = ints(rng, (g.par_dim,))
        f = call(o.par2fun, p)
        if isinstance(f, BaseException):
            ctx.fail(k("par2fun:single"), {**d, "p": p.tolist()}, "accepted", repr(f)); return
        p2 = call(o.fun2par, f)
        if isinstance(p2, BaseException) or not veq(p2, p):
            ctx.fail(k("roundtrip:single"), {**d, "p": p.tolist()}, p.tolist(), short(repr(p2)), "fun2par(par2fun(p)) != p")
        elif np.shape(p2) != np.shape(p):
            ctx.fail(k("fun2par:single:shape") + usuf, {**d, "p": p.tolist()}, np.shape(p), np.shape(p2), "round trip changes the shape of the parameter vector")
        # projection: par2fun∘fun2par idempotent; exact inverse: it is the identity
        fv = ints(rng, g.fun_shape)
        pf = call(o.fun2par, fv)
        if not isinstance(pf, BaseException):
            P1 = call(o.par2fun, np.asarray(pf).reshape(g.par_dim))
            if isinstance(P1, BaseException):
                ctx.fail(k("projection:single"), {**d, "f": fv.tolist()}, "defined", repr(P1))
            else:
                P2 = call(o.par2fun, np.asarray(call(o.fun2par, P1)).reshape(g.par_dim))
                if isinstance(P2, BaseException) or not veq(P2, P1):
                    ctx.fail(k("projection:single"), {**d, "f": fv.tolist()}, "par2fun∘fun2par idempotent", short(repr(P2)))
                if g.exact_inverse and not veq(P1, fv):
                    ctx.fail(k("roundtrip:fun:single"), {**d, "f": fv.tolist()}, fv.tolist(), short(np.asarray(P1).tolist()), "par2fun(fun2par(f)) != f")
        else:
            ctx.fail(k("fun2par:single"), {**d, "f": fv.tolist()}, "accepted", repr(pf))
        # batches: column-wise action of both maps
        for ns in (1, 2, 4):
            P = ints(rng, (g.par_dim, ns))
            F = call(o.par2fun, P)
            cols = [np.asarray(call(o.par2fun, P[:, i].copy())) for i in range(ns)]
            ref = np.stack(cols, axis=-1)
            if isinstance(F, BaseException):
                ctx.fail(k("par2fun:batch"), {**d, "P": P.tolist()}, "accepted", repr(F)); continue
            F = np.asarray(F)
            ok = (np.shape(F) == ref.shape) or (ns == 1 and np.shape(F) == ref.shape[:-1])   # documented squeeze of a single column
            if not ok or not veq(F, ref):
                ctx.fail(k("par2fun:batch:not-columnwise") + usuf, {**d, "P": P.tolist()}, short(ref.tolist()), short(F.tolist()),
                         "par2fun of a batch is not the column-wise map")
            Fb = ref  # canonical batch of function values (fun_shape + (ns,))
            Q = call(o.fun2par, Fb.copy())
            qcols = [np.asarray(call(o.fun2par, np.asarray(c).reshape(g.fun_shape))).reshape(-1) for c in cols]
            qref = np.stack(qcols, axis=-1)
            if isinstance(Q, BaseException):
                ctx.fail(k("fun2par:batch"), {**d, "F": short(Fb.tolist())}, "accepted", repr(Q)); continue
            Q = np.asarray(Q)
            ok = (np.shape(Q) == qref.shape) or (ns == 1 and np.shape(Q) == qref.shape[:-1])
            if not ok or not veq(Q, qref):
                ctx.fail(k("fun2par:batch:not-columnwise") + usuf, {**d, "F": short(Fb.tolist())}, short(qref.tolist()), short(Q.tolist()),
                         "fun2par of a batch is not the column-wise map")
        # vectorised function values
        vs = call(lambda: o.funvec_shape)
        if not isinstance(vs, BaseException):
            v = call(o.fun2vec, f)
            f2 = call(o.vec2fun, v) if not isinstance(v, BaseException) else v
            if isinstance(f2, BaseException) or not eq(f2, f):
                ctx.fail(k("vec-roundtrip:single") + usuf, {**d, "p": p.tolist()}, "vec2fun(fun2vec(f)) == f", short(repr(f2)))
            if trial == 0:
                img = ("Image2D" in g.name or "Default2D" in g.name) and "visual" not in g.name
                vec_batch_oracle(ctx, k, d, o, g.fun_shape, tuple(vs), rng, tol,
                                 fun2vec_key="fun2par:batch:not-columnwise" if img else "fun2vec:batch:not-columnwise")


def vec_batch_oracle(ctx, k, d, o, fun_shape, vec_shape, rng, tol=1e-11, fun2vec_key="fun2vec:batch:not-columnwise", unit=False):
    """implementation only: fun2vec / vec2fun called DIRECTLY on a matrix of columns act column-wise, and
    vec2fun(fun2vec(F)) = F (also with the function values held in a CUQIarray)"""
    from cuqi.array import CUQIarray
    aeq = lambda a, b: np.shape(a) == np.shape(b) and np.allclose(a, b, rtol=tol, atol=tol)
    for ns in (2, 3):
        F = ints(rng, tuple(fun_shape) + (ns,))
        V = call(o.fun2vec, F.copy())
        cols = [call(o.fun2vec, np.ascontiguousarray(F[..., i])) for i in range(ns)]
        if any(isinstance(c, BaseException) for c in cols):
            continue   # no vector form for single functions: nothing to demand for batches
        ref = np.stack([np.asarray(c) for c in cols], axis=-1)
        dd = {**d, "F": short(F.tolist(), 200)}
        if isinstance(V, BaseException) or not aeq(np.asarray(V), ref):
            ctx.fail(k(fun2vec_key), dd, short(ref.tolist()), short(repr(V)),
                     "fun2vec of a matrix of function-value columns is not the column-wise map (shape funvec_shape+(Ns,))")
        else:
            back = call(o.vec2fun, np.asarray(V))
            if isinstance(back, BaseException) or not aeq(np.asarray(back), F):
                ctx.fail(k("vec-roundtrip:batch"), dd, short(F.tolist()), short(repr(back)), "vec2fun(fun2vec(F)) != F for a batch")
        W = ints(rng, tuple(vec_shape) + (ns,))
        G = call(o.vec2fun, W.copy())
        gcols = [call(o.vec2fun, np.ascontiguousarray(W[..., i])) for i in range(ns)]
        if not any(isinstance(c, BaseException) for c in gcols):
            gref = np.stack([np.asarray(c) for c in gcols], axis=-1)
            if isinstance(G, BaseException) or not aeq(np.asarray(G), gref):
                ctx.fail(k("vec2fun:batch:not-columnwise"), {**d, "V": short(W.tolist(), 200)}, short(gref.tolist()), short(repr(G)),
                         "vec2fun of a matrix of vector-form columns is not the column-wise map")
    # single function held in a CUQIarray
    f1 = ints(rng, tuple(fun_shape))
    ca = call(lambda: CUQIarray(f1.copy(), is_par=False, geometry=o))
    if not isinstance(ca, BaseException):
        v1, vc = call(o.fun2vec, f1.copy()), call(o.fun2vec, ca)
        if not isinstance(v1, BaseException) and (isinstance(vc, BaseException) or not aeq(np.asarray(vc), np.asarray(v1))):
            ctx.fail(k("fun2vec:CUQIarray"), {**d, "f": short(f1.tolist())}, short(repr(v1)), short(repr(vc)), "fun2vec of a CUQIarray differs from fun2vec of its numbers")


# ----------------------------------------------------------------------------- part B: step expansion partitions
PAIRS = [(0.0, 1.0), (0.0, 0.1), (2.0, 0.7), (1.0, 0.3), (-1.0, 0.2), (0.0, 0.25), (5.0, 1.0 / 3), (0.1, 0.1), (-3.0, 1.1), (10.0, 0.01),
         (0.0, 1.0 / 7), (1e3, 0.1), (0.5, 0.05), (-0.7, 0.7), (0.0, 3.0), (2.5, 0.6), (0.0, 0.9), (1.0, 1e-3), (-10.0, 2.3), (0.3, 0.3),
         (0.0, 1.0 / 9), (7.0, 0.07), (0.2, 1.7), (100.0, 1.0), (-0.1, 0.01), (0.0, 0.6), (4.0, 0.45), (0.0, 1e2), (1.0 / 3, 1.0 / 3), (0.9, 0.11),
         # extreme scales (tolerance-based regularity test, interval ends at large offsets)
         (0.0, 1e-12), (0.0, 1e12), (1e12, 1.0), (-1e6, 1e-3), (3e-12, 7e-13)]


def part_step(ctx, cuqi, thorough):
    from cuqi.geometry import StepExpansion
    rng = np.random.RandomState(ctx.seed + 1301)
    nmax = 44 if thorough else 13
    configs = []
    for pi, (x0, h) in enumerate(PAIRS):
        for n in range(2, nmax + 1):
            grids = [("arange", x0 + h * np.arange(n))]
            if n in (3, 7, 10, nmax):
                grids.append(("linspace", np.linspace(x0, x0 + h * (n - 1), n)))
            for how, grid in grids:
                for s in range(1, n + 1):
                    configs.append((x0, h, n, s, how, grid))
    # the design's recorded witness, first
    configs.insert(0, (2.0, 0.7, 3, 3, "literal", np.array([2.0, 2.7, 3.4])))
    lines = []
    for (x0, h, n, s, how, grid) in configs:
        lines.append("stepidx " + step_spec(grid, s, "mean", step_bounds_float(grid, s)))
        lines.append("stepidx " + step_spec(grid, s, "mean"))
    outs = yield lines            # one driver call for all streams (see run)
    stats = {"configs": 0, "impl_eq_exact": 0, "exact_ne_ideal": 0, "float_fragile": 0, "last_node_unassigned": 0, "empty_step": 0,
             "boundary_node_shifted_only": 0}

    def parse_idx(tok):
        body = tok.split("=", 1)[1]
        if body == "none":
            return []
        return [[] if t == "_" else [int(v) for v in t.split(",")] for t in body.split(";")]

    for ci, (x0, h, n, s, how, grid) in enumerate(configs):
        desc = {"x0": x0, "h": h, "n": n, "n_steps": s, "grid": how}
        ctx.case("step-indices", desc)
        stats["configs"] += 1
        g = call(lambda: StepExpansion(grid, n_steps=s))
        of, oe = outs[2 * ci], outs[2 * ci + 1]
        if isinstance(g, BaseException) or of == "err":
            if not (isinstance(g, BaseException) and of == "err"):
                ctx.disagree("StepExpansion:init:accepts", desc, of[:40], repr(g)[:80], "constructor refusal differs")
                ctx.fail("StepExpansion:init:accepts", desc, "regular grid with n_steps <= #nodes accepted", repr(g)[:80])
            continue
        impl = [[int(v) for v in ix] for ix in g._indices]
        mf, me, ideal = parse_idx(of.split()[0]), parse_idx(oe.split()[0]), parse_idx(oe.split()[1])
        if me != ideal:
            stats["exact_ne_ideal"] += 1
        if impl == me:
            stats["impl_eq_exact"] += 1
        # (1) tie: membership logic given the same (float) interval ends must agree exactly
        if impl != mf:
            key = "StepExpansion:indices:membership"
            ctx.disagree(key, desc, short(mf), short(impl), "interval membership differs from the model given the code's own interval ends")
            step_oracle(ctx, key, desc, g, grid, s, impl, ideal, rng, fragile=False, force=True)
            continue
        # (2) oracle.  Input class (decided without looking at the implementation): the float interval
        # ends / float grid values make the interval rule depart from the rule on the ideal regular grid.
        fragile = mf != ideal
        if fragile:
            stats["float_fragile"] = stats.get("float_fragile", 0) + 1
        step_oracle(ctx, None, {**desc, "grid_values": short(grid.tolist(), 200)} if fragile else desc, g, grid, s, impl, ideal, rng,
                    fragile=fragile, stats=stats)
    ctx.extra_cov["step_partition_stats"] = stats


def step_oracle(ctx, key, desc, g, grid, s, impl, ideal, rng, fragile=False, force=False, stats=None):
    """implementation only: partition, no empty step, node values, round trip for the three projections.
    Failures on float-fragile inputs (see part_step) carry the `StepExpansion:float-ends:` prefix."""
    from cuqi.geometry import StepExpansion
    n = len(grid)
    k = lambda suffix: key or f"StepExpansion:{suffix}"
    counts = [sum(kk in ix for ix in impl) for kk in range(n)]
    partition = all(c == 1 for c in counts)
    nonempty = all(len(ix) > 0 for ix in impl)
    broken = fragile and not (partition and nonempty)     # the known float-ends defect explains what follows
    def bump(name):
        if stats is not None:
            stats[name] = stats.get(name, 0) + 1
    if not partition:
        missing = [kk for kk, c in enumerate(counts) if c == 0]
        if fragile and missing == [n - 1] and all(c <= 1 for c in counts):
            bump("last_node_unassigned")
            ctx.fail("StepExpansion:float-ends:last-node-unassigned", desc, "every node in exactly one step", counts,
                     "x0 + n_steps*L/n_steps < grid[-1] in floating point: the last node belongs to no step")
        else:
            ctx.fail(k("indices:not-a-partition"), desc, "every node in exactly one step", counts, "per-node contribution counts")
    if not nonempty:
        if fragile and partition:
            bump("empty_step")
            ctx.fail("StepExpansion:float-ends:empty-step", desc, short(ideal), short(impl),
                     "nodes nominally on interval ends are moved to the neighbouring step by rounding; a step is left without nodes")
        elif not fragile:
            ctx.fail(k("indices:empty-step"), desc, "no empty step", short(impl))
    if impl != ideal and not fragile:
        ctx.fail(k("indices:documented-rule"), desc, short(ideal), short(impl), "not the documented intervals")
    if impl != ideal and partition and nonempty:
        bump("boundary_node_shifted_only")
    p = ints(rng, (s,))
    f = call(g.par2fun, p)
    if isinstance(f, BaseException):
        ctx.fail(k("par2fun:single"), desc, "accepted", repr(f)); return
    # every node carries exactly the parameter of its step
    want = np.zeros(n)
    for i, ix in enumerate(impl if fragile else ideal):
        want[ix] = p[i]
    if not np.array_equal(np.asarray(f).reshape(-1), want):
        ctx.fail(k("par2fun:node-values"), {**desc, "p": p.tolist()}, want.tolist(), np.asarray(f).tolist(), "a node does not carry its step's parameter")
    for proj in ("mean", "max", "min"):
        gg = g if proj == "mean" else call(lambda: StepExpansion(grid, n_steps=s, fun2par_projection=proj))
        back = call(gg.fun2par, f)
        if isinstance(back, BaseException) or not np.array_equal(np.asarray(back).reshape(-1), p):
            kk = "StepExpansion:float-ends:roundtrip" if broken else k(f"roundtrip:{proj}")
            ctx.fail(kk, {**desc, "p": p.tolist(), "projection": proj}, p.tolist(), short(repr(back)), "fun2par(par2fun(p)) != p")


# ----------------------------------------------------------------------------- part C: KL expansion
def part_kl(ctx, cuqi, thorough):
    from cuqi.geometry import KLExpansion
    from scipy.fftpack import dst, idst
    rng = np.random.RandomState(ctx.seed + 1302)
    ctx.trusted += ["scipy.fftpack.dst/idst (leaf data of the KL model; the relation dst(idst v) = 2N v is checked numerically on every size)"]
    Ns = range(1, 17) if not thorough else range(1, 33)
    cases = []
    for N in Ns:
        modes = [None] + list(range(1, N + 1)) + [N + 2]
        if not thorough and N > 6:
            modes = [None, 1, 2, N // 2, N - 1, N, N + 2]
        for nm in modes:
            gamma = [0, 1, 2, 3, 2.5][rng.randint(5)] if nm is not None else 2.5
            tau = [1.0, 12.0, 0.5, 3.0][rng.randint(4)]
            ns = [1, 1, 2, 3, 5][rng.randint(5)]
            cases.append((N, nm, gamma, tau, ns))
    # the numerical relation assumed by the theorem
    for N in Ns:
        v = rng.randn(N, 3)
        r = dst(idst(v.T)).T
        ctx.case("kl-dst-idst-relation", {"N": N})
        if not np.allclose(r, 2 * N * v, rtol=1e-11, atol=1e-11):
            ctx.note(f"scipy dst(idst v) != 2N v at N={N}: assumption of kl_fun2par_par2fun not met")
            ctx.fail("KLExpansion:assumption:dst-idst", {"N": N}, "dst(idst v) = 2N v", "differs")
    lines, meta = [], []
    for (N, nm, gamma, tau, ns) in cases:
        grid = np.linspace(0, 1, N)
        geom = call(lambda: KLExpansion(grid, decay_rate=gamma, normalizer=tau, num_modes=nm))
        m = N if nm is None or nm > N else nm
        c = np.diag(geom.coefs) if m > 0 else np.zeros(0)
        P = ints(rng, (m,) if ns == 1 and rng.rand() < 0.5 else (m, ns))
        Fv = ints(rng, (N,) if P.ndim == 1 else (N, ns))
        D = dst(Fv.reshape(N, -1).T * 2).T
        if float(gamma).is_integer():
            lines.append(f"klcoef {int(gamma)} {N} {'-' if nm is None else nm}")
        else:
            lines.append("klcoef x x x")   # no exact model for irrational powers: coefficients are leaf data
        lines.append(f"klpre {qv(c)} {q(tau)} {N} {enc(P)}")
        lines.append(f"klpost {qv(c)} {q(tau)} {N} {enc(D)}")
        meta.append((N, nm, gamma, tau, ns, geom, m, c, P, Fv, D))
    outs = yield lines            # one driver call for all streams (see run)
    for ci, (N, nm, gamma, tau, ns, geom, m, c, P, Fv, D) in enumerate(meta):
        o_coef, o_pre, o_post = outs[3 * ci: 3 * ci + 3]
        desc = {"N": N, "num_modes": nm, "decay_rate": gamma, "normalizer": tau, "batch": list(P.shape)}
        ctx.case("kl", desc)
        key = ("KLExpansion~unit:" if m == 1 or N == 1 else "KLExpansion:") + ("single" if P.ndim == 1 else "batch")
        usuf = ""
        # shapes
        if geom.par_shape != (m,) or geom.par_dim != m or geom.fun_shape != (N,) or geom.fun_dim != N or geom.num_modes != m:
            ctx.fail("KLExpansion:shapes", desc, f"par {(m,)} fun {(N,)}", f"{geom.par_shape} {geom.fun_shape}", "reported shapes")
        # coefficients
        ref_c = 1.0 / np.arange(1, m + 1, dtype=float) ** gamma
        if o_coef != "bad-op":
            mm, cv = o_coef.split()
            mc = [float(Fraction(t)) for t in cv.split(",")] if cv != "_" else []
            if int(mm) != m or not np.allclose(mc, c, rtol=1e-14, atol=0):
                ctx.disagree("KLExpansion:coefs", desc, o_coef[:80], c.tolist(), "coefficients differ")
                if not np.allclose(c, ref_c, rtol=1e-13):
                    ctx.fail("KLExpansion:coefs", desc, ref_c.tolist(), c.tolist(), "coefficients are not 1/i^decay")
        elif not np.allclose(c, ref_c, rtol=1e-13):
            ctx.fail("KLExpansion:coefs", desc, ref_c.tolist(), c.tolist(), "coefficients are not 1/i^decay")
        # par2fun = idst(model modes)/2, squeezed
        f_impl = call(geom.par2fun, P.copy())
        pre = parse_arr(o_pre)
        if isinstance(pre, str) or isinstance(f_impl, BaseException):
            if not (isinstance(pre, str) and isinstance(f_impl, BaseException)):
                ctx.disagree(key + ":par2fun", desc, o_pre[:60], repr(f_impl)[:80], "refusal differs")
                ctx.fail(key + ":par2fun", desc, "accepted", repr(f_impl)[:80])
            continue
        modes = np.array([float(v) for v in pre[1]]).reshape(pre[0])
        f_model = (idst(modes.T).T / 2).squeeze()
        # documented formula (independent of the transforms)
        K = np.arange(N)
        cfull = np.zeros(N); cfull[:m] = c
        Pfull = np.zeros((N, P.reshape(m, -1).shape[1])); Pfull[:m] = P.reshape(m, -1)
        doc = np.zeros((N, Pfull.shape[1]))
        for i in range(N - 1):
            doc += np.outer(np.sin(np.pi / N * (i + 1) * (K + 0.5)), cfull[i] / tau * Pfull[i])
        doc += np.outer((-1.0) ** K / 2, cfull[N - 1] / tau * Pfull[N - 1])
        doc = doc.squeeze()
        f_impl = np.asarray(f_impl)
        if f_impl.shape != f_model.shape or not np.allclose(f_impl, f_model, rtol=1e-11, atol=1e-11):
            ctx.disagree(key + ":par2fun", desc, short(f_model.tolist()), short(f_impl.tolist()), "par2fun differs from idst(model modes)/2")
            if f_impl.size != doc.size or not np.allclose(f_impl.ravel(), doc.ravel(), rtol=1e-9, atol=1e-9):
                ctx.fail(key + ":par2fun", desc, short(doc.tolist()), short(f_impl.tolist()), "par2fun is not the documented sine expansion")
        elif f_impl.size != doc.size or not np.allclose(f_impl.ravel(), doc.ravel(), rtol=1e-9, atol=1e-9):
            ctx.fail(key + ":par2fun:documented", desc, short(doc.tolist()), short(f_impl.tolist()), "par2fun is not the documented sine expansion")
        want_shape = (N,) if P.ndim == 1 or P.shape[1] == 1 else (N, P.shape[1])
        if f_impl.shape != want_shape:
            ctx.fail(key + ":par2fun:shape" + usuf, desc, want_shape, f_impl.shape, "par2fun output shape")
        # fun2par on arbitrary function values: model on the leaf data dst(2 f)
        p_impl = call(geom.fun2par, Fv.copy())
        post = parse_arr(o_post)
        if isinstance(post, str) or isinstance(p_impl, BaseException):
            if not (isinstance(post, str) and isinstance(p_impl, BaseException)):
                ctx.disagree(key + ":fun2par", desc, o_post[:60], repr(p_impl)[:80], "refusal differs")
                ctx.fail(key + ":fun2par", desc, "accepted", repr(p_impl)[:80])
            continue
        p_impl = np.asarray(p_impl)
        pm_ = np.array([float(v) for v in post[1]]).reshape(post[0])
        if p_impl.shape != pm_.shape or not np.allclose(p_impl, pm_, rtol=1e-11, atol=1e-11):
            ctx.disagree(key + ":fun2par", desc, short(pm_.tolist()), short(p_impl.tolist()), "fun2par differs from the model on dst(2f)")
            kl_oracle(ctx, key + ":fun2par", desc, geom, m, N, P, Fv)
        kl_oracle(ctx, None, desc, geom, m, N, P, Fv, key0=key, usuf=usuf)


def kl_oracle(ctx, key, desc, geom, m, N, P, Fv, key0="KLExpansion", usuf=""):
    k = lambda s: key or f"{key0}:{s}"
    f = call(geom.par2fun, P.copy())
    back = call(geom.fun2par, f) if not isinstance(f, BaseException) else f
    if isinstance(back, BaseException) or np.size(back) != P.size or not np.allclose(np.ravel(back), P.ravel(), rtol=1e-9, atol=1e-9):
        ctx.fail(k("roundtrip"), {**desc, "p": short(P.tolist())}, short(P.tolist()), short(repr(back)), "fun2par(par2fun(p)) != p")
    elif np.shape(back) != P.squeeze().shape and not (P.ndim == 2 and P.shape[1] == 1 and np.shape(back) == (m,)):
        ctx.fail(k("fun2par:shape") + usuf, desc, P.shape, np.shape(back), "round trip changes the parameter shape")
    elif P.ndim == 1 and np.shape(back) != P.shape:
        ctx.fail(k("fun2par:shape") + usuf, desc, P.shape, np.shape(back), "fun2par output shape is not par_shape")
    # column-wise
    if P.ndim == 2 and not isinstance(f, BaseException):
        cols = np.stack([np.asarray(call(geom.par2fun, P[:, i].copy())).reshape(N) for i in range(P.shape[1])], axis=-1)
        if not np.allclose(np.asarray(f).reshape(N, -1), cols, rtol=1e-11, atol=1e-11):
            ctx.fail(k("par2fun:not-columnwise"), desc, short(cols.tolist()), short(np.asarray(f).tolist()), "batch is not column-wise")
        pc = call(geom.fun2par, Fv.copy())
        pcols = np.stack([np.asarray(call(geom.fun2par, Fv[:, i].copy())).reshape(m) for i in range(Fv.shape[1])], axis=-1)
        if isinstance(pc, BaseException) or not np.allclose(np.asarray(pc).reshape(m, -1), pcols, rtol=1e-11, atol=1e-11):
            ctx.fail(k("fun2par:not-columnwise"), desc, short(pcols.tolist()), short(repr(pc)), "batch is not column-wise")
    # vector-form maps directly on batches
    if N >= 2 and key is None:
        vec_batch_oracle(ctx, k, desc, geom, (N,), (N,), np.random.RandomState(1000 * N + m), 1e-11)
    # projection idempotent
    Fv1 = Fv.reshape(N, -1)[:, 0]
    a = call(geom.fun2par, Fv1.copy())
    if not isinstance(a, BaseException):
        P1 = call(geom.par2fun, np.asarray(a).reshape(m))
        b = call(geom.fun2par, P1) if not isinstance(P1, BaseException) else P1
        if isinstance(b, BaseException) or not np.allclose(np.ravel(b), np.ravel(a), rtol=1e-9, atol=1e-9):
            ctx.fail(k("projection"), desc, "fun2par∘par2fun∘fun2par = fun2par", short(repr(b)))


# ----------------------------------------------------------------------------- part D: Samples / CUQIarray chains
def part_chains(ctx, cuqi, gs, thorough):
    from cuqi.samples import Samples
    from cuqi.array import CUQIarray
    rng = np.random.RandomState(ctx.seed + 1303)
    pool = [g for g in gs if "noinverse" not in g.name]
    nchains = 1500 if thorough else 260
    lines, meta = [], []
    for c in range(nchains):
        g = pool[rng.randint(len(pool))]
        ns = int(rng.choice([1, 2, 3, 5]))
        kind = rng.choice(["par", "par", "fun", "vec"])
        if kind == "par":
            x, ip, iv = ints(rng, (g.par_dim, ns)), True, True
        elif kind == "fun":
            x, ip, iv = ints(rng, g.fun_shape + (ns,)), False, len(g.fun_shape) == 1
        else:
            x, ip, iv = ints(rng, (int(np.prod(g.fun_shape)), ns)), False, True
        ops = [str(rng.choice(["f", "v", "p"])) for _ in range(rng.randint(1, 7))]
        if c % 9 == 0:   # the canonical loop
            ops = ["f", "v", "f", "p", "f", "p"]
        lines.append(f"samples {g.spec} {int(ip)} {int(iv)} {enc(x)} {','.join(ops)}")
        meta.append(("samples", g, x, ip, iv, ops))
    for c in range(nchains // 2):
        g = pool[rng.randint(len(pool))]
        if rng.rand() < 0.6:
            x, ip = ints(rng, (g.par_dim,)), True
        else:
            x, ip = ints(rng, g.fun_shape), False
        ops = [str(rng.choice(["f", "p"])) for _ in range(rng.randint(1, 7))]
        lines.append(f"carr {g.spec} {int(ip)} {enc(x)} {','.join(ops)}")
        meta.append(("carr", g, x, ip, None, ops))
    # malformed
    g0 = pool[0]
    lines.append(f"samples {g0.spec} 1 0 {enc(ints(rng, (g0.par_dim, 2)))} f"); meta.append(("samples", g0, ints(rng, (g0.par_dim, 2)), True, False, ["f"]))
    lines.append(f"carr {g0.spec} 1 {enc(ints(rng, (g0.par_dim, 2)))} f"); meta.append(("carr", g0, ints(rng, (g0.par_dim, 2)), True, None, ["f"]))
    outs = yield lines            # one driver call for all streams (see run)

    prop = {"f": "funvals", "v": "vector", "p": "parameters"}
    for (kind, g, x, ip, iv, ops), out in zip(meta, outs):
        desc = {"container": kind, "geometry": g.spec, "is_par": ip, "is_vec": iv, "shape": list(x.shape), "ops": ",".join(ops)}
        ctx.case(f"{kind}-chain", desc)
        key = f"{'Samples' if kind == 'samples' else 'CUQIarray'}:{g.name}"
        # implementation
        states, exc = [], None
        try:
            with quiet():
                cur = Samples(x.copy(), geometry=g.obj, is_par=ip, is_vec=iv) if kind == "samples" else CUQIarray(x.copy(), is_par=ip, geometry=g.obj)
        except Exception as e:
            cur, exc = None, e
        start = cur
        if cur is not None:
            for op in ops:
                try:
                    with quiet():
                        cur = getattr(cur, prop[op])
                except Exception as e:
                    exc = e
                    break
                states.append(cur)
        def fmt(s):
            if kind == "samples":
                return (bool(s.is_par), bool(s.is_vec), canon(s.samples))
            return (bool(s.is_par), canon(np.asarray(s)))
        impl = [fmt(s) for s in states]
        # model
        mstates, merr = [], False
        if out in ("err", "bad-op"):
            merr = True
        else:
            for tok in out.split(" # "):
                if tok == "err":
                    merr = True
                    break
                t = tok.split(" ")
                mstates.append((t[0] == "1", t[1] == "1", parse_arr(t[2])) if kind == "samples" else (t[0] == "1", parse_arr(t[1])))
        ok = (merr == (exc is not None)) and len(mstates) == len(impl)
        if ok:
            for ms, im in zip(mstates, impl):
                if ms[:-1] != im[:-1] or not same(ms[-1], im[-1], g.tol):
                    ok = False
        if not ok:
            ctx.disagree(key + ":chain", desc, short(out, 300), short(impl, 300) + (" EXC " + repr(exc)[:80] if exc else ""), "conversion chain differs")
            chain_oracle(ctx, key + ":chain", desc, kind, g, start, states, exc, ops)
        else:
            chain_oracle(ctx, None, desc, kind, g, start, states, exc, ops, key0=key)


def chain_oracle(ctx, key, desc, kind, g, start, states, exc, ops, key0=""):
    """implementation only: conversions lossless and consistent with the per-sample maps"""
    k = lambda s: key or f"{key0}:{s}"
    usuf = ""
    if start is None:
        if desc["is_par"] and (desc["is_vec"] is False or (kind == "carr" and len(desc["shape"]) > 1)):
            return  # documented refusals
        ctx.fail(k("construct"), desc, "constructed", repr(exc)[:100]); return
    if exc is not None and not isinstance(exc, NotImplementedError):
        ctx.fail(k("raises") + usuf, desc, "conversion defined", repr(exc)[:120], "a conversion between representations raises")
    seq = [start] + states
    def flags(s):
        return (bool(s.is_par), bool(s.is_vec)) if kind == "samples" else (bool(s.is_par),)
    def data(s):
        return np.asarray(s.samples if kind == "samples" else s, dtype=float)
    if g.exact_inverse or flags(start)[0]:
        first = 0
    else:   # projection geometry started from function values: lossless only after the first projection
        first = next((i for i, st in enumerate(seq) if flags(st)[0]), len(seq))
    for j in range(first, len(seq)):
        for i in range(first, j):
            if flags(seq[i]) == flags(seq[j]):
                a, b = data(seq[i]), data(seq[j])
                if a.size != b.size or not np.allclose(a.ravel(), b.ravel(), rtol=1e-11, atol=1e-11):
                    ctx.fail(k("lossless"), {**desc, "states": [i, j]}, short(a.tolist()), short(b.tolist()),
                             "returning to the same representation does not return the same data")
                elif a.shape != b.shape:
                    ctx.fail(k("lossless:shape") + usuf, {**desc, "states": [i, j]}, a.shape, b.shape, "same representation, different shape")
                break
    # flags after each conversion
    for cur, op in zip(states, ops):
        want = {"f": ("is_par", False), "p": ("is_par", True), "v": ("is_vec", True)}[op]
        if kind == "carr" and op == "v":
            continue
        if bool(getattr(cur, want[0])) != want[1]:
            ctx.fail(k("flags"), {**desc, "op": op}, f"{want[0]}={want[1]}", f"{want[0]}={getattr(cur, want[0])}",
                     "representation flag after the conversion is wrong")
            break
    # consistency with the per-sample maps
    o = g.obj
    for prev, cur, op in zip(seq, seq[1:], ops):
        if prev is cur:
            continue
        a, b = data(prev), data(cur)
        if kind == "samples":
            fp, fc = flags(prev), flags(cur)
            if fp[0] and op == "f":
                conv = o.par2fun
            elif op == "p" and not fp[1]:
                conv = o.fun2par
            elif op == "p":
                conv = lambda v: o.fun2par(o.vec2fun(v))
            elif op == "v":
                conv = o.fun2vec
            else:
                conv = o.vec2fun
            for i in range(a.shape[-1]):
                ref = call(conv, a[..., i].copy())
                if isinstance(ref, BaseException) or np.size(ref) != b[..., i].size or \
                        not np.allclose(np.ravel(ref), b[..., i].ravel(), rtol=1e-11, atol=1e-11):
                    ctx.fail(k("per-sample"), {**desc, "op": op, "sample": i}, short(repr(ref)), short(b[..., i].tolist()),
                             "converted collection is not the per-sample map of each sample")
                    break
        else:
            if (op == "f") != flags(prev)[0]:
                conv = lambda v: v          # already in the requested representation
            else:
                conv = o.par2fun if op == "f" else o.fun2par
            ref = call(conv, a.copy())
            if isinstance(ref, BaseException) or np.shape(ref) != b.shape or not np.allclose(ref, b, rtol=1e-11, atol=1e-11):
                ctx.fail(k("per-sample"), {**desc, "op": op}, short(repr(ref)), short(b.tolist()), "CUQIarray conversion is not the geometry map")


# ----------------------------------------------------------------------------- part E: closed-form index maps vs general numpy F-order semantics
def part_imgchk(ctx, thorough):
    rng = np.random.RandomState(ctx.seed + 1304)
    lines, meta = [], []
    dims = [(a, b) for a in range(1, 8) for b in range(1, 10)]
    for (a, b) in dims:
        for ns in (1, 2, 3):
            x = ints(rng, (a * b,) if ns == 1 else (a * b, ns))
            lines.append(f"imgchk {a} {b} {enc(x)}")
            meta.append((a, b, ns, x))
    outs = yield lines            # one driver call for all streams (see run)
    for (a, b, ns, x), out in zip(meta, outs):
        desc = {"a": a, "b": b, "ns": ns}
        ctx.case("imgchk", desc, nontrivial=a > 1 and b > 1)
        # numpy's own answer for the same thing, to tie `reshapeFgen` to numpy as well
        img = x.reshape((a, b, -1), order="F")
        if out != "1" or not np.array_equal(img.ravel(order="F"), x.ravel(order="F")):
            ctx.disagree("model:F-order-index-maps", desc, out, "1", "closed-form F-order index maps differ from the general F-order reshape")
            ctx.note("internal inconsistency of the model's two F-order formulations (not a property failure by itself)")



# ----------------------------------------------------------------------------- part F: attribute re-assignment histories on one object
def _cmp(a, b, tol=1e-11):
    if isinstance(a, BaseException) or isinstance(b, BaseException):
        return isinstance(a, BaseException) and isinstance(b, BaseException)
    a, b = np.asarray(a, dtype=float), np.asarray(b, dtype=float)
    scale = max(1.0, float(np.nanmax(np.abs(b)))) if b.size else 1.0      # single-precision transforms: error relative to the largest entry
    return a.shape == b.shape and np.allclose(a, b, rtol=tol, atol=tol * scale, equal_nan=True)


def _shapes(o):
    out = {}
    for nm in ("par_shape", "par_dim", "fun_shape", "fun_dim"):
        r = call(lambda: getattr(o, nm))
        out[nm] = "raise" if isinstance(r, BaseException) else (tuple(r) if isinstance(r, tuple) else r)
    return out


def part_reassign(ctx, cuqi, thorough):
    """One geometry object: use it (maps, shapes — so that anything derived is cached), re-assign an
    attribute through the public interface, use it again.  Demanded: identical to a FRESH geometry
    built with the current attributes (which parts A–D tie to the model), and the round trip.  The KL
    maps are additionally compared with the model (pure function of the current attributes)."""
    from cuqi.geometry import KLExpansion, StepExpansion, Image2D, Continuous2D, Continuous1D, MappedGeometry
    from scipy.fftpack import dst, idst
    rng = np.random.RandomState(ctx.seed + 1305)
    hist = []   # (name, attr-label, make, [steps], fresh_from(obj_state)), a step = (label, action(obj), fresh())

    def kl_hist(N1, nm, gam, tau, regrids):
        steps = []
        for (N2, a, b) in regrids:
            grid = np.linspace(a, b, N2)
            steps.append(("grid", lambda o, grid=grid: setattr(o, "grid", grid),
                          lambda grid=grid: KLExpansion(grid, decay_rate=gam, normalizer=tau, num_modes=nm)))
        return ("KLExpansion", lambda: KLExpansion(np.linspace(0, 1, N1), decay_rate=gam, normalizer=tau, num_modes=nm), steps,
                {"N1": N1, "num_modes": nm, "decay_rate": gam, "normalizer": tau, "regrids": [r[0] for r in regrids]})

    for (N1, nm, regr) in [(8, 3, [(10, 0, 1)]), (8, 3, [(5, 1, 3), (12, 0, 1)]), (8, None, [(10, 0, 1)]), (8, None, [(5, 0, 2), (8, 0, 1)]),
                           (6, 9, [(12, 0, 1)]), (6, 9, [(8, 0, 1), (12, -1, 1)]), (10, 4, [(4, 0, 1)]), (10, 4, [(16, 0, 1), (10, 0, 1)]),
                           (7, 7, [(9, 0, 1)]), (12, 2, [(6, 0, 1), (7, 2, 3)])] + \
                          ([(int(rng.randint(2, 17)), [None, 2, 3, 5][rng.randint(4)], [(int(rng.randint(2, 17)), 0, 1), (int(rng.randint(2, 17)), 0, 2)])
                            for _ in range(30 if thorough else 6)]):
        hist.append(kl_hist(N1, nm, [2.5, 1, 2][rng.randint(3)], [12.0, 1.0, 0.5][rng.randint(3)], regr))
    # attributes without a public setter: a refusal is fine; if accepted the fresh geometry takes the new value
    for attr, val, kw in [("num_modes", 2, "num_modes"), ("decay_rate", 1.0, "decay_rate"), ("normalizer", 2.0, "normalizer")]:
        base = dict(decay_rate=2.5, normalizer=12.0, num_modes=4)
        new = dict(base); new[kw] = val
        hist.append(("KLExpansion", lambda base=base: KLExpansion(np.linspace(0, 1, 8), **base),
                     [(attr, lambda o, attr=attr, val=val: setattr(o, attr, val), lambda new=new: KLExpansion(np.linspace(0, 1, 8), **new))],
                     {"attr": attr, "value": val}))
    for (g1, g2, st) in [(np.arange(6.0), np.arange(9.0), 3), (np.arange(6.0), 2 + 0.5 * np.arange(6.0), 3), (np.arange(8.0), np.arange(4.0), 4),
                         (0.5 * np.arange(9.0), np.arange(12.0), 4)]:
        for proj in ("mean", "max"):
            hist.append(("StepExpansion", lambda g1=g1, st=st, proj=proj: StepExpansion(g1, n_steps=st, fun2par_projection=proj),
                         [("grid", lambda o, g2=g2: setattr(o, "grid", g2), lambda g2=g2, st=st, proj=proj: StepExpansion(g2, n_steps=st, fun2par_projection=proj))],
                         {"grid1": g1.tolist(), "grid2": g2.tolist(), "n_steps": st, "projection": proj}))
    hist.append(("StepExpansion", lambda: StepExpansion(np.arange(6.0), n_steps=3),
                 [("n_steps", lambda o: setattr(o, "n_steps", 2), lambda: StepExpansion(np.arange(6.0), n_steps=2))], {"attr": "n_steps"}))
    for (a, b) in [(2, 3), (3, 4), (4, 2)]:
        for o1, o2 in (("C", "F"), ("F", "C")):
            hist.append(("Image2D", lambda a=a, b=b, o1=o1: Image2D((a, b), order=o1),
                         [("order", lambda o, o2=o2: setattr(o, "order", o2), lambda a=a, b=b, o2=o2: Image2D((a, b), order=o2)),
                          ("order", lambda o, o1=o1: setattr(o, "order", o1), lambda a=a, b=b, o1=o1: Image2D((a, b), order=o1))],
                         {"im_shape": [a, b], "orders": [o1, o2, o1]}))
    for (sh1, sh2) in [((2, 3), (3, 2)), ((2, 3), (3, 3)), ((4, 2), (2, 2))]:
        hist.append(("Continuous2D", lambda sh1=sh1: Continuous2D(sh1),
                     [("grid", lambda o, sh2=sh2: setattr(o, "grid", sh2), lambda sh2=sh2: Continuous2D(sh2))], {"grid1": sh1, "grid2": sh2}))
        hist.append(("Mapped(Continuous2D)", lambda sh1=sh1: MappedGeometry(Continuous2D(sh1), map=lambda x: 2 * x + 1, imap=lambda y: (y - 1) / 2),
                     [("inner-grid", lambda o, sh2=sh2: setattr(o.geometry, "grid", sh2),
                       lambda sh2=sh2: MappedGeometry(Continuous2D(sh2), map=lambda x: 2 * x + 1, imap=lambda y: (y - 1) / 2))], {"grid1": sh1, "grid2": sh2}))
    hist.append(("Continuous1D", lambda: Continuous1D(5), [("grid", lambda o: setattr(o, "grid", 7), lambda: Continuous1D(7))], {}))
    maps = {"affine": (lambda x: 2 * x + 1, lambda y: (y - 1) / 2), "shift": (lambda x: x + 3, lambda y: y - 3),
            "cube": (lambda x: x ** 3, np.cbrt), "exp": (np.exp, np.log)}
    for inner_name, mk_inner in [("StepExpansion", lambda: StepExpansion(np.arange(6.0), n_steps=3, fun2par_projection="max")),
                                 ("KLExpansion", lambda: KLExpansion(np.linspace(0, 1, 8), num_modes=3)),
                                 ("Image2D", lambda: Image2D((2, 3), order="F"))]:
        for m1, m2 in [("affine", "shift"), ("exp", "cube"), ("shift", "exp")]:
            def act(o, m2=m2):
                o.map, o.imap = maps[m2]
            hist.append((f"Mapped({inner_name})", lambda mk_inner=mk_inner, m1=m1: MappedGeometry(mk_inner(), map=maps[m1][0], imap=maps[m1][1]),
                         [("map/imap", act, lambda mk_inner=mk_inner, m2=m2: MappedGeometry(mk_inner(), map=maps[m2][0], imap=maps[m2][1]))],
                         {"maps": [m1, m2]}))

    kl_lines, kl_meta = [], []
    for (name, make, steps, info) in hist:
        with quiet():
            o = make()
        def use(o):
            pd, fs = call(lambda: o.par_dim), call(lambda: o.fun_shape)
            if isinstance(pd, BaseException) or isinstance(fs, BaseException) or pd is None:
                return
            for shp_p, shp_f in (((pd,), tuple(fs)), ((pd, 2), tuple(fs) + (2,))):
                call(o.par2fun, 0.25 * ints(rng, shp_p, 1, 8)); call(o.fun2par, 0.25 * ints(rng, shp_f, 1, 8))
            call(lambda: o.funvec_shape)
        use(o)
        for si, (attr, action, fresh_mk) in enumerate(steps):
            desc = {"geometry": name, "history": info, "step": si, "reassigned": attr}
            ctx.case("reassign", desc)
            r = call(action, o)
            if isinstance(r, AttributeError):
                ctx.case("reassign-refused", desc, nontrivial=False)
                break
            key = f"{name}:reassign:{attr}"
            if isinstance(r, BaseException):
                ctx.fail(key + ":raises", desc, "attribute re-assigned or AttributeError", repr(r)[:100]); break
            fresh = call(fresh_mk)
            if isinstance(fresh, BaseException):
                break
            so, sf = _shapes(o), _shapes(fresh)
            if so != sf:
                ctx.fail(key + ":shapes", {**desc, "fresh": str(sf)}, str(sf), str(so), "shapes reported after the re-assignment are not those of a fresh geometry with the same attributes")
            pd, fs = sf["par_dim"], sf["fun_shape"]
            for ns in (None, 2):
                P = 0.25 * ints(rng, (pd,) if ns is None else (pd, ns), 1, 8)
                F = 0.25 * ints(rng, tuple(fs) if ns is None else tuple(fs) + (ns,), 1, 8)
                a, b = call(o.par2fun, P.copy()), call(fresh.par2fun, P.copy())
                if not _cmp(a, b):
                    ctx.fail(key + ":par2fun", {**desc, "p": short(P.tolist())}, short(repr(b)), short(repr(a)), "par2fun after re-assignment differs from a fresh geometry")
                a2, b2 = call(o.fun2par, F.copy()), call(fresh.fun2par, F.copy())
                if not _cmp(a2, b2):
                    ctx.fail(key + ":fun2par", {**desc, "f": short(F.tolist())}, short(repr(b2)), short(repr(a2)), "fun2par after re-assignment differs from a fresh geometry")
                if not isinstance(a, BaseException) and not (ns is not None and "Image2D" in name):   # Image2D batch fun2par: listed finding
                    back = call(o.fun2par, a)
                    if isinstance(back, BaseException) or np.size(back) != P.size or not np.allclose(np.ravel(back), P.ravel(), rtol=1e-9, atol=1e-9):
                        ctx.fail(key + ":roundtrip", {**desc, "p": short(P.tolist())}, short(P.tolist()), short(repr(back)), "fun2par(par2fun(p)) != p after re-assignment")
                # model (KL): pure function of the current attributes
                if name == "KLExpansion" and not isinstance(a2, BaseException):
                    N, m = int(fs[0]), int(pd)
                    c = 1.0 / np.arange(1, m + 1, dtype=float) ** fresh.decay_rate
                    D = dst(F.reshape(N, -1).T * 2).T
                    kl_lines.append(f"klpost {qv(c)} {q(fresh.normalizer)} {N} {enc(D)}")
                    kl_lines.append(f"klpre {qv(c)} {q(fresh.normalizer)} {N} {enc(P)}")
                    kl_meta.append((key, desc, a2, a, F, P))
            use(o)
    outs = yield kl_lines         # one driver call for all streams (see run)
    for i, (key, desc, p_impl, f_impl, F, P) in enumerate(kl_meta):
        post, pre = parse_arr(outs[2 * i]), parse_arr(outs[2 * i + 1])
        ctx.case("reassign-kl-model", desc)
        if isinstance(post, str) or isinstance(pre, str):
            ctx.disagree(key + ":fun2par", desc, outs[2 * i][:60], short(repr(p_impl)), "model refuses"); continue
        pm_ = np.array([float(v) for v in post[1]]).reshape(post[0])
        if np.shape(p_impl) != pm_.shape or not np.allclose(p_impl, pm_, rtol=1e-10, atol=1e-10):
            ctx.disagree(key + ":fun2par", {**desc, "f": short(F.tolist())}, short(pm_.tolist()), short(np.asarray(p_impl).tolist()),
                         "fun2par after re-assignment differs from the model evaluated at the current attributes")
        if not isinstance(f_impl, BaseException):
            modes = np.array([float(v) for v in pre[1]]).reshape(pre[0])
            fm = (idst(modes.T).T / 2).squeeze()
            if np.shape(f_impl) != fm.shape or not np.allclose(f_impl, fm, rtol=1e-10, atol=1e-10):
                ctx.disagree(key + ":par2fun", {**desc, "p": short(P.tolist())}, short(fm.tolist()), short(np.asarray(f_impl).tolist()),
                             "par2fun after re-assignment differs from the model evaluated at the current attributes")


# ----------------------------------------------------------------------------- part G: mapped geometries around expansions, non-commuting maps
def part_mapped(ctx, cuqi, thorough):
    """MappedGeometry(inner, map, imap) with maps that do not commute with inner.fun2par.  Model side:
    the inner model map on imap(f) (fun2par) / map applied to the inner model's par2fun (map, imap are
    leaf functions evaluated by the harness; KL transforms leaf data as in part C)."""
    from cuqi.geometry import KLExpansion, StepExpansion, Image2D, Continuous2D, MappedGeometry
    from cuqi.samples import Samples
    from cuqi.array import CUQIarray
    from scipy.fftpack import dst, idst
    rng = np.random.RandomState(ctx.seed + 1306)
    maps = {"exp": (np.exp, np.log), "shift": (lambda x: x + 3.0, lambda y: y - 3.0), "affine": (lambda x: 2.0 * x + 1.0, lambda y: (y - 1.0) / 2.0),
            "negaffine": (lambda x: -2.0 * x + 1.0, lambda y: (y - 1.0) / -2.0), "cube": (lambda x: x ** 3, np.cbrt)}
    inners = []
    for N, nm in [(8, None), (8, 3), (12, 5), (6, 2)] + ([(16, 7), (9, 4)] if thorough else []):
        tau, gam = 2.0, 1
        inners.append((f"KLExpansion", {"N": N, "num_modes": nm}, lambda N=N, nm=nm: KLExpansion(np.linspace(0, 1, N), decay_rate=gam, normalizer=tau, num_modes=nm),
                       ("kl", N, (N if nm is None else nm), tau, gam)))
    for (x0, h, n, st) in [(0.0, 1.0, 6, 3), (0.0, 0.5, 9, 4), (-1.0, 1.0, 8, 2)]:
        grid = x0 + h * np.arange(n)
        for proj in ("mean", "max", "min"):
            inners.append(("StepExpansion", {"n": n, "n_steps": st, "projection": proj},
                           lambda grid=grid, st=st, proj=proj: StepExpansion(grid, n_steps=st, fun2par_projection=proj), ("spec", step_spec(grid, st, proj), st, (n,))))
    inners.append(("Continuous2D", {"grid": [2, 3]}, lambda: Continuous2D((2, 3)), ("spec", "cont2d:2:3", 6, (2, 3))))
    for o in ("C", "F"):
        inners.append(("Image2D", {"im_shape": [3, 2], "order": o}, lambda o=o: Image2D((3, 2), order=o), ("spec", f"image:3:2:{o}:0", 6, (3, 2))))

    lines, meta = [], []
    for (iname, iinfo, mk, mdl) in inners:
        for mname, (fm, fi) in maps.items():
            for ns in (None, 2, 3):
                with quiet():
                    inner, m = mk(), MappedGeometry(mk(), map=fm, imap=fi)
                pd = mdl[2]
                fs = (mdl[1],) if mdl[0] == "kl" else mdl[3]
                P = 0.25 * ints(rng, (pd,) if ns is None else (pd, ns), -6, 6)
                F = fm(0.25 * ints(rng, fs if ns is None else fs + (ns,), -6, 6))   # in the range of map (domain of imap)
                G_ = fi(F)
                if mdl[0] == "kl":
                    _, N, mm, tau, gam = mdl
                    c = 1.0 / np.arange(1, mm + 1, dtype=float) ** gam
                    lines.append(f"klpre {qv(c)} {q(tau)} {N} {enc(P)}")
                    lines.append(f"klpost {qv(c)} {q(tau)} {N} {enc(dst(G_.reshape(N, -1).T * 2).T)}")
                else:
                    lines.append(f"map {mdl[1]} par2fun {enc(P)}")
                    lines.append(f"map {mdl[1]} fun2par {enc(G_)}")
                meta.append((iname, iinfo, mname, fm, fi, ns, inner, m, P, F, mdl))
    outs = yield lines            # one driver call for all streams (see run)
    tol = 1e-10
    for i, (iname, iinfo, mname, fm, fi, ns, inner, m, P, F, mdl) in enumerate(meta):
        desc = {"inner": iname, **iinfo, "map": mname, "batch": ns}
        ctx.case("mapped-expansion", desc)
        key = f"Mapped({iname}):{mname}"
        o_p2f, o_f2p = parse_arr(outs[2 * i]), parse_arr(outs[2 * i + 1])
        f_impl, p_impl = call(m.par2fun, P.copy()), call(m.fun2par, F.copy())
        bad = False
        # tie
        if isinstance(o_p2f, str) or isinstance(f_impl, BaseException):
            if not (isinstance(o_p2f, str) and isinstance(f_impl, BaseException)):
                ctx.disagree(key + ":par2fun", desc, outs[2 * i][:60], short(repr(f_impl)), "refusal differs"); bad = True
        else:
            arr = np.array([float(v) for v in o_p2f[1]]).reshape(o_p2f[0])
            if mdl[0] == "kl":
                arr = (idst(arr.T).T / 2).squeeze()
            want = fm(arr)
            if np.shape(f_impl) != want.shape or not np.allclose(f_impl, want, rtol=tol, atol=tol):
                ctx.disagree(key + ":par2fun", {**desc, "p": short(P.tolist())}, short(want.tolist()), short(np.asarray(f_impl).tolist()),
                             "mapped par2fun is not map(model inner par2fun)"); bad = True
        if isinstance(o_f2p, str) or isinstance(p_impl, BaseException):
            if not (isinstance(o_f2p, str) and isinstance(p_impl, BaseException)):
                ctx.disagree(key + ":fun2par", desc, outs[2 * i + 1][:60], short(repr(p_impl)), "refusal differs"); bad = True
        else:
            want = np.array([float(v) for v in o_f2p[1]]).reshape(o_f2p[0])
            if np.shape(p_impl) != want.shape or not np.allclose(p_impl, want, rtol=tol, atol=tol):
                ctx.disagree(key + ":fun2par", {**desc, "f": short(F.tolist())}, short(want.tolist()), short(np.asarray(p_impl).tolist()),
                             "mapped fun2par is not the model inner fun2par of imap(f)"); bad = True
        # oracle (implementation only)
        w1 = call(lambda: fm(inner.par2fun(P.copy())))
        if not _cmp(f_impl, w1, tol):
            ctx.fail(key + ":par2fun", {**desc, "p": short(P.tolist())}, short(repr(w1)), short(repr(f_impl)), "par2fun(p) is not map(geometry.par2fun(p))")
        w2 = call(lambda: inner.fun2par(fi(F.copy())))
        if not _cmp(p_impl, w2, tol):
            ctx.fail(key + ":fun2par", {**desc, "f": short(F.tolist())}, short(repr(w2)), short(repr(p_impl)), "fun2par(f) is not geometry.fun2par(imap(f))")
        if not isinstance(f_impl, BaseException):
            back = call(m.fun2par, f_impl)
            if iname == "Image2D" and ns is not None:
                pass   # Image2D.fun2par flattens batches: listed finding `*Image2D*:fun2par:batch:not-columnwise` (part A)
            elif isinstance(back, BaseException) or np.shape(back) != P.shape or not np.allclose(back, P, rtol=1e-8, atol=1e-8):
                ctx.fail(key + ":roundtrip", {**desc, "p": short(P.tolist())}, short(P.tolist()), short(repr(back)), "fun2par(par2fun(p)) != p")
            if ns is not None:
                cols = np.stack([np.asarray(call(m.par2fun, P[:, j].copy())) for j in range(ns)], axis=-1)
                if not _cmp(f_impl, cols, tol):
                    ctx.fail(key + ":par2fun:not-columnwise", desc, short(cols.tolist()), short(np.asarray(f_impl).tolist()))
                if iname != "Image2D" and not isinstance(p_impl, BaseException):
                    pc = np.stack([np.asarray(call(m.fun2par, F[..., j].copy())) for j in range(ns)], axis=-1)
                    if not _cmp(p_impl, pc, tol):
                        ctx.fail(key + ":fun2par:not-columnwise", desc, short(pc.tolist()), short(np.asarray(p_impl).tolist()))
        if ns == 2 and iname != "Image2D":
            vs_, fs_ = call(lambda: m.funvec_shape), call(lambda: m.fun_shape)
            if not isinstance(vs_, BaseException) and not isinstance(fs_, BaseException):
                vec_batch_oracle(ctx, lambda sfx: key + ":" + sfx, desc, m, tuple(fs_), tuple(vs_), np.random.RandomState(ctx.seed + 77), 1e-9)
        # containers
        if ns is not None:
            S = call(lambda: Samples(P.copy(), geometry=m))
            fS = call(lambda: S.funvals)
            if isinstance(fS, BaseException):
                ctx.fail(key + ":Samples:raises", desc, "funvals defined", repr(fS)[:100])
            else:
                for j in range(ns):
                    if not _cmp(fS.samples[..., j], call(m.par2fun, P[:, j].copy()), tol):
                        ctx.fail(key + ":Samples:per-sample", {**desc, "sample": j}, "funvals[..., j] = par2fun(sample j)", "differs"); break
                pS = call(lambda: fS.parameters)
                if isinstance(pS, BaseException) or not _cmp(pS.samples, P, 1e-8):
                    ctx.fail(key + ":Samples:lossless", desc, short(P.tolist()), short(repr(pS if isinstance(pS, BaseException) else pS.samples.tolist())),
                             "parameters -> funvals -> parameters is not lossless")
            is_vec = F.ndim == 2
            SF = call(lambda: Samples(F.copy(), geometry=m, is_par=False, is_vec=is_vec).parameters)
            if isinstance(SF, BaseException):
                ctx.fail(key + ":Samples:raises", desc, "parameters defined", repr(SF)[:100])
            else:
                for j in range(ns):
                    if not _cmp(SF.samples[:, j], call(lambda: inner.fun2par(fi(F[..., j].copy()))), tol):
                        ctx.fail(key + ":Samples:per-sample", {**desc, "sample": j}, "parameters[:, j] = geometry.fun2par(imap(f_j))", "differs"); break
        else:
            C = call(lambda: CUQIarray(P.copy(), geometry=m))
            back = call(lambda: np.asarray(C.funvals.parameters))
            if isinstance(back, BaseException) or not _cmp(back, P, 1e-8):
                ctx.fail(key + ":CUQIarray:lossless", desc, short(P.tolist()), short(repr(back)), "CUQIarray parameters -> funvals -> parameters")
            CF = call(lambda: np.asarray(CUQIarray(F.copy(), is_par=False, geometry=m).parameters))
            if not _cmp(CF, w2, tol):
                ctx.fail(key + ":CUQIarray:per-sample", desc, short(repr(w2)), short(repr(CF)), "CUQIarray.parameters is not geometry.fun2par(imap(f))")



# ----------------------------------------------------------------------------- part H: scipy's dst/idst ARE the sums of Props/C13_dst.lean
def part_scipy_dst(ctx, cuqi, thorough):
    """`dstII N x k = 2 Σ_{n<N} x n sin(π(k+1)(2n+1)/(2N))`,
    `idstII N v n = (-1)^n v(N-1) + 2 Σ_{j<N-1} v j sin(π(2n+1)(j+1)/(2N))` — the transforms the DST inversion
    theorem is about — against scipy.fftpack.dst/idst (defaults type=2, norm=None), and KLExpansion calling
    exactly those with the defaults."""
    import scipy.fftpack
    import cuqi.geometry._geometry as gm
    from cuqi.geometry import KLExpansion
    rng = np.random.RandomState(ctx.seed + 1307)
    key = "tie:scipy-dst:definition"
    for N in range(1, (64 if thorough else 16) + 1):
        n = np.arange(N)
        Sd = 2.0 * np.sin(np.pi * np.outer(n + 1, 2 * n + 1) / (2 * N))                  # [k, n]
        Si = 2.0 * np.sin(np.pi * np.outer(2 * n + 1, n[:N - 1] + 1) / (2 * N))          # [n, j], j < N-1
        vecs = [rng.randn(N), ints(rng, (N,)), 1e3 * rng.rand(N)] + [np.eye(N)[i] for i in sorted({0, N // 2, N - 1})]
        for x in vecs:
            ctx.case("scipy-dst-definition", {"N": N, "x": short(x.tolist(), 80)}, nontrivial=N > 1)
            tol = 1e-11 * N * max(1.0, float(np.abs(x).max()))
            d_ref = Sd @ x
            i_ref = (-1.0) ** n * x[N - 1] + Si @ x[:N - 1]
            d, iv = scipy.fftpack.dst(x), scipy.fftpack.idst(x)
            if d.shape != d_ref.shape or np.abs(d - d_ref).max() > tol:
                ctx.disagree(key, {"N": N, "transform": "dst", "x": x.tolist()}, short(d_ref.tolist()), short(d.tolist()),
                             "scipy.fftpack.dst is not the sum dstII of Props/C13_dst.lean: the inversion theorem no longer speaks about the transform the code calls")
            if iv.shape != i_ref.shape or np.abs(iv - i_ref).max() > tol:
                ctx.disagree(key, {"N": N, "transform": "idst", "x": x.tolist()}, short(i_ref.tolist()), short(iv.tolist()),
                             "scipy.fftpack.idst is not the sum idstII of Props/C13_dst.lean")
    # KLExpansion calls exactly these functions, with the default type / norm / axis
    ckey = "tie:scipy-dst:call"
    if gm.dst is not scipy.fftpack.dst or gm.idst is not scipy.fftpack.idst:
        ctx.disagree(ckey, {"what": "names"}, "scipy.fftpack.dst/idst", f"{gm.dst!r} / {gm.idst!r}", "cuqi.geometry._geometry.dst/idst are not scipy.fftpack's")
    rec = []
    orig = (gm.dst, gm.idst)
    def wrap(name, f):
        def w(*a, **kw):
            rec.append((name, len(a), dict(kw), np.shape(a[0]) if a else None))
            return f(*a, **kw)
        return w
    cfgs = [(8, 3, None), (8, None, 2), (5, 5, 3), (1, None, None), (12, 1, 4)]
    try:
        gm.dst, gm.idst = wrap("dst", orig[0]), wrap("idst", orig[1])
        for (N, nm, ns) in cfgs:
            with quiet():
                g = KLExpansion(np.linspace(0, 1, N), num_modes=nm)
            m = g.par_dim
            P = ints(rng, (m,) if ns is None else (m, ns))
            F = ints(rng, (N,) if ns is None else (N, ns))
            before = len(rec)
            call(g.par2fun, P); call(g.fun2par, F)
            calls = rec[before:]
            desc = {"N": N, "num_modes": nm, "batch": ns, "calls": [(c[0], c[1], {k: str(v) for k, v in c[2].items()}, c[3]) for c in calls]}
            ctx.case("scipy-dst-call", desc)
            ok = [c[0] for c in calls] == ["idst", "dst"]
            for (name, npos, kw, shp) in calls:
                defaults = {"type": 2, "n": None, "axis": -1, "norm": None}
                if npos != 1 or any(k not in defaults and k != "overwrite_x" for k in kw) or any(kw.get(k, v) != v for k, v in defaults.items()):
                    ok = False
                if shp is None or len(shp) != 2 or shp[-1] != N:      # transform along the last axis of (ns, N)
                    ok = False
            if not ok:
                ctx.disagree(ckey, desc, "par2fun: one idst(x), fun2par: one dst(x); x of shape (ns, N); type=2, norm=None, axis=-1, n=None", str(desc["calls"]),
                             "KLExpansion does not call scipy.fftpack.dst/idst with the defaults the theorem assumes")
    finally:
        gm.dst, gm.idst = orig



# ----------------------------------------------------------------------------- part I: dtypes of the underlying arrays
def _dt_geoms():
    from cuqi.geometry import KLExpansion, StepExpansion, Image2D, Continuous2D, MappedGeometry
    grid = np.arange(6.0)
    # user maps written dtype-robustly (np.exp of a uint8/bool array would be computed in float16 by numpy itself)
    fexp = lambda x: np.exp(np.asarray(x, dtype=float))
    flog = lambda y: np.log(np.asarray(y, dtype=float))
    return [
        ("KLExpansion", None, lambda: KLExpansion(np.linspace(0, 1, 8), num_modes=3), 3, (8,), True),
        ("StepExpansion", step_spec(grid, 3, "mean"), lambda: StepExpansion(grid, n_steps=3), 3, (6,), True),
        ("Image2D", "image:2:3:F:0", lambda: Image2D((2, 3), order="F"), 6, (2, 3), True),
        ("Continuous2D", "cont2d:2:3", lambda: Continuous2D((2, 3)), 6, (2, 3), False),
        ("Mapped(Image2D)/3", None, lambda: MappedGeometry(Image2D((2, 3)), map=lambda x: x / 3, imap=lambda y: 3 * y), 6, (2, 3), True),
        ("Mapped(StepExpansion)exp", None, lambda: MappedGeometry(StepExpansion(grid, n_steps=3), map=fexp, imap=flog), 3, (6,), True),
        ("Mapped(KLExpansion)/3", None, lambda: MappedGeometry(KLExpansion(np.linspace(0, 1, 8), num_modes=4), map=lambda x: x / 3, imap=lambda y: 3 * y), 4, (8,), True),
        ("Mapped(Continuous2D)exp", None, lambda: MappedGeometry(Continuous2D((3, 2)), map=fexp, imap=flog), 6, (3, 2), False),
    ]


def part_dtypes(ctx, cuqi, thorough):
    """Samples / CUQIarray / direct batches whose arrays are int64, int32, uint8, bool, float32: every
    conversion must equal the per-sample geometry map computed in float64 (nothing truncated to the
    input's dtype), and the round trips must hold.  Model (pure, exact): the same chains on the values."""
    from cuqi.samples import Samples
    from cuqi.array import CUQIarray
    rng = np.random.RandomState(ctx.seed + 1308)
    dts = [np.int64, np.int32, np.uint8, np.bool_, np.float32]
    lines, lmeta = [], []
    for (name, spec, mk, pd, fs, has_vec) in _dt_geoms():
        with quiet():
            g = mk()
        positive = "exp" in name          # function values must be in the range of map
        for dt in dts:
            tol = 1e-5 if dt is np.float32 else 1e-11
            lo, hi = (0, 1) if dt is np.bool_ else ((1, 9) if (dt is np.uint8 or positive) else (-9, 9))
            for ns in (1, 3):
                P = rng.randint(lo, hi + 1, size=(pd, ns)).astype(dt)
                F = rng.randint(max(lo, 1) if positive else lo, hi + 1, size=fs + (ns,)).astype(dt)
                if dt is np.float32:
                    P, F = (P * np.float32(0.25)).astype(dt), (F * np.float32(0.25) + (np.float32(0.25) if positive else 0)).astype(dt)
                P64, F64 = P.astype(np.float64), F.astype(np.float64)
                desc = {"geometry": name, "dtype": np.dtype(dt).name, "ns": ns}
                ctx.case("dtype", desc)
                key = f"dtype:{name}:{np.dtype(dt).name}"
                refF = [call(g.par2fun, P64[:, i].copy()) for i in range(ns)]
                refP = [call(g.fun2par, F64[..., i].copy()) for i in range(ns)]
                # Samples from parameters
                S = call(lambda: Samples(P.copy(), geometry=g))
                fS = call(lambda: S.funvals)
                if isinstance(fS, BaseException):
                    ctx.fail(key + ":Samples:funvals", desc, "defined", repr(fS)[:100])
                else:
                    for i in range(ns):
                        if not _cmp(fS.samples[..., i], refF[i], tol):
                            ctx.fail(key + ":Samples:funvals", {**desc, "sample": i, "p": P[:, i].tolist()}, short(repr(refF[i])), short(fS.samples[..., i].tolist()),
                                     "funvals of the collection is not the float64 per-sample par2fun (truncated to the input dtype?)"); break
                    back = call(lambda: fS.parameters)
                    if isinstance(back, BaseException) or not _cmp(back.samples, P64, max(tol, 1e-8)):
                        ctx.fail(key + ":Samples:roundtrip", {**desc, "P": short(P.tolist())}, short(P64.tolist()),
                                 short(repr(back if isinstance(back, BaseException) else back.samples.tolist())), "parameters -> funvals -> parameters")
                    if has_vec:
                        vS = call(lambda: fS.vector)
                        v2 = call(lambda: vS.funvals) if not isinstance(vS, BaseException) else vS
                        if isinstance(v2, BaseException) or not _cmp(v2.samples, fS.samples, tol):
                            ctx.fail(key + ":Samples:vector", desc, "funvals.vector.funvals == funvals", short(repr(v2)))
                # Samples from function values
                is_vec = len(fs) == 1
                pS = call(lambda: Samples(F.copy(), geometry=g, is_par=False, is_vec=is_vec).parameters)
                if isinstance(pS, BaseException):
                    ctx.fail(key + ":Samples:parameters", desc, "defined", repr(pS)[:100])
                else:
                    for i in range(ns):
                        if not _cmp(np.asarray(pS.samples[:, i]), np.asarray(refP[i]).reshape(-1), tol):
                            ctx.fail(key + ":Samples:parameters", {**desc, "sample": i, "f": short(F[..., i].tolist())}, short(repr(refP[i])), short(pS.samples[:, i].tolist()),
                                     "parameters of the collection is not the float64 per-sample fun2par"); break
                # CUQIarray
                c = call(lambda: CUQIarray(P[:, 0].copy(), geometry=g))
                cf = call(lambda: c.funvals)
                if isinstance(cf, BaseException) or not _cmp(np.asarray(cf), refF[0], tol):
                    ctx.fail(key + ":CUQIarray:funvals", {**desc, "p": P[:, 0].tolist()}, short(repr(refF[0])), short(repr(cf)), "CUQIarray.funvals is not the float64 par2fun")
                else:
                    cb = call(lambda: np.asarray(cf.parameters))
                    if isinstance(cb, BaseException) or not _cmp(cb, P64[:, 0], max(tol, 1e-8)):
                        ctx.fail(key + ":CUQIarray:roundtrip", desc, P64[:, 0].tolist(), short(repr(cb)), "parameters -> funvals -> parameters")
                cp = call(lambda: np.asarray(CUQIarray(F[..., 0].copy(), is_par=False, geometry=g).parameters))
                if not _cmp(cp, refP[0], tol):
                    ctx.fail(key + ":CUQIarray:parameters", {**desc, "f": short(F[..., 0].tolist())}, short(repr(refP[0])), short(repr(cp)), "CUQIarray.parameters is not the float64 fun2par")
                # batches passed directly
                if ns > 1:
                    a, b = call(g.par2fun, P.copy()), call(g.par2fun, P64.copy())
                    if not _cmp(a, b, tol):
                        ctx.fail(key + ":par2fun:batch", desc, short(repr(b)), short(repr(a)), "par2fun of a non-float64 batch differs from the float64 batch")
                    a, b = call(g.fun2par, F.copy()), call(g.fun2par, F64.copy())
                    if not _cmp(a, b, tol):
                        ctx.fail(key + ":fun2par:batch", desc, short(repr(b)), short(repr(a)), "fun2par of a non-float64 batch differs from the float64 batch")
                # model tie (exact model on the values; only for model-expressible geometries)
                if spec is not None:
                    lines.append(f"samples {spec} 1 1 {enc(P64)} f,p"); lmeta.append((key, desc, "par", S, P))
                    lines.append(f"samples {spec} 0 {int(is_vec)} {enc(F64)} p"); lmeta.append((key, desc, "fun", None, F))
    outs = yield lines            # one driver call for all streams (see run)
    for (key, desc, kind, S, X), out in zip(lmeta, outs):
        ctx.case("dtype-model", desc)
        toks = out.split(" # ")
        g = S.geometry if S is not None else None
        if kind == "par":
            st = call(lambda: [S.funvals, S.funvals.parameters])
        else:
            name = desc["geometry"]
            gg = [x for x in _dt_geoms() if x[0] == name][0]
            with quiet():
                geom = gg[2]()
            st = call(lambda: [Samples(X.copy(), geometry=geom, is_par=False, is_vec=len(gg[4]) == 1).parameters])
        if isinstance(st, BaseException) or "err" in toks:
            if not (isinstance(st, BaseException) and "err" in toks):
                ctx.disagree(key + ":model", desc, short(out), short(repr(st)), "refusal differs"); ctx.fail(key + ":model", desc, "defined", short(repr(st)))
            continue
        for tok, sm in zip(toks, st):
            t = tok.split(" ")
            if not same(parse_arr(t[2]), canon(sm.samples), 1e-11) or (t[0] == "1") != bool(sm.is_par):
                ctx.disagree(key + ":model", {**desc, "data": short(X.tolist())}, short(tok), short(canon(sm.samples)), "conversion of a non-float64 collection differs from the model on the same values")
                ctx.fail(key + ":model", {**desc, "data": short(X.tolist())}, short(tok), short(canon(sm.samples)), "conversion of a non-float64 collection is not the exact per-sample map of its values")
                break


# ----------------------------------------------------------------------------- part J: in-place histories on one CUQIarray / Samples
def part_inplace(ctx, cuqi, thorough):
    """x.funvals (…anything derived may now be cached on the object); modify x IN PLACE; convert again:
    the results must be the geometry maps of the CURRENT contents (the model is a pure function of the
    contents).  Also views, copies, arithmetic results and pickling keep geometry/flags."""
    import pickle
    from cuqi.samples import Samples
    from cuqi.array import CUQIarray
    rng = np.random.RandomState(ctx.seed + 1309)
    edits = [("x[:]=v", lambda x, v: x.__setitem__(slice(None), v)), ("x*=2", lambda x, v: x.__imul__(2.0)),
             ("x[0]+=1", lambda x, v: x.__setitem__(0, x[0] + 1)), ("np.add(x,1,out=x)", lambda x, v: np.add(x, 1, out=x)),
             ("x[-1]=v[-1]", lambda x, v: x.__setitem__(-1, v[-1])), ("x.fill", lambda x, v: x.fill(float(v.ravel()[0])))]
    lines, lmeta = [], []
    for (name, spec, mk, pd, fs, has_vec) in _dt_geoms():
        with quiet():
            g = mk()
        positive = "exp" in name
        tol = 1e-10
        def check(x, key, desc, is_par):
            """x: CUQIarray in its current state"""
            cur = np.array(np.asarray(x), dtype=float)
            if is_par:
                want = call(g.par2fun, cur.copy())
                got = call(lambda: np.asarray(x.funvals))
                if not _cmp(got, want, tol):
                    ctx.fail(key + ":funvals", {**desc, "contents": short(cur.tolist())}, short(repr(want)), short(repr(got)),
                             "funvals does not reflect the current contents of the array")
                p_again = call(lambda: np.asarray(x.parameters))
                if not _cmp(p_again, cur, tol):
                    ctx.fail(key + ":parameters", {**desc, "contents": short(cur.tolist())}, short(cur.tolist()), short(repr(p_again)), "parameters of a parameter array is not its contents")
                back = call(lambda: np.asarray(x.funvals.parameters))
                if isinstance(back, BaseException) or not _cmp(back, cur, 1e-8):
                    ctx.fail(key + ":roundtrip", {**desc, "contents": short(cur.tolist())}, short(cur.tolist()), short(repr(back)), "funvals.parameters is not the current contents")
                if spec is not None:
                    lines.append(f"carr {spec} 1 {enc(cur)} f,p"); lmeta.append((key, desc, x, True, cur))
            else:
                want = call(g.fun2par, cur.copy())
                got = call(lambda: np.asarray(x.parameters))
                if not _cmp(got, want, tol):
                    ctx.fail(key + ":parameters", {**desc, "contents": short(cur.tolist())}, short(repr(want)), short(repr(got)),
                             "parameters does not reflect the current contents of the function-value array")
                f_again = call(lambda: np.asarray(x.funvals))
                if not _cmp(f_again, cur, tol):
                    ctx.fail(key + ":funvals", {**desc, "contents": short(cur.tolist())}, short(cur.tolist()), short(repr(f_again)), "funvals of a function-value array is not its contents")
                if spec is not None:
                    lines.append(f"carr {spec} 0 {enc(cur)} p"); lmeta.append((key, desc, x, False, cur))

        for is_par in (True, False):
            shape = (pd,) if is_par else fs
            for (ename, edit) in edits:
                if not is_par and len(fs) > 1 and ename in ("x[0]+=1", "x[-1]=v[-1]"):
                    continue
                lo = 1 if positive and not is_par else -6
                x0 = 0.25 * ints(rng, shape, lo, 6) + (0.0 if lo < 0 else 0.25)
                v = 0.25 * ints(rng, shape, lo, 6) + (0.0 if lo < 0 else 0.25)
                desc = {"geometry": name, "is_par": is_par, "edit": ename}
                ctx.case("inplace-cuqiarray", desc)
                key = f"CUQIarray:inplace:{name}"
                x = call(lambda: CUQIarray(x0.copy(), is_par=is_par, geometry=g))
                if isinstance(x, BaseException):
                    ctx.fail(key + ":construct", desc, "constructed", repr(x)[:80]); continue
                call(lambda: (x.funvals, x.parameters, x.funvals.parameters))      # populate whatever may be cached
                r = call(edit, x, v)
                if isinstance(r, BaseException):
                    ctx.fail(key + ":edit", desc, "in-place edit accepted", repr(r)[:100]); continue
                if positive and not is_par and np.asarray(x).min() <= 0:
                    continue
                check(x, key, desc, is_par)
                # a second edit through a view of x
                w = x[...]
                call(lambda: w.__setitem__(Ellipsis, np.asarray(w) + 1.0))
                check(x, key + ":via-view", {**desc, "edit": ename + " then view[...]+=1"}, is_par)
            # views, copies, arithmetic, pickling
            lo = 1 if positive and not is_par else -6
            x0 = 0.25 * ints(rng, shape, lo, 6) + (0.0 if lo < 0 else 0.25)
            x = CUQIarray(x0.copy(), is_par=is_par, geometry=g)
            call(lambda: (x.funvals, x.parameters))
            derived = [("view", lambda: x[...]), ("view()", lambda: x.view()), ("copy", lambda: x.copy()), ("2*x", lambda: 2 * x),
                       ("x+x", lambda: x + x), ("abs", lambda: np.abs(x) + 0.25), ("pickle", lambda: pickle.loads(pickle.dumps(x)))]
            for (dname, mkd) in derived:
                desc = {"geometry": name, "is_par": is_par, "derived": dname}
                ctx.case("derived-cuqiarray", desc)
                key = f"CUQIarray:{'pickle' if dname == 'pickle' else 'derived'}:{name}"
                y = call(mkd)
                if isinstance(y, BaseException) or not isinstance(y, CUQIarray):
                    ctx.fail(key + ":type", desc, "a CUQIarray", repr(y)[:80]); continue
                if getattr(y, "is_par", None) is not is_par or getattr(y, "geometry", None) is None:
                    ctx.fail(key + ":flags", desc, f"is_par={is_par} and the geometry kept", f"is_par={getattr(y, 'is_par', 'MISSING')} geometry={'kept' if getattr(y, 'geometry', None) is not None else 'MISSING'}",
                             "derived array lost its geometry / representation flag"); continue
                check(y, key, desc, is_par)
                if dname == "copy":       # independence of the copy
                    call(lambda: y.__setitem__(Ellipsis, np.asarray(y) * 0.5 + 1.0))
                    check(y, key + ":edited", desc, is_par); check(x, key + ":original", desc, is_par)
        # Samples: in-place edits of S.samples between conversions
        for ns in (1, 3):
            desc = {"geometry": name, "ns": ns}
            ctx.case("inplace-samples", desc)
            key = f"Samples:inplace:{name}"
            P = 0.25 * ints(rng, (pd, ns), -6, 6)
            S = Samples(P.copy(), geometry=g)
            f1 = call(lambda: S.funvals); call(lambda: S.funvals.parameters)
            S.samples[:] = 0.25 * ints(rng, (pd, ns), -6, 6); S.samples *= 2.0; S.samples[0, -1] += 1.0
            f2 = call(lambda: S.funvals)
            if isinstance(f2, BaseException):
                ctx.fail(key + ":funvals", desc, "defined", repr(f2)[:80]); continue
            for i in range(ns):
                if not _cmp(f2.samples[..., i], call(g.par2fun, S.samples[:, i].copy()), tol):
                    ctx.fail(key + ":funvals", {**desc, "sample": i}, "par2fun of the current sample", short(f2.samples[..., i].tolist()), "funvals does not reflect the edited samples"); break
            if positive:
                f2.samples[...] = np.abs(f2.samples) + 0.5
            else:
                f2.samples[...] = 0.25 * ints(rng, f2.samples.shape, -6, 6)
            p2 = call(lambda: f2.parameters)
            if isinstance(p2, BaseException):
                ctx.fail(key + ":parameters", desc, "defined", repr(p2)[:80]); continue
            conv = (lambda a: g.fun2par(g.vec2fun(a))) if f2.is_vec else g.fun2par
            for i in range(ns):
                if not _cmp(np.asarray(p2.samples[:, i]), np.asarray(call(conv, f2.samples[..., i].copy())).reshape(-1), tol):
                    ctx.fail(key + ":parameters", {**desc, "sample": i}, "fun2par of the current sample", short(p2.samples[:, i].tolist()), "parameters does not reflect the edited function values"); break
    outs = yield lines            # one driver call for all streams (see run)
    for (key, desc, x, is_par, cur), out in zip(lmeta, outs):
        ctx.case("inplace-model", desc)
        toks = out.split(" # ")
        st = call(lambda: [x.funvals, x.funvals.parameters] if is_par else [x.parameters])
        if isinstance(st, BaseException) or "err" in toks:
            if not (isinstance(st, BaseException) and "err" in toks):
                ctx.disagree(key + ":model", desc, short(out), short(repr(st)), "refusal differs"); ctx.fail(key + ":model", desc, "defined", short(repr(st)))
            continue
        if not _cmp(np.asarray(x), cur):
            continue   # the array was edited again after this snapshot (copy-independence test)
        for tok, sm in zip(toks, st):
            t = tok.split(" ")
            if not same(parse_arr(t[1]), canon(np.asarray(sm)), 1e-11):
                ctx.disagree(key + ":model", {**desc, "contents": short(cur.tolist())}, short(tok), short(canon(np.asarray(sm))), "conversion after an in-place edit differs from the model on the current contents")
                ctx.fail(key + ":model", {**desc, "contents": short(cur.tolist())}, short(tok), short(canon(np.asarray(sm))), "conversion does not reflect the current contents")
                break



# ----------------------------------------------------------------------------- part K: array properties other than the numbers
def _layouts(X, rng):
    """the SAME numbers as the C-contiguous float64 array X in other memory layouts / dtypes / containers"""
    X = np.ascontiguousarray(X, dtype=float)
    out = [("F", np.asfortranarray(X))]
    if X.ndim >= 2:
        out.append(("transposed-view", np.ascontiguousarray(X.T).T))
    big = np.zeros((2 * X.shape[0],) + X.shape[1:]); big[::2] = X
    out.append(("strided[::2]", big[::2]))
    out.append(("negative-strides", np.ascontiguousarray(X[::-1])[::-1]))
    if X.ndim >= 2:
        bigF = np.asfortranarray(np.zeros((X.shape[0] + 2,) + X.shape[1:-1] + (X.shape[-1] + 1,))); bigF[1:-1, ..., :-1] = X
        out.append(("slice-of-F-array", bigF[1:-1, ..., :-1]))
    ro = X.copy(); ro.flags.writeable = False
    out.append(("read-only", ro))
    roF = np.asfortranarray(X.copy()); roF.flags.writeable = False
    out.append(("read-only-F", roF))
    for dt in (np.int64, np.int32, np.float32):
        out.append((np.dtype(dt).name, X.astype(dt)))
        out.append((np.dtype(dt).name + "-F", np.asfortranarray(X.astype(dt))))
    out.append(("list", X.tolist()))
    return out


def _snap(v):
    return np.array(v, dtype=float).tobytes() if not isinstance(v, list) else repr(v)


def part_layouts(ctx, cuqi, gs, thorough):
    """Every map of every geometry class, the Samples / CUQIarray conversions and the KL / mapped
    expansions, fed with the same numbers in different memory layouts, dtypes and containers: equal
    results (the model only sees the numbers).  Inputs must not be modified; returned arrays are kept
    and re-verified at the end."""
    from cuqi.geometry import KLExpansion, StepExpansion, MappedGeometry, Continuous2D
    from cuqi.samples import Samples
    from cuqi.array import CUQIarray
    rng = np.random.RandomState(ctx.seed + 1310)
    retained = []
    pool = []
    seen = set()
    for g in gs:           # one instance per class × shape family is enough in quick
        sig = (g.name, len(g.fun_shape), g.fun_shape[0] == g.fun_shape[-1])
        if "noinverse" in g.name or (not thorough and sig in seen):
            continue
        seen.add(sig); pool.append(g)
    extra = [G("KLExpansion", None, lambda: KLExpansion(np.linspace(0, 1, 8), num_modes=3), 3, (8,), exact_inverse=False),
             G("KLExpansion", None, lambda: KLExpansion(np.linspace(0, 1, 6)), 6, (6,)),
             G("Mapped(KLExpansion)", None, lambda: MappedGeometry(KLExpansion(np.linspace(0, 1, 8), num_modes=4), map=lambda x: np.asarray(x, dtype=float) / 3 + 1, imap=lambda y: 3 * (np.asarray(y, dtype=float) - 1)), 4, (8,), exact_inverse=False),
             G("Mapped(Continuous2D)", None, lambda: MappedGeometry(Continuous2D((2, 3)), map=lambda x: np.exp(np.asarray(x, dtype=float) / 4), imap=lambda y: 4 * np.log(np.asarray(y, dtype=float))), 6, (2, 3))]
    for g in pool + extra:
        o = g.obj
        positive = g.name == "Mapped(Continuous2D)" and g.spec is None
        for op in ("par2fun", "fun2par", "fun2vec", "vec2fun", "par2vec"):
            if not hasattr(o, op):
                continue
            in_shape = (g.par_dim,) if op in ("par2fun", "par2vec") else ((int(np.prod(g.fun_shape)),) if op == "vec2fun" else g.fun_shape)
            for ns in (None, 3):
                if ns is not None and op in ("fun2vec", "vec2fun"):
                    continue
                X = ints(rng, in_shape if ns is None else in_shape + (ns,), 1 if positive else -9, 9)
                if positive and op != "par2fun":
                    X = np.exp(X / 4.0)
                ref = call(getattr(o, op), X.copy())
                if isinstance(ref, BaseException):
                    continue       # the conversion is not offered (NotImplementedError) or refused for the plain array as well
                ref = np.array(ref, dtype=float)
                for (lname, V) in _layouts(X, rng):
                    if positive and op != "par2fun" and lname.startswith("int"):
                        continue   # exp values are not integers
                    desc = {"geometry": g.spec or g.name, "op": op, "layout": lname, "shape": list(np.shape(X))}
                    ctx.case("layout", desc)
                    key = f"layout:{g.name}:{op}"
                    before = _snap(V)
                    r = call(getattr(o, op), V)
                    if isinstance(r, BaseException):
                        if lname == "list":
                            continue     # python lists may be refused; if accepted the result must be right
                        ctx.fail(key + ":raises", {**desc, "x": short(X.tolist())}, short(ref.tolist()), repr(r)[:120], "the same numbers in another memory layout / dtype are refused")
                        continue
                    tol = 1e-5 if lname.startswith("float32") else 1e-11
                    if not _cmp(r, ref, tol):
                        ctx.fail(key, {**desc, "x": short(X.tolist())}, short(ref.tolist()), short(np.asarray(r, dtype=float).tolist()),
                                 "result depends on the memory layout / dtype / container of the array handed in, not only on its numbers")
                    if _snap(V) != before:
                        ctx.fail(key + ":input-modified", desc, "input untouched", "input changed", "the caller's array was modified")
                    if isinstance(r, np.ndarray) and not (isinstance(V, np.ndarray) and np.shares_memory(r, V)):
                        retained.append((key, desc, r, np.array(r, copy=True)))
        # round trips in every layout (fun -> par -> fun and par -> fun -> par)
        if g.exact_inverse or True:
            P = ints(rng, (g.par_dim,), 1 if positive else -9, 9)
            f = call(o.par2fun, P.copy())
            if not isinstance(f, BaseException):
                for (lname, V) in _layouts(np.array(f, dtype=float), rng):
                    if lname.startswith("int") or lname.startswith("float32") or lname == "list":
                        continue
                    back = call(o.fun2par, V)
                    if isinstance(back, BaseException) or not _cmp(np.asarray(back).reshape(-1), P, 1e-8):
                        ctx.fail(f"layout:{g.name}:roundtrip", {"geometry": g.spec or g.name, "layout": lname, "p": P.tolist()}, P.tolist(), short(repr(back)),
                                 "fun2par(par2fun(p)) != p when the function values are held in another memory layout")
                    # containers
                    c = call(lambda: CUQIarray(V, is_par=False, geometry=o))
                    cp = call(lambda: np.asarray(c.parameters)) if not isinstance(c, BaseException) else c
                    if isinstance(cp, BaseException) or not _cmp(np.asarray(cp).reshape(-1), P, 1e-8):
                        ctx.fail(f"layout:{g.name}:CUQIarray", {"geometry": g.spec or g.name, "layout": lname, "p": P.tolist()}, P.tolist(), short(repr(cp)),
                                 "CUQIarray(f, is_par=False).parameters depends on the memory layout of f")
                    elif not _cmp(c.to_numpy(), np.asarray(f, dtype=float), 1e-11):
                        ctx.fail(f"layout:{g.name}:CUQIarray", {"geometry": g.spec or g.name, "layout": lname}, "to_numpy() == f", short(c.to_numpy().tolist()))
        # Samples whose sample array is F-ordered / strided / read-only / integer
        P = ints(rng, (g.par_dim, 3), 1 if positive else -9, 9)
        refS = call(lambda: Samples(P.copy(), geometry=o).funvals)
        if not isinstance(refS, BaseException):
            for (lname, V) in _layouts(P, rng):
                if lname == "list":
                    continue
                desc = {"geometry": g.spec or g.name, "layout": lname}
                ctx.case("layout-samples", desc)
                fS = call(lambda: Samples(V, geometry=o).funvals)
                tol = 1e-5 if lname.startswith("float32") else 1e-11
                if isinstance(fS, BaseException) or not _cmp(fS.samples, refS.samples, tol):
                    ctx.fail(f"layout:{g.name}:Samples:funvals", desc, short(refS.samples.tolist()), short(repr(fS if isinstance(fS, BaseException) else fS.samples.tolist())),
                             "Samples.funvals depends on the memory layout / dtype of the sample array")
                    continue
                if lname in ("F", "strided[::2]", "read-only-F"):
                    V2 = np.asfortranarray(fS.samples)
                    pS = call(lambda: Samples(V2, geometry=o, is_par=False, is_vec=fS.is_vec).parameters)
                    if isinstance(pS, BaseException) or not _cmp(pS.samples, P, 1e-8):
                        ctx.fail(f"layout:{g.name}:Samples:roundtrip", desc, short(P.tolist()), short(repr(pS if isinstance(pS, BaseException) else pS.samples.tolist())),
                                 "funvals (held F-ordered) -> parameters does not return the parameters")
    for (key, desc, r, cpy) in retained:
        if not np.array_equal(r, cpy, equal_nan=True):
            ctx.fail(key + ":retained-output-changed", desc, "an array returned earlier keeps its values", "changed by a later call", "returned arrays alias internal buffers")
    ctx.extra_cov["retained_outputs_reverified"] = len(retained)


# ----------------------------------------------------------------------------- part L: shape-changing invertible maps, nested wrappers
def part_shape_maps(ctx, cuqi, thorough):
    """MappedGeometry whose map changes the SHAPE of the function values (with an inverse), and nested
    wrappers: reported fun_shape / fun_dim are what par2fun produces, Samples / CUQIarray buffers fit,
    per-sample consistency and funvals -> parameters round trip."""
    from cuqi.geometry import KLExpansion, StepExpansion, Continuous1D, Continuous2D, Image2D, Discrete, MappedGeometry
    from cuqi.samples import Samples
    from cuqi.array import CUQIarray
    rng = np.random.RandomState(ctx.seed + 1311)
    def symext(n):
        return (lambda f: np.concatenate([f, f[::-1]], axis=0), lambda g_: g_[:n])
    def to2d(a, b):
        return (lambda f: np.reshape(f, (a, b) + np.shape(f)[1:]), lambda g_: np.reshape(g_, (a * b,) + np.shape(g_)[2:]))
    def flat2(a, b):   # (a, b[, ns]) -> (a*b[, ns])
        return (lambda f: np.reshape(f, (a * b,) + np.shape(f)[2:]), lambda g_: np.reshape(g_, (a, b) + np.shape(g_)[1:]))
    plus3 = (lambda x: x + 3.0, lambda y: y - 3.0)
    fexp = (lambda x: np.exp(np.asarray(x, dtype=float) / 4), lambda y: 4 * np.log(np.asarray(y, dtype=float)))
    grid = np.arange(6.0)
    cases = [
        ("Mapped(Continuous1D,symext)", lambda: MappedGeometry(Continuous1D(5), *symext(5)), 5, (10,)),
        ("Mapped(StepExpansion,symext)", lambda: MappedGeometry(StepExpansion(grid, n_steps=3), *symext(6)), 3, (12,)),
        ("Mapped(KLExpansion,symext)", lambda: MappedGeometry(KLExpansion(np.linspace(0, 1, 8), num_modes=3), *symext(8)), 3, (16,)),
        ("Mapped(Discrete,symext)", lambda: MappedGeometry(Discrete(4), *symext(4)), 4, (8,)),
        ("Mapped(Continuous1D,to2d)", lambda: MappedGeometry(Continuous1D(6), *to2d(2, 3)), 6, (2, 3)),
        ("Mapped(StepExpansion,to2d)", lambda: MappedGeometry(StepExpansion(grid, n_steps=3), *to2d(3, 2)), 3, (3, 2)),
        ("Mapped(Continuous2D,flatten)", lambda: MappedGeometry(Continuous2D((2, 3)), *flat2(2, 3)), 6, (6,)),
        ("Mapped(Image2D-F,flatten)", lambda: MappedGeometry(Image2D((3, 2), order="F"), *flat2(3, 2)), 6, (6,)),
        ("Mapped(Mapped(Continuous2D,exp),+3)", lambda: MappedGeometry(MappedGeometry(Continuous2D((2, 3)), *fexp), *plus3), 6, (2, 3)),
        ("Mapped(Mapped(StepExpansion,+3),symext)", lambda: MappedGeometry(MappedGeometry(StepExpansion(grid, n_steps=3), *plus3), *symext(6)), 3, (12,)),
        ("Mapped(Mapped(KLExpansion,exp),+3)", lambda: MappedGeometry(MappedGeometry(KLExpansion(np.linspace(0, 1, 8), num_modes=4), *fexp), *plus3), 4, (8,)),
        ("Mapped(Mapped(Continuous1D,symext),to2d)", lambda: MappedGeometry(MappedGeometry(Continuous1D(3), *symext(3)), *to2d(2, 3)), 3, (2, 3)),
        ("Mapped(Mapped(Image2D,+3),exp)", lambda: MappedGeometry(MappedGeometry(Image2D((2, 3)), *plus3), *fexp), 6, (2, 3)),
    ]
    for (name, mk, pd, fs) in cases:
        with quiet():
            g = mk()
        desc = {"geometry": name}
        ctx.case("shape-map", desc)
        key = f"shape-map:{name}"
        p = 0.25 * ints(rng, (pd,), 1, 8)
        f = call(g.par2fun, p.copy())
        if isinstance(f, BaseException):
            ctx.fail(key + ":par2fun", desc, "defined", repr(f)[:100]); continue
        fsh, fdim = call(lambda: g.fun_shape), call(lambda: g.fun_dim)
        if isinstance(fsh, BaseException) or tuple(fsh) != np.shape(f) or np.shape(f) != fs:
            ctx.fail(key + ":fun_shape", {**desc, "p": p.tolist()}, list(np.shape(f)), repr(fsh), "fun_shape is not the shape par2fun produces")
        if isinstance(fdim, BaseException) or fdim != int(np.prod(np.shape(f))):
            ctx.fail(key + ":fun_dim", desc, int(np.prod(np.shape(f))), repr(fdim), "fun_dim is not the number of function values par2fun produces")
        if tuple(call(lambda: g.par_shape)) != (pd,) or call(lambda: g.par_dim) != pd:
            ctx.fail(key + ":par_shape", desc, (pd,), repr(call(lambda: g.par_shape)))
        back = call(g.fun2par, f)
        if isinstance(back, BaseException) or not _cmp(np.asarray(back).reshape(-1), p, 1e-8):
            ctx.fail(key + ":roundtrip", {**desc, "p": p.tolist()}, p.tolist(), short(repr(back)), "fun2par(par2fun(p)) != p")
        for ns in (1, 3):
            P = 0.25 * ints(rng, (pd, ns), 1, 8)
            S = Samples(P.copy(), geometry=g)
            fS = call(lambda: S.funvals)
            if isinstance(fS, BaseException):
                ctx.fail(key + ":Samples:funvals", {**desc, "ns": ns}, "funvals defined", repr(fS)[:120], "the buffer allocated from fun_shape does not fit what par2fun produces"); continue
            if fS.samples.shape != np.shape(f) + (ns,):
                ctx.fail(key + ":Samples:shape", {**desc, "ns": ns}, list(np.shape(f) + (ns,)), list(fS.samples.shape), "funvals array is mis-shaped")
            for i in range(ns):
                if not _cmp(fS.samples[..., i], call(g.par2fun, P[:, i].copy()), 1e-11):
                    ctx.fail(key + ":Samples:per-sample", {**desc, "sample": i}, "funvals[..., i] == par2fun(sample i)", "differs"); break
            pS = call(lambda: fS.parameters)
            if isinstance(pS, BaseException) or not _cmp(pS.samples, P, 1e-8):
                ctx.fail(key + ":Samples:roundtrip", {**desc, "ns": ns}, short(P.tolist()), short(repr(pS if isinstance(pS, BaseException) else pS.samples.tolist())),
                         "funvals -> parameters does not return the parameters")
        c = call(lambda: CUQIarray(p.copy(), geometry=g).funvals)
        if isinstance(c, BaseException) or np.shape(c) != np.shape(f) or not _cmp(np.asarray(c), f, 1e-11):
            ctx.fail(key + ":CUQIarray:funvals", desc, list(np.shape(f)), repr(c)[:100] if isinstance(c, BaseException) else list(np.shape(c)))
        else:
            cb = call(lambda: np.asarray(c.parameters))
            if isinstance(cb, BaseException) or not _cmp(cb, p, 1e-8):
                ctx.fail(key + ":CUQIarray:roundtrip", desc, p.tolist(), short(repr(cb)))


# ----------------------------------------------------------------------------- entry
def run(ctx):
    cuqi = import_cuqi()
    thorough = ctx.tier == "thorough"
    ctx.assumptions += [
        "integer-valued / dyadic inputs: reshape-type maps are compared exactly (shape and C-order data); step means and KL values with rel+abs 1e-11..1e-12",
        "StepExpansion: the model evaluates the documented intervals in exact rational arithmetic on the float grid values; "
        "a second model run takes the implementation's float interval ends as data and must reproduce `_indices` exactly",
        "KLExpansion: idst/dst are leaf data (scipy); theorem kl_fun2par_par2fun assumes dst(idst v) = 2N v, checked numerically for every N used",
        "MappedGeometry is exercised with affine maps scale*f+shift (dyadic scale/shift); the theorem is for arbitrary map/imap with imap∘map = id",
    ]
    ctx.trusted += ["numpy reshape/ravel/squeeze/broadcast-assign semantics as transcribed in Model/C13.lean (tied by the correspondence, incl. general F-order reshape)"]
    rng = np.random.RandomState(ctx.seed + 1299)
    gs = build_geometries(cuqi, rng, thorough)
    # Every stream is a generator: it builds its model lines (running the implementation where the lines depend on
    # it), yields them, and receives the model outputs.  ALL lines go to the Lean driver in ONE call (each call
    # queues on the shared build lock), then the streams are resumed in order.
    from harness.props import c13_ext
    gens = [part_maps(ctx, cuqi, gs, thorough), part_step(ctx, cuqi, thorough), part_kl(ctx, cuqi, thorough),
            part_chains(ctx, cuqi, gs, thorough), part_imgchk(ctx, thorough), part_reassign(ctx, cuqi, thorough),
            part_mapped(ctx, cuqi, thorough), part_dtypes(ctx, cuqi, thorough), part_inplace(ctx, cuqi, thorough)] + \
        c13_ext.generators(ctx, cuqi, thorough)
    live, blocks = [], []
    for g in gens:
        try:
            blocks.append(next(g)); live.append(g)
        except StopIteration:
            pass
    outs = ctx.lean.drive([l for b in blocks for l in b])
    pos = 0
    for g, b in zip(live, blocks):
        try:
            g.send(outs[pos:pos + len(b)])
        except StopIteration:
            pass
        pos += len(b)
    part_scipy_dst(ctx, cuqi, thorough)
    part_layouts(ctx, cuqi, gs, thorough)
    part_shape_maps(ctx, cuqi, thorough)
