"""C18 — PDE models solve the discretised equations given and observe them consistently.

Implementation side: the real `cuqi.pde.SteadyStateLinearPDE`, `cuqi.pde.TimeDependentLinearPDE`,
`cuqi.model.PDEModel`, `cuqi.testproblem.Poisson1D/Heat1D`.  Model side: `lean/Driver/C18.lean`
(exact rationals; every linear solve certificate-checked).

Oracle (implementation only, run on *every* case):
  steady      A(p) u = b(p) for the parameter assembled last;
  time        level 0 = initial condition of the form at t_0; every later level satisfies the
              forward- / backward-Euler one-step relation with the operator and source of that step
              (t_k resp. t_{k+1}) and dt = t_{k+1} - t_k;
  observe     pre-map observation has shape (|grid_obs|, |time_obs|), equals the stored solution
              value at every coinciding (node, time), equals scipy's interpolant (called directly)
              elsewhere; then the observation map; the time axis is dropped iff |time_obs| = 1;
  PDEModel    forward(x) = observe(solve(assemble(par2fun x))[0]); gradient = direction @ Jacobian of
              forward (central differences; the maps used are affine in the parameter).

Keys:  <Class>.<method>:<aspect>:<input class>
"""
import math
import sys
import numpy as np
import scipy
import scipy.interpolate
from harness.core import import_cuqi, quiet, q, qv, qm, pv, pm, close, vclose, mclose

TOL = 1e-9
if hasattr(sys, "set_int_max_str_digits"):
    sys.set_int_max_str_digits(0)      # exact levels on re-scaled time axes are rationals with thousands of digits


_MARGINS = {"time_residual_max_pass": 0.0, "tolerance": 1e-9, "arr_same_max_ratio_pass": 0.0}   # largest deviations that still passed (flakiness margins)


class SolverRaised(Exception):
    pass


# ----------------------------------------------------------------------------------------------- helpers
def dy(rng, lo, hi, den=4):
    """random dyadic rational in [lo, hi] with denominator den"""
    return rng.randint(int(lo * den), int(hi * den)) / den


def dyv(rng, n, lo=-2, hi=2, den=4):
    return np.array([dy(rng, lo, hi, den) for _ in range(n)], dtype=float)


def dym(rng, r, c, lo=-2, hi=2, den=2):
    return np.array([[dy(rng, lo, hi, den) for _ in range(c)] for _ in range(r)], dtype=float).reshape(r, c)


def laplace(n, h=1.0):
    return (np.diag(-2 * np.ones(n)) + np.diag(np.ones(n - 1), 1) + np.diag(np.ones(n - 1), -1)) / h ** 2


def fd(n, h=1.0):
    """(n+1) x n first-order difference with zero boundary (as in Poisson1D)"""
    D = np.zeros((n + 1, n))
    for i in range(n):
        D[i, i] = 1.0
        D[i + 1, i] = -1.0
    return D / h


FKEYS = ["A0", "A1", "D", "E", "b0", "b1", "B", "c0", "c1", "C"]
MATK = {"A0", "A1", "D", "E", "B", "C"}


def fam_tokens(F):
    out = []
    for k in FKEYS:
        v = F.get(k)
        if v is None:
            out.append("_")
        elif k in MATK:
            out.append(qm(v))
        else:
            out.append(qv(v))
    return " ".join(out)


def fam_eval(F, p, t):
    """(A, b, ic) of the family at parameter p and time t — the same float operations as the form given to cuqi"""
    n = F["n"]
    p = np.asarray(p, dtype=float)
    A = np.zeros((n, n)) if F.get("A0") is None else F["A0"].copy()
    if F.get("A1") is not None:
        A = A + t * F["A1"]
    if F.get("D") is not None:
        A = A + F["D"].T @ np.diag(F["E"] @ p) @ F["D"]
    b = np.zeros(n) if F.get("b0") is None else F["b0"].copy()
    if F.get("b1") is not None:
        b = b + t * F["b1"]
    if F.get("B") is not None:
        b = b + F["B"] @ p
    ic = np.zeros(n) if F.get("c0") is None else F["c0"].copy()
    if F.get("c1") is not None:
        ic = ic + t * F["c1"]
    if F.get("C") is not None:
        ic = ic + F["C"] @ p
    return A, b, ic


def make_solver(kind):
    """user `linalg_solve` callables of the kinds the driver knows; returns (callable or None, kwargs, driver kind)"""
    def base(A, b):
        A = np.asarray(A.toarray() if hasattr(A, "toarray") else A, dtype=float)
        if np.linalg.matrix_rank(A) < A.shape[0]:
            raise SolverRaised("singular")
        return np.linalg.solve(A, np.asarray(b, dtype=float))
    if kind == "default":
        return None, None, "plain"
    if kind == "default-empty-kwargs":      # falsy but valid option value
        return None, {}, "plain"
    if kind == "default-gen":               # keyword forwarded to scipy.linalg.solve
        return None, {"assume_a": "gen", "check_finite": True}, "plain"
    if kind == "scipy-explicit":
        return scipy.linalg.solve, None, "plain"
    if kind == "plain":
        return (lambda A, b: base(A, b)), None, "plain"
    if kind == "kw":
        def s(A, b, flag=False, shift=1.0):
            x = base(A, b)
            return x if flag else x + shift       # wrong unless the kwargs are passed through
        return s, {"flag": True, "shift": 5.0}, "plain"
    if kind == "t0":
        return (lambda A, b: (base(A, b), ())[1]), None, "t0"
    if kind == "t1":
        return (lambda A, b: (base(A, b),)), None, "t1"
    if kind == "t2":
        return (lambda A, b: (base(A, b), float(np.asarray(b)[0]))), None, "t2"
    if kind == "t3":
        return (lambda A, b: (base(A, b), float(np.asarray(b)[0]), float(A[0, 0]))), None, "t3"
    if kind == "raise":
        def r(A, b):
            raise SolverRaised("refuses")
        return r, None, "raise"
    raise ValueError(kind)


SOLVER_KINDS = ["default", "plain", "kw", "t0", "t1", "t2", "t3", "raise", "default-empty-kwargs", "default-gen", "scipy-explicit"]
DEFAULTISH = ["default", "default", "default-empty-kwargs", "default-gen", "scipy-explicit"]


def errname(e):
    if isinstance(e, SolverRaised) or isinstance(e, np.linalg.LinAlgError):
        return "SolverError"
    return type(e).__name__


def info_matches(model_tok, info):
    """model `i:none` / `i:_` / `i:a,b` against the implementation's info"""
    body = model_tok[2:]
    if body == "none":
        return info is None
    if info is None or not isinstance(info, tuple):
        return False
    vals = pv(body)
    if len(vals) != len(info):
        return False
    return all(close(float(a), float(b), TOL) for a, b in zip(vals, info))


def parse_arr(tok):
    """driver `s:q` / `v:vec` / `m:mat` -> ndarray"""
    kind, _, body = tok.partition(":")
    if kind == "s":
        return np.array(float(pv(body)[0]))
    if kind == "v":
        return np.array([float(x) for x in pv(body)], dtype=float)
    if kind == "m":
        rows = pm(body)
        if not rows:
            return np.zeros((0, 0))
        return np.array([[float(x) for x in r] for r in rows], dtype=float).reshape(len(rows), -1)
    raise ValueError(tok)


def arr_same(a, b, tol=TOL):
    a = np.asarray(a, dtype=float); b = np.asarray(b, dtype=float)
    if a.shape != b.shape:
        return False
    if a.size == 0:
        return True
    if np.isnan(a).any() or np.isnan(b).any():
        return False
    scale = 1.0 + max(np.abs(a).max(), np.abs(b).max())
    ok = bool(np.all(np.abs(a - b) <= tol * scale))
    if ok and tol > 0:
        _MARGINS["arr_same_max_ratio_pass"] = max(_MARGINS["arr_same_max_ratio_pass"], float(np.abs(a - b).max() / (tol * scale)))
    return ok


def short(a):
    a = np.asarray(a)
    return f"shape={a.shape} " + np.array2string(a.ravel()[:8], precision=6)


def grid_tok(g):
    return "none" if g is None else qv(g)


OM_KINDS = ["id", "sq", "sc", "left", "row", "take"]


def make_om(rng, kind, nrows):
    """(python callable or None, driver token)"""
    if kind == "id":
        return None, "id"
    if kind == "sq":
        return (lambda u: u ** 2), "sq"
    if kind == "sc":
        c = dy(rng, -3, 3, 2) or 1.5
        return (lambda u: c * u), "sc:" + q(c)
    if kind == "left":
        r = rng.randint(1, 3)
        M = dym(rng, r, nrows, -2, 2, 2)
        return (lambda u: M @ u), "left:" + qm(M)
    if kind == "row":
        i = rng.randint(0, max(0, nrows - 1))
        return (lambda u: u[i]), f"row:{i}"
    if kind == "take":
        k = rng.randint(1, max(1, nrows))
        return (lambda u: u[:k]), f"take:{k}"
    raise ValueError(kind)


SIGMAS = [2.0 ** -40, 1e-12, 2.0 ** -30, 1e-9, 2.0 ** -20, 1e-6, 2.0 ** -10, 2.0 ** 10, 1e6, 2.0 ** 20]


def scale_time(F, ts, sigma):
    """the same discrete recurrence on a time axis scaled by sigma: t' = sigma t, A' = A/sigma, b' = b/sigma (dt'.A' = dt.A)"""
    G = dict(F)
    for k, pw in (("A0", 1), ("A1", 2), ("E", 1), ("b0", 1), ("b1", 2), ("B", 1), ("c1", 1)):
        if G.get(k) is not None:
            G[k] = G[k] / sigma ** pw
    return G, np.asarray(ts, dtype=float) * sigma


DT_VARIANTS = ["int-all", "bool-ic", "int-param-ic", "f32-data", "f32-all", "int-ts", "list-ts-list-p", "0d-free",
               "uint8-ic", "int8-data", "f16-data", "fortran-op", "readonly", "strided-p", "negstride-p", "cuqiarray-p", "shared-arrays"]


def dtype_time_case(rng, n, variant):
    """integer-valued data so that a cast to int/bool/float32 loses nothing: (F, npar, p, ts)"""
    F = {"n": n, "A0": laplace(n), "b0": np.array([float(rng.randint(-2, 2)) for _ in range(n)])}
    p = np.array([float(rng.randint(-2, 3)) for _ in range(n)])
    if not np.any(p):
        p[0] = 1.0
    if variant == "bool-ic":
        c0 = np.array([float(rng.random() < 0.5) for _ in range(n)]); c0[0] = 1.0
        F.update(c0=c0, B=np.eye(n))
    elif variant == "uint8-ic":           # non-negative counts: an unsigned buffer would wrap below zero
        F.update(c0=np.array([float(rng.randint(0, 3)) for _ in range(n)]), B=np.eye(n))
    elif variant in ("int-param-ic", "shared-arrays"):
        F.update(C=np.eye(n))
    else:
        F.update(c0=np.array([float(rng.randint(-3, 3)) for _ in range(n)]), C=np.eye(n))
    nt = rng.choice([2, 3]) if variant == "f32-all" else rng.choice([2, 3, 4, 5])
    if variant == "int-ts":
        F["A0"] = laplace(n) / 4.0
        ts = np.cumsum([0] + [rng.choice([1, 2]) for _ in range(nt - 1)]).astype(float)
    else:
        ts = np.cumsum([0.0] + [rng.choice([0.125, 0.25, 0.375]) for _ in range(nt - 1)])
    return F, n, p, ts


def dtype_views(variant, F, p, ts):
    """(form(par, t), parameter as passed, time grid as passed) with the dtypes of the variant; same numbers"""
    def cast(A, b, ic, par):
        if variant == "int-all":
            return A.astype(np.int64), b.astype(np.int32), ic.astype(np.int64)
        if variant == "bool-ic":
            return A.astype(np.int64), b, ic.astype(bool)
        if variant == "int-param-ic":
            return A, b.astype(int), par                    # the parameter object itself is the initial condition
        if variant == "f32-data":
            return A, b.astype(np.float32), ic.astype(np.float32)
        if variant == "f32-all":
            return A.astype(np.float32), b.astype(np.float32), ic.astype(np.float32)
        if variant == "list-ts-list-p":
            return A, b, [float(x) for x in ic]     # (a python-list source with a python-list time grid is refused loudly: float * list)
        if variant == "uint8-ic":
            return A, b, ic.astype(np.uint8)
        if variant == "int8-data":
            return A.astype(np.int8), b.astype(np.int8), ic.astype(np.int8)
        if variant == "f16-data":
            return A, b.astype(np.float16), ic.astype(np.float16)
        if variant == "fortran-op":
            return np.asfortranarray(A), b[::-1][::-1], np.ascontiguousarray(ic)
        if variant == "readonly":
            for arr in (A, b, ic):
                arr.setflags(write=False)
            return A, b, ic
        return A, b, ic

    shared = {}

    def form(par, t):
        if variant == "shared-arrays":       # the user's closure hands back the SAME operator / source objects at every call, and the parameter itself
            if "A" not in shared:
                shared["A"], shared["b"], _ = fam_eval(F, par, float(t))
            return shared["A"], shared["b"], par
        A, b, ic = fam_eval(F, par, float(t))
        return cast(A, b, ic, par)
    form.shared = shared
    pv_ = {"int-all": p.astype(np.int64), "int-param-ic": p.astype(np.int64), "f32-data": p.astype(np.float32), "f32-all": p.astype(np.float32),
           "list-ts-list-p": [float(x) for x in p], "int8-data": p.astype(np.int8), "f16-data": p.astype(np.float16)}.get(variant, p.copy())
    if variant == "strided-p":
        big = np.zeros(2 * len(p)); big[::2] = p; pv_ = big[::2]
    elif variant == "negstride-p":
        pv_ = p[::-1].copy()[::-1]
    elif variant == "readonly":
        pv_ = p.copy(); pv_.setflags(write=False)
    elif variant == "cuqiarray-p":
        from cuqi.array import CUQIarray
        from cuqi.geometry import Continuous1D
        pv_ = CUQIarray(p.copy(), geometry=Continuous1D(len(p)))
    tv = {"f32-all": ts.astype(np.float32), "int-ts": ts.astype(np.int32), "list-ts-list-p": [float(x) for x in ts]}.get(variant, ts.copy())
    return form, pv_, tv


def buffered_form(inner, n, mode):
    """PDE_form that writes operator, source and initial condition into ONE set of re-used buffers and hands back the same
    objects at every call: the CONTENTS follow (parameter, t), the object identities never change.  mode 'dense' / 'sparse'
    (operator = scipy.sparse.csr_matrix with a full pattern whose .data is refilled).  `inner(par, t)` gives the fresh arrays."""
    import scipy.sparse
    buf = {"A": np.zeros((n, n)), "b": np.zeros(n), "ic": np.zeros(n)}
    if mode == "sparse":
        buf["A"] = scipy.sparse.csr_matrix(np.ones((n, n)))

    def form(par, t):
        A, b, ic = inner(par, t)
        if mode == "sparse":
            buf["A"].data[:] = np.asarray(A, dtype=float).ravel()
        else:
            buf["A"][...] = A
        buf["b"][...] = b
        buf["ic"][...] = ic
        return buf["A"], buf["b"], buf["ic"]
    form.buffers = buf
    return form


def buffered_steady_form(inner, n, mode):
    f3 = buffered_form(lambda par, t: inner(par) + (np.zeros(n),), n, mode)
    return lambda par: f3(par, 0.0)[:2]


def snap(*objs):
    return [o.tobytes() if isinstance(o, np.ndarray) else repr(o) for o in objs]


TOL_GRIDS = [("big", 2.5e5, 1.0, 0.5), ("huge", 1e8, 1.0, 1e-3), ("tiny", 0.0, 1e-9, 3e-10), ("big-fine", 4.0e6, 0.25, 0.125)]


def tolerance_pair(rng, N, kind=None):
    """a grid with extreme coordinates and an equal-length copy shifted by a fraction of a cell that np.allclose
    (rtol 1e-5, atol 1e-8) would call equal; no node of the copy coincides with a node of the grid"""
    name, off, sp, sh = kind or rng.choice(TOL_GRIDS)
    g = off + sp * np.arange(N, dtype=float)
    g2 = g + sh
    g2[-1] = g[-1] - sh
    assert np.allclose(g, g2) and not np.any(g == g2)
    return g, g2, name, sp, sh


# ----------------------------------------------------------------------------------------------- generators of forms
def gen_time_family(rng, n, flavour):
    """structured PDE forms; returns dict F (arrays or None), np (parameter length)"""
    F = {"n": n}
    h = rng.choice([1.0, 0.5, 2.0])
    if flavour == "heat-ic":            # Heat1D: operator fixed, zero source, parameter = initial condition
        F.update(A0=laplace(n, h), C=np.eye(n)); npar = n
    elif flavour == "heat-source":      # parameter = source term, constant initial condition
        F.update(A0=laplace(n, h), B=np.eye(n), c0=np.ones(n)); npar = n
    elif flavour == "heat-source-t":    # source b0 + t b1 + B p, ic depends on p through a matrix
        npar = rng.randint(1, 3)
        F.update(A0=laplace(n, h), b0=dyv(rng, n), b1=dyv(rng, n), B=dym(rng, n, npar), c0=dyv(rng, n), C=dym(rng, n, npar))
    elif flavour == "op-t":             # operator depends on time
        npar = n
        F.update(A0=laplace(n, h), A1=-np.diag(np.abs(dyv(rng, n))), b0=dyv(rng, n), C=np.eye(n))
    elif flavour == "op-p":             # diffusion coefficient is the parameter: A = -D^T diag(p) D
        npar = n + 1
        F.update(D=fd(n, h), E=-np.eye(n + 1), b0=dyv(rng, n), c0=dyv(rng, n))
    elif flavour == "ic-t":             # the form's third component changes with t: only its value at t_0 may be used
        npar = n
        F.update(A0=laplace(n, h), c0=dyv(rng, n), c1=dyv(rng, n) + 1.0, C=np.eye(n), b1=dyv(rng, n))
    elif flavour == "general":          # everything at once, operator not symmetric
        npar = rng.randint(1, 3)
        F.update(A0=dym(rng, n, n), A1=dym(rng, n, n, -1, 1), b0=dyv(rng, n), b1=dyv(rng, n), B=dym(rng, n, npar),
                 c0=dyv(rng, n), c1=dyv(rng, n), C=dym(rng, n, npar))
    else:
        raise ValueError(flavour)
    return F, npar


TIME_FLAVOURS = ["heat-ic", "heat-source", "heat-source-t", "op-t", "op-p", "ic-t", "general"]
STRUCT_S = ["sym", "zero", "diag", "neg-def", "lower-tri"]
STRUCT_N = ["nonsym", "upper-tri", "skew", "one-entry"]


def gen_structure_family(rng, n, ts, k_star=None, s_kind=None, n_kind=None):
    """A(t) = S + (t - t*) N: at the grid time t* the operator has the structure of S (symmetric / zero / diagonal /
    negative definite / lower triangular), at every other time it has not (N non-symmetric / strictly upper triangular /
    skew / a single off-diagonal entry).  A structure test made on the operator of the PREVIOUS assembly is wrong here."""
    s_kind = s_kind or rng.choice(STRUCT_S); n_kind = n_kind or rng.choice(STRUCT_N)
    if s_kind == "sym":
        M = dym(rng, n, n, -1, 1, 2); S = M + M.T - 2.0 * np.eye(n)
    elif s_kind == "zero":
        S = np.zeros((n, n))
    elif s_kind == "diag":
        S = -np.diag(np.abs(dyv(rng, n)) + 0.5)
    elif s_kind == "neg-def":
        S = laplace(n)
    else:
        S = np.tril(dym(rng, n, n, -1, 1, 2)) - 2.0 * np.eye(n)
    if n_kind == "nonsym":
        N = dym(rng, n, n, -1, 1, 2); N[0, n - 1] += 1.5
    elif n_kind == "upper-tri":
        N = np.triu(dym(rng, n, n, -1, 1, 2), 1); N[0, n - 1] = 1.5
    elif n_kind == "skew":
        M = np.triu(dym(rng, n, n, -1, 1, 2), 1); M[0, n - 1] = 1.0; N = M - M.T
    else:
        N = np.zeros((n, n)); N[0, n - 1] = 2.0
    k_star = rng.randrange(max(1, len(ts) - 1)) if k_star is None else k_star
    t_star = float(ts[k_star])
    F = {"n": n, "A0": S - t_star * N, "A1": N, "b0": dyv(rng, n), "b1": dyv(rng, n), "C": np.eye(n), "c0": dyv(rng, n)}
    return F, n, f"op-structure:{s_kind}>{n_kind}"


def gen_times(rng, nt, kind):
    t0 = dy(rng, -1, 1, 2) if rng.random() < 0.3 else 0.0
    if kind == "uniform":
        dt = rng.choice([0.125, 0.25, 0.5, 0.0625])
        return np.array([t0 + k * dt for k in range(nt)])
    if kind == "nonuniform":
        ts = [t0]
        for _ in range(nt - 1):
            ts.append(ts[-1] + rng.choice([0.0625, 0.125, 0.25, 0.375, 0.5, 0.75]))
        return np.array(ts)
    if kind == "blocks":                # non-uniform, but with runs of bitwise-equal consecutive steps
        ts = [t0]
        while len(ts) < nt:
            h = rng.choice([0.0625, 0.125, 0.25, 0.5])
            for _ in range(rng.randint(2, 3)):
                if len(ts) < nt:
                    ts.append(ts[-1] + h)
        return np.array(ts)
    if kind == "wild":                  # zero and negative increments: the code does not refuse them
        ts = [t0]
        for _ in range(nt - 1):
            ts.append(ts[-1] + rng.choice([0.0, -0.125, 0.25, 0.5, -0.25]))
        return np.array(ts)
    raise ValueError(kind)


def time_residual(F, p, ts, method, u):
    """ORACLE: scaled residuals of the documented recurrences on the implementation's levels.
    Returns (worst scaled residual, index of the worst level)."""
    u = np.asarray(u, dtype=float)
    worst, where = 0.0, -1
    ic = fam_eval(F, p, ts[0])[2]
    if u.ndim != 2 or u.shape != (F["n"], len(ts)):
        return float("inf"), -2
    r0 = np.abs(u[:, 0] - ic).max() / (1.0 + np.abs(ic).max()) if F["n"] else 0.0
    worst, where = r0, 0
    for k in range(len(ts) - 1):
        dt = ts[k + 1] - ts[k]
        if method == "forward_euler":
            A, b, _ = fam_eval(F, p, ts[k])
            incr = dt * (A @ u[:, k] + b)
            res = u[:, k + 1] - (u[:, k] + incr)
            scale = 1.0 + np.abs(u[:, k]).max() + abs(dt) * (np.abs(A).sum(axis=1).max() * np.abs(u[:, k]).max() + np.abs(b).max())
        else:
            A, b, _ = fam_eval(F, p, ts[k + 1])
            res = u[:, k + 1] - dt * (A @ u[:, k + 1] + b) - u[:, k]
            scale = 1.0 + np.abs(u[:, k]).max() + np.abs(u[:, k + 1]).max() * (1.0 + abs(dt) * np.abs(A).sum(axis=1).max()) + abs(dt) * np.abs(b).max()
        r = float(np.abs(res).max() / scale) if res.size else 0.0
        if not np.isfinite(res).all():
            r = float("inf")
        if r > worst:
            worst, where = r, k + 1
    if worst <= TOL:
        _MARGINS["time_residual_max_pass"] = max(_MARGINS["time_residual_max_pass"], float(worst))
    return worst, where


# ----------------------------------------------------------------------------------------------- the check
def _install_fast_drive(ctx):
    """The first driver call goes through `ctx.lean.drive` (which builds the model modules under the shared lake lock); later
    calls of the same run pipe their lines to the same, already built driver directly — one lock acquisition per run instead
    of one per stream.  Same semantics as `drive` otherwise (one output line per input line, failure raises)."""
    import os, subprocess, time
    lean = ctx.lean
    orig = lean.drive
    state = {"built": False, "calls": 0, "lines": 0, "seconds": 0.0}
    ctx.extra_cov["c18_driver_calls"] = state

    def drive(lines, driver=None):
        if not lines:
            return []
        t0 = time.time()
        state["calls"] += 1; state["lines"] += len(lines)
        if driver is not None or not state["built"]:
            out = orig(lines, driver)
            state["built"] = state["built"] or driver is None
            state["seconds"] = round(state["seconds"] + time.time() - t0, 2)
            return out
        drv = lean.driver_file
        r = subprocess.run(["lake", "env", "lean", "--run", drv], cwd=os.path.dirname(os.path.dirname(os.path.abspath(drv))),
                           input="\n".join(lines) + "\n", capture_output=True, text=True, timeout=3000)
        out = r.stdout.split("\n")
        if out and out[-1] == "":
            out.pop()
        if r.returncode != 0 or len(out) != len(lines):
            raise RuntimeError(f"driver failed rc={r.returncode} got {len(out)} lines for {len(lines)}:\n" + r.stderr[-3000:] + "\n" + "\n".join(out[-5:]))
        state["seconds"] = round(state["seconds"] + time.time() - t0, 2)
        return out
    lean.drive = drive


def run(ctx):
    cuqi = import_cuqi()
    from cuqi.pde import SteadyStateLinearPDE, TimeDependentLinearPDE
    from cuqi.model import PDEModel
    from cuqi.geometry import Continuous1D, MappedGeometry
    rng = ctx.rng
    thorough = ctx.tier == "thorough"
    S = ctx.scale
    ctx.trusted += ["scipy.interpolate.interp1d(kind='quadratic') and RectBivariateSpline internals (their values off the nodes enter the model as data)",
                    "numpy.linalg / scipy.linalg.solve as the user's linear solver (its output is checked against the exact solve and by residual)"]
    ctx.assumptions += [f"float-vs-exact comparisons at rel+abs {TOL}; inputs are small dyadic rationals so that assembling is exact in floating point",
                        "forms come from the affine family A0+tA1+D^T diag(Ep) D / b0+t b1+Bp / c0+t c1+Cp (heat-type, Poisson-type, general non-symmetric)",
                        "backward Euler is exercised on forms for which I - dt A is well conditioned (plus random general forms screened by condition number)"]
    _install_fast_drive(ctx)
    _MARGINS.update(time_residual_max_pass=0.0, arr_same_max_ratio_pass=0.0)
    ctx.extra_cov["c18_margins"] = _MARGINS
    cov = {"time_method": {}, "time_flavour": {}, "time_grid": {}, "solver": {}, "obs_branch": {}, "tobs_class": {}, "gobs_class": {}, "om": {}, "errors": {}}
    ctx.extra_cov["c18"] = cov

    def bump(h, k):
        cov[h][k] = cov[h].get(k, 0) + 1

    # every stream is a generator: it yields its driver lines and receives the model's outputs; the lines of all streams go to
    # the driver in ONE call per round (the round-8 stream needs a second round)
    from harness.props.c18_testproblems import check_testproblem_models
    from harness.props.c18_history import check_object_histories
    from harness.props.c18_shapes import check_shapes
    from harness.props.c18_round8 import check_round8
    _np_state = np.random.get_state()      # (two streams seed numpy's global RNG for the test-problem constructors)
    try:
      _drive_together(ctx, [
        check_time_solve(ctx, cuqi, rng, 260 * S, bump),
        check_steady_solve(ctx, cuqi, rng, 120 * S, bump),
        check_grids(ctx, cuqi, rng, 80 * S),
        check_observe_time(ctx, cuqi, rng, 300 * S, bump),
        check_observe_steady(ctx, cuqi, rng, 120 * S, bump),
        check_pipeline(ctx, cuqi, rng, 150 * S, bump),
        check_gradient(ctx, cuqi, rng, 64 * S),
        check_solve_histories(ctx, cuqi, rng, 70 * S, bump),
        check_histories(ctx, cuqi, rng, 60 * S, bump),
        check_testproblems(ctx, cuqi, rng, thorough),
        check_testproblem_models(ctx, cuqi, rng, thorough),
        check_object_histories(ctx, cuqi, rng, 40 * S),
        check_shapes(ctx, cuqi, rng),
        check_round8(ctx, cuqi, rng),
      ])
    finally:
        np.random.set_state(_np_state)


def _drive_together(ctx, gens):
    active = []
    for g in gens:
        try:
            active.append((g, list(next(g))))
        except StopIteration:
            pass
    while active:
        all_lines = [ln for _, lines in active for ln in lines]
        outs = ctx.lean.drive(all_lines) if all_lines else []
        nxt, pos = [], 0
        for g, lines in active:
            part = outs[pos:pos + len(lines)]; pos += len(lines)
            try:
                nxt.append((g, list(g.send(part))))
            except StopIteration:
                pass
        active = nxt


# ----------------------------------------------------------------------------------------------- A. time stepping
METHODS = ["forward_euler", "backward_euler"]
ODD_METHODS = ["Forward_Euler", "BACKWARD_EULER", "Backward_euler", "rk4", "euler", ""]


def check_time_solve(ctx, cuqi, rng, ncases, bump):
    from cuqi.pde import TimeDependentLinearPDE
    cases, lines = [], []
    NBUF0 = 2 * len(TIME_FLAVOURS) + 2 * len(DT_VARIANTS) + 12
    for c in range(ncases):
        n = rng.randint(1, 5) if ctx.tier != "thorough" else rng.randint(1, 8)
        flavour = TIME_FLAVOURS[c % len(TIME_FLAVOURS)] if c < 4 * len(TIME_FLAVOURS) else rng.choice(TIME_FLAVOURS)
        bufdet = NBUF0 <= c < NBUF0 + 24
        if bufdet:      # always present: re-used buffers with time-/parameter-dependent contents, runs of equal steps
            flavour = ["op-t", "op-t", "heat-source-t", "ic-t", "op-p", "general"][(c - NBUF0) % 6]
            n = max(n, 2)
        if n == 1 and flavour in ("op-p",):
            n = 2
        F, npar = gen_time_family(rng, n, flavour)
        r = rng.random()
        method = rng.choice(METHODS) if r < 0.88 else rng.choice(ODD_METHODS)
        if c < 2 * len(TIME_FLAVOURS):
            method = METHODS[(c // len(TIME_FLAVOURS)) % 2]
        gridkind = rng.choice(["uniform", "nonuniform", "nonuniform", "wild", "blocks"]) if flavour != "general" or method != "backward_euler" else rng.choice(["uniform", "nonuniform", "blocks"])
        if bufdet:
            method = METHODS[((c - NBUF0) // 6) % 2]
            gridkind = ["blocks", "uniform"][((c - NBUF0) // 12) % 2]
        nt = rng.choice([1, 2, 2, 3, 4, 5, 6, 8]) if ctx.tier != "thorough" else rng.choice([1, 2, 3, 4, 5, 6, 8, 12, 16])
        nsig = 2 * len(TIME_FLAVOURS)
        if bufdet:
            nt = rng.choice([5, 6, 7])
        if c < nsig:              # always present: every flavour, both methods, on a re-scaled time axis
            nt = rng.choice([3, 4, 5]); gridkind = ["uniform", "nonuniform"][c % 2]
            if n == 1:
                n = 2; F, npar = gen_time_family(rng, n, flavour)
        ts = gen_times(rng, nt, gridkind)
        if flavour == "op-p":
            p = np.array([dy(rng, 0.25, 3, 4) for _ in range(npar)])
        else:
            p = dyv(rng, npar)
        skind = rng.choice(SOLVER_KINDS) if rng.random() < 0.8 else "default"
        if skind in ("t0", "raise") and rng.random() < 0.6:
            skind = rng.choice(["plain", "t2", "t3", "kw"])
        # backward Euler on arbitrary operators: keep I - dt A comfortably invertible (else both sides may
        # legitimately differ in *whether* a float LU notices singularity)
        if method.lower() == "backward_euler":
            bad = False
            for k in range(1, nt):
                A, _, _ = fam_eval(F, p, ts[k])
                M = np.eye(n) - (ts[k] - ts[k - 1]) * A
                if np.linalg.cond(M) > 1e4:
                    bad = True
            if bad:
                F["A0"] = laplace(n); F["A1"] = None; F["D"] = None; F["E"] = None
                ts = np.abs(ts - ts[0]).cumsum() if gridkind == "wild" else ts
                ok = all(np.linalg.cond(np.eye(n) - (ts[k] - ts[k - 1]) * fam_eval(F, p, ts[k])[0]) <= 1e4 for k in range(1, nt))
                if not ok:
                    continue
        nvar0 = nsig + 2 * len(DT_VARIANTS)
        if nvar0 <= c < nvar0 + 12 or (c >= nvar0 + 12 and rng.random() < 0.12):
            # operator structure changing between consecutive assemblies (default solver may exploit structure: it must look at the CURRENT operator)
            det = c < nvar0 + 12
            n = max(n, 2)
            method = "backward_euler" if det or rng.random() < 0.8 else "forward_euler"
            for _try in range(12):
                nt = rng.choice([2, 3, 4, 5])
                ts = np.cumsum([0.0] + [rng.choice([0.0625, 0.125, 0.25]) for _ in range(nt - 1)])
                if rng.random() < 0.3 and not det:
                    ts = ts + dy(rng, -1, 1, 2)
                F, npar, flavour = gen_structure_family(rng, n, ts, k_star=(0 if det and c % 2 == 0 else None),
                                                        s_kind=(STRUCT_S[(c - nvar0) % len(STRUCT_S)] if det else None), n_kind=(STRUCT_N[(c - nvar0) % len(STRUCT_N)] if det else None))
                p = dyv(rng, npar)
                if all(np.linalg.cond(np.eye(n) - (ts[k] - ts[k - 1]) * fam_eval(F, p, ts[k])[0]) <= 50 for k in range(1, nt)):
                    break
            else:
                continue
            gridkind = "structure"
            skind = rng.choice(DEFAULTISH) if det or rng.random() < 0.8 else rng.choice(["plain", "t2", "kw"])
        sigma = SIGMAS[c % len(SIGMAS)] if c < nsig else (rng.choice(SIGMAS) if rng.random() < 0.2 else 1.0)
        if gridkind == "structure":
            sigma = 1.0
        if sigma != 1.0:
            F, ts = scale_time(F, ts, sigma)
            gridkind = gridkind + f":x{sigma:.0e}"
        variant = None
        if nsig <= c < nsig + 2 * len(DT_VARIANTS) or (c >= nsig + 2 * len(DT_VARIANTS) and rng.random() < 0.12):
            variant = DT_VARIANTS[(c - nsig) % len(DT_VARIANTS)] if c < nsig + 2 * len(DT_VARIANTS) else rng.choice(DT_VARIANTS)
            method = "forward_euler" if variant == "f32-all" else METHODS[((c - nsig) // len(DT_VARIANTS)) % 2] if c < nsig + 2 * len(DT_VARIANTS) else rng.choice(METHODS)
            n = max(n, 2)
            F, npar, p, ts = dtype_time_case(rng, n, variant)
            skind = rng.choice(["default", "plain", "t2"]); flavour = "dtype-" + variant; gridkind = "dtype"
        bufmode = None
        if variant is None and (bufdet or rng.random() < 0.25):
            bufmode = ["dense", "sparse"][c % 2] if bufdet else rng.choice(["dense", "dense", "sparse"])
            if bufdet:
                skind = (DEFAULTISH + ["plain", "t2", "kw"])[(c - NBUF0) % 8]
        cases.append(dict(n=n, flavour=flavour, F=F, p=p, method=method, ts=ts, skind=skind, gridkind=gridkind, variant=variant, bufmode=bufmode))
        _, _, dk = make_solver(skind)
        lines.append(f"time {n} {method if method else '-'} {dk} {qv(ts)} {fam_tokens(F)} {qv(p)}")
    outs = yield lines
    for cs, out in zip(cases, outs):
        n, F, p, method, ts, skind = cs["n"], cs["F"], cs["p"], cs["method"], cs["ts"], cs["skind"]
        desc = {"n": n, "flavour": cs["flavour"], "method": method, "ts": [float(t) for t in ts], "solver": skind,
                "p": [float(x) for x in p], "grid": cs["gridkind"]}
        mclass = method if method in METHODS else ("othercase" if method.lower() in METHODS else "invalid")
        bump("time_method", mclass); bump("time_flavour", cs["flavour"]); bump("time_grid", cs["gridkind"] + f":nt{min(len(ts), 4)}"); bump("solver", skind)
        ctx.case("time-solve", desc, nontrivial=(len(ts) >= 2 and method in METHODS))
        key = f"TimeDependentLinearPDE.solve:{mclass}:{cs['flavour']}"
        calls = []

        if cs.get("variant"):
            vform, p_in, ts_in = dtype_views(cs["variant"], F, p, ts)
        else:
            vform, p_in, ts_in = (lambda par, t, F=F: fam_eval(F, par, t)), p.copy(), ts.copy()
        if cs.get("bufmode"):
            vform = buffered_form(vform, n, cs["bufmode"])
            desc["PDE_form_buffers"] = cs["bufmode"]
            key = key + ":buffers"

        def form(par, t, calls=calls, vform=vform):
            calls.append(float(t))
            return vform(par, t)
        solver, kwargs, _ = make_solver(skind)
        impl_err, u, info = None, None, None
        before = snap(p_in, ts_in)
        try:
            with quiet():
                pde = TimeDependentLinearPDE(form, ts_in, method=method, linalg_solve=solver, linalg_solve_kwargs=kwargs)
                pde.assemble(p_in)
                u, info = pde.solve()
        except Exception as e:  # noqa
            impl_err = errname(e)
        sh = getattr(vform, "shared", None)
        if snap(p_in, ts_in) != before or (sh and not (np.array_equal(sh["A"], fam_eval(F, p, ts[0])[0]) and np.array_equal(sh["b"], fam_eval(F, p, ts[0])[1]))):
            ctx.fail(key + ":caller-array-modified", desc, "parameter, time grid and the arrays returned by PDE_form unchanged", "modified in place",
                     "solve() modifies an array owned by the caller")
        if impl_err:
            bump("errors", "time:" + impl_err)
        # ---- oracle on the implementation's result
        oracle_bad = None
        if impl_err is None:
            res, where = time_residual(F, p, ts, method.lower(), u)
            if not (res <= TOL):
                oracle_bad = (res, where)
                ctx.fail(key, desc, f"level {where} satisfies the {method.lower()} relation / initial condition (scaled residual <= {TOL})",
                         f"scaled residual {res:.3e}; u={short(u)}",
                         "a stored time level does not satisfy the documented one-step relation")
        if impl_err is None and cs.get("bufmode"):
            # the same run with a PDE_form that returns FRESH arrays at every call must give the same levels
            try:
                with quiet():
                    s2, k2, _ = make_solver(skind)
                    pf = TimeDependentLinearPDE(lambda par, t, F=F: fam_eval(F, par, t), ts.copy(), method=method, linalg_solve=s2, linalg_solve_kwargs=k2)
                    pf.assemble(p.copy()); uf, _ = pf.solve()
                if not arr_same(np.asarray(uf, dtype=float), np.asarray(u, dtype=float), 1e-12):
                    ctx.fail(key, desc, "the levels obtained when PDE_form returns fresh arrays: " + short(uf), short(u),
                             "solve() depends on the identity of the arrays PDE_form returns (re-used buffers with new contents)")
            except Exception:
                pass
        # ---- tie
        if out.startswith("err:"):
            mcls = out[4:]
            if impl_err is None:
                if mcls == "UnboundLocalError" and oracle_bad is None:
                    # the code dies on an unbound local for these inputs; returning a *correct* solution instead is not a violation
                    ctx.note(f"implementation returns a correct solution where the pinned code raised UnboundLocalError: {desc['method']} nt={len(ts)}")
                else:
                    ctx.disagree(key, desc, out, f"ok {short(u)}", "model refuses, implementation returns")
                    if oracle_bad is None and mclass == "invalid":
                        # documented contract of the setter: only the two Euler methods exist; a value for anything else has no recurrence to satisfy
                        ctx.fail(key, desc, "ValueError: method can be set to either `forward_euler` or `backward_euler`", f"returned {short(u)}",
                                 "a time-stepping method that is neither Euler method is accepted and produces a solution")
            elif impl_err != mcls:
                if {impl_err, mcls} <= {"UnboundLocalError", "IndexError", "SolverError", "ValueError"} and False:
                    pass
                ctx.disagree(key + ":errclass", desc, out, impl_err, "different exception class")
                ctx.note(f"exception class differs (not a property failure): model {mcls} impl {impl_err} at {desc}")
                # harmless by itself: both refuse.  Recorded as a note; remove the disagreement again
                ctx.disagreements.pop()
            continue
        toks = out.split(" ")
        if impl_err is not None:
            ctx.disagree(key, desc, out[:120], "err:" + impl_err, "implementation refuses, model returns")
            ctx.fail(key, desc, "a solution satisfying the recurrence", "err:" + impl_err, "time stepper raises on a valid input")
            continue
        levels = np.array([[float(x) for x in r] for r in pm(toks[1])], dtype=float).reshape(len(ts), n)
        if not arr_same(levels.T, u):
            ctx.disagree(key, desc, short(levels.T), short(u), "stored levels differ")
        if not info_matches(toks[2], info):
            ctx.disagree(key + ":info", desc, toks[2], repr(info), "info differs")
        # oracle for info (independent of the model): what the user's solver returned after the solution in the last solve
        want_info = None
        if method == "backward_euler" and len(ts) >= 2 and skind in ("t1", "t2", "t3"):
            dtl = ts[-1] - ts[-2]
            Al, bl, _ = fam_eval(F, p, ts[-1])
            rhs0 = float(u[0, -2] + dtl * bl[0]); a00 = float(1.0 - dtl * Al[0, 0])
            want_info = {"t1": (), "t2": (rhs0,), "t3": (rhs0, a00)}[skind]
        ok_info = (info is None) if want_info is None else (isinstance(info, tuple) and len(info) == len(want_info) and all(close(a, b, 1e-8) for a, b in zip(info, want_info)))
        if not ok_info:
            ctx.fail(key + ":info", desc, f"info = {want_info!r} (the solver's extra return values of the last solve; None if there are none)", repr(info),
                     "extra return values of the linear solver are not reported as info")
        mcalls = [float(x) for x in pv(toks[3])]
        if mcalls != calls:
            ctx.disagree(key + ":calls", desc, mcalls, calls, "PDE_form evaluated at other times")
            if oracle_bad is None:
                ctx.note(f"form evaluated at other times than the model predicts, result still satisfies the recurrence: {desc}")
                ctx.disagreements.pop()


# ----------------------------------------------------------------------------------------------- B. steady state
def check_steady_solve(ctx, cuqi, rng, ncases, bump):
    from cuqi.pde import SteadyStateLinearPDE
    cases, lines = [], []
    for c in range(ncases):
        n = rng.randint(1, 6)
        flavour = rng.choice(["poisson", "poisson", "source", "general"])
        F = {"n": n}
        if flavour == "poisson":      # Poisson1D: A = D^T diag(p) D, b fixed
            npar = n + 1
            F.update(D=fd(n, rng.choice([1.0, 0.5])), E=np.eye(n + 1), b0=dyv(rng, n))
            gen_p = lambda: np.array([dy(rng, 0.25, 3, 4) for _ in range(npar)])
        elif flavour == "source":     # parameter in the right-hand side
            npar = rng.randint(1, 3)
            F.update(A0=-laplace(n), b0=dyv(rng, n), B=dym(rng, n, npar))
            gen_p = lambda: dyv(rng, npar)
        else:
            npar = rng.randint(1, 3)
            A0 = dym(rng, n, n, -3, 3, 1) + 4 * np.eye(n)
            if np.linalg.cond(A0) > 1e3:
                A0 = 8 * np.eye(n) + np.triu(A0, 1)
            F.update(A0=A0, b0=dyv(rng, n), B=dym(rng, n, npar))
            gen_p = lambda: dyv(rng, npar)
        skind = rng.choice(SOLVER_KINDS)
        svariant = None
        if c < 8 or rng.random() < 0.1:
            # (G1) integer-valued data handed over as int64 / int32 / float32 / lists; (G4) operator and source scaled together
            svariant = ["int", "int32", "f32-rhs", "list-p", "scale-1e-12", "scale-1e9", "0d-scalar-n1", "int"][c % 8] if c < 8 else rng.choice(["int", "int32", "f32-rhs", "list-p", "scale-1e-12", "scale-1e9"])
            flavour = "dtype-" + svariant
            if svariant == "0d-scalar-n1":
                n = 1
            npar = n
            F = {"n": n, "A0": -laplace(n) + np.diag([float(rng.randint(0, 2)) for _ in range(n)]), "b0": np.array([float(rng.randint(-3, 3)) for _ in range(n)]), "B": np.eye(n)}
            if svariant.startswith("scale"):
                sc = 1e-12 if svariant == "scale-1e-12" else 1e9
                F = {"n": n, "A0": F["A0"] * sc, "b0": F["b0"] * sc, "B": F["B"] * sc}
            gen_p = lambda: np.array([float(rng.randint(-3, 3)) for _ in range(npar)])
            skind = rng.choice(["default", "plain", "t2"])
        ops = []
        hist = rng.choice(["a s", "a s", "s a s", "a a s", "a s a s s", "s"])
        for o in hist.split():
            ops.append(("a", gen_p()) if o == "a" else ("s", None))
        if c % 11 == 10 and svariant is None:   # singular operator: the solver must raise, not return garbage
            F["A0"] = np.zeros((n, n)); F["D"] = None; F["E"] = None
        cases.append(dict(n=n, F=F, ops=ops, skind=skind, flavour=flavour, npar=npar, svariant=svariant))
        _, _, dk = make_solver(skind)
        optok = "|".join("s" if o == "s" else "a:" + qv(p) for o, p in ops)
        lines.append(f"steady {n} {dk} {fam_tokens(F)} {npar} {optok}")
    outs = yield lines
    for cs, out in zip(cases, outs):
        n, F, ops, skind = cs["n"], cs["F"], cs["ops"], cs["skind"]
        desc = {"n": n, "flavour": cs["flavour"], "solver": skind, "ops": [[o, None if p is None else [float(x) for x in p]] for o, p in ops]}
        ctx.case("steady-solve", desc)
        bump("solver", skind)
        key = f"SteadyStateLinearPDE.solve:{cs['flavour']}:{skind}"
        solver, kwargs, _ = make_solver(skind)
        sv = cs.get("svariant")

        def form(par, F=F, sv=sv):
            A, b, _ = fam_eval(F, par, 0.0)
            if sv == "int":
                return A.astype(np.int64), b.astype(np.int64)
            if sv == "int32":
                return A.astype(np.int32), b.astype(np.int32)
            if sv == "f32-rhs":
                return A, b.astype(np.float32)
            return A, b

        def as_passed(par, sv=sv):
            if sv in ("int", "int32"):
                return par.astype(np.int64 if sv == "int" else np.int32)
            if sv == "f32-rhs":
                return par.astype(np.float32)
            if sv == "list-p":
                return [int(x) for x in par]
            return par.copy()
        if sv is None and rng.random() < 0.35:      # operator / right-hand side written into re-used buffers (same objects, new contents per assemble)
            bm = rng.choice(["dense", "sparse"]) if skind in ("plain", "kw", "t1", "t2", "t3") else "dense"   # scipy.linalg.solve itself takes no sparse operator
            form = buffered_steady_form(form, n, bm)
            desc["PDE_form_buffers"] = bm
            key = key + ":buffers"
        with quiet():
            pde = SteadyStateLinearPDE(form, linalg_solve=solver, linalg_solve_kwargs=kwargs)
        mouts = out.split("|")
        k = 0
        cur = None
        for o, par in ops:
            if o == "a":
                par_in = as_passed(par)
                before = snap(par_in)
                with quiet():
                    pde.assemble(par_in)
                cur = par
                continue
            mo = mouts[k]; k += 1
            impl_err, u, info = None, None, None
            try:
                with quiet():
                    u, info = pde.solve()
            except Exception as e:  # noqa
                impl_err = errname(e)
            if cur is not None and snap(par_in) != before:
                ctx.fail(key + ":caller-array-modified", desc, "parameter passed by the caller unchanged", "modified in place", "assemble/solve modifies the caller's parameter")
            if impl_err:
                bump("errors", "steady:" + impl_err)
            oracle_bad = False
            if impl_err is None:
                if cur is None:
                    oracle_bad = True
                    ctx.fail(key, desc, "refusal: nothing assembled", short(u), "solve() before assemble() returns a value")
                else:
                    A, b, _ = fam_eval(F, cur, 0.0)
                    uu = np.asarray(u, dtype=float)
                    den = np.abs(b).max() + np.abs(A).sum(axis=1).max() * np.abs(uu).max() if uu.shape == (n,) else 1.0      # relative: no absolute floor
                    res = np.abs(A @ uu - b).max() / (den if den > 0 else 1.0) if uu.shape == (n,) else float("inf")
                    if not res <= TOL:
                        oracle_bad = True
                        ctx.fail(key, desc, f"A(p) u = b(p) for the parameter assembled last (scaled residual <= {TOL})", f"residual {res:.3e} u={short(u)}",
                                 "steady solution does not satisfy the assembled system")
            if mo.startswith("err:"):
                if impl_err is None:
                    ctx.disagree(key, desc, mo, short(u), "model refuses, implementation returns")
                elif impl_err != mo[4:]:
                    ctx.note(f"exception class differs (both refuse): model {mo} impl {impl_err} at steady {desc['ops']}")
                continue
            if impl_err is not None:
                ctx.disagree(key, desc, mo[:100], "err:" + impl_err, "implementation refuses, model returns")
                ctx.fail(key, desc, "a solution of the assembled system", "err:" + impl_err, "steady solve raises on a valid input")
                continue
            toks = mo.split(" ")
            um = np.array([float(x) for x in pv(toks[1])])
            if not arr_same(um, u):
                ctx.disagree(key, desc, short(um), short(u), "solution differs")
            if not info_matches(toks[2], info):
                ctx.disagree(key + ":info", desc, toks[2], repr(info), "info differs")
            A_, b_, _ = fam_eval(F, cur, 0.0)
            want_info = {"t1": (), "t2": (float(b_[0]),), "t3": (float(b_[0]), float(A_[0, 0]))}.get(skind)
            ok_info = (info is None) if want_info is None else (isinstance(info, tuple) and len(info) == len(want_info) and all(close(a, b, 1e-9) for a, b in zip(info, want_info)))
            if not ok_info:
                ctx.fail(key + ":info", desc, f"info = {want_info!r} (the solver's extra return values; None if it returns only the solution)", repr(info),
                         "extra return values of the linear solver are not reported as info")


# ----------------------------------------------------------------------------------------------- C. grid setters
def check_grids(ctx, cuqi, rng, ncases):
    from cuqi.pde import SteadyStateLinearPDE, TimeDependentLinearPDE
    pool = [None, np.array([0.0, 1.0, 2.0]), np.array([0.0, 1.0, 2.0]), np.array([0.0, 1.0, 2.5]), np.array([0.0, 1.0]),
            np.array([0.5, 1.5]), np.array([0.0, 0.5, 1.0, 1.5])]
    ntol0 = len(pool)
    for kind in TOL_GRIDS:     # pairs a tolerance-based comparison would call equal
        g, g2, _, _, _ = tolerance_pair(rng, 3, kind)
        pool += [g, g2, g.copy()]
    nint0 = len(pool)
    for base in (np.array([0.0, 1.0, 2.0, 3.0]), np.array([0.0, 0.5, 1.0, 1.5, 2.0]), np.arange(6, dtype=float)):
        pool += [base, interior_shift(rng, base)[0]]        # same length, same end nodes, interior node(s) moved
    cases, lines = [], []
    for c in range(ncases):
        a, b = rng.choice(pool), rng.choice(pool)
        if c < 2 * len(TOL_GRIDS):
            a, b = pool[7 + 3 * (c // 2)], pool[7 + 3 * (c // 2) + 1 + (c % 2)]     # shifted copy / exact copy
        elif c < 2 * len(TOL_GRIDS) + 6:
            j = (c - 2 * len(TOL_GRIDS)) // 2
            a, b = (pool[nint0 + 2 * j], pool[nint0 + 2 * j + 1]) if c % 2 == 0 else (pool[nint0 + 2 * j + 1], pool[nint0 + 2 * j])
        ops = [("init", a, b)]
        for _ in range(rng.randint(0, 4)):
            ops.append((rng.choice(["sol", "obs"]), rng.choice(pool), None))
        cases.append(ops)
        toks = [f"init:{grid_tok(a)}:{grid_tok(b)}"] + [f"{o}:{grid_tok(v)}" for o, v, _ in ops[1:]]
        lines.append("grids " + "|".join(toks))
    outs = yield lines
    for ops, out in zip(cases, outs):
        desc = {"ops": [[o, None if a is None else a.tolist(), None if (b is None or o != "init") else b.tolist()] for o, a, b in ops]}
        ctx.case("grid-setters", desc, nontrivial=len(ops) > 1)
        key = "PDE.grids:setters"
        cls = rng.choice([SteadyStateLinearPDE, TimeDependentLinearPDE])
        states = []
        with quiet():
            if cls is SteadyStateLinearPDE:
                pde = cls(lambda p: (np.eye(2), p), grid_sol=ops[0][1], grid_obs=ops[0][2])
            else:
                pde = cls(lambda p, t: (np.eye(2), p, p), np.array([0.0, 1.0]), grid_sol=ops[0][1], grid_obs=ops[0][2])
            states.append((bool(pde.grids_equal), pde.grid_sol, pde.grid_obs))
            for o, v, _ in ops[1:]:
                if o == "sol":
                    pde.grid_sol = v
                else:
                    pde.grid_obs = v
                states.append((bool(pde.grids_equal), pde.grid_sol, pde.grid_obs))
        impl = "|".join(f"{int(e)}:{grid_tok(s)}:{grid_tok(o)}" for e, s, o in states)
        # oracle: the flag says whether observation needs no interpolation: it must be True exactly when the two
        # grids hold the same nodes (or one is absent, which the class documents as "assumed equal")
        bad = None
        for e, s, o in states:
            want = True if (s is None or o is None) else (len(s) == len(o) and bool(np.all(np.asarray(s) == np.asarray(o))))
            if e != want:
                bad = (e, s, o)
        if bad is not None:
            ctx.fail(key, desc, "grids_equal == (grid_sol and grid_obs hold the same nodes)", repr(bad), "grids_equal flag is stale after a grid assignment")
        # stored grids: grid_sol is what was assigned last; grid_obs is what was assigned last, an assigned None meaning
        # "the solution grid (as it is at that moment)"
        es, eo = None, None
        same = lambda x, y: (x is None and y is None) or (x is not None and y is not None and len(x) == len(y) and bool(np.all(np.asarray(x) == np.asarray(y))))
        for (o, a, b), (e, s_, o_) in zip(ops, states):
            if o == "init":
                es = a; eo = b if b is not None else es
            elif o == "sol":
                es = a
            else:
                eo = a if a is not None else es
            if not (same(es, s_) and same(eo, o_)) and bad is None:
                bad = (s_, o_)
                ctx.fail(key, desc, f"grid_sol={None if es is None else es.tolist()} grid_obs={None if eo is None else eo.tolist()}",
                         f"grid_sol={None if s_ is None else np.asarray(s_).tolist()} grid_obs={None if o_ is None else np.asarray(o_).tolist()}",
                         "stored grids are not the ones assigned (grid_obs=None must mean the solution grid)")
        if impl != out:
            ctx.disagree(key, desc, out, impl, "grid attributes after the setter sequence differ")


# ----------------------------------------------------------------------------------------------- D. observe (time dependent)
UNSORTED_KINDS = ["subset-shuffled", "subset-decreasing", "subset-repeats", "subset-repeats-sorted", "mixed-unsorted", "mixed-repeats"]


def unsorted_obs_grid(rng, gs, kind=None):
    """observation grids given as a LIST: arbitrary order, repeated nodes, on-node and off-node points mixed.
    Demanded: output[i] is the value at grid_obs[i] (interp1d accepts such points; RectBivariateSpline refuses
    decreasing evaluation grids and accepts sorted repeats)."""
    N = len(gs)
    kind = kind or rng.choice(UNSORTED_KINDS)
    def offnode():
        x = dy(rng, gs[0], gs[-1], 8)
        return x if x not in set(gs.tolist()) else float((gs[0] + gs[1]) / 2)
    if kind == "subset-shuffled":
        idx = rng.sample(range(N), rng.randint(2, N))
        if idx == sorted(idx):
            idx = idx[::-1]
        pts = [float(gs[i]) for i in idx]
    elif kind == "subset-decreasing":
        idx = sorted(rng.sample(range(N), rng.randint(2, N)), reverse=True)
        pts = [float(gs[i]) for i in idx]
    elif kind in ("subset-repeats", "subset-repeats-sorted"):
        idx = [rng.randrange(N) for _ in range(rng.randint(2, N + 1))]
        idx.append(idx[0])
        rng.shuffle(idx)
        if kind == "subset-repeats-sorted":
            idx = sorted(idx)
        elif idx == sorted(idx):
            idx = idx[::-1]
        pts = [float(gs[i]) for i in idx]
    else:
        pts = [float(gs[rng.randrange(N)]) for _ in range(rng.randint(1, 3))] + [offnode() for _ in range(rng.randint(1, 3))]
        if kind == "mixed-repeats":
            pts += [pts[0], pts[-1]]
        rng.shuffle(pts)
        if pts == sorted(pts):
            pts = pts[::-1]
    return np.array(pts, dtype=float), kind


def interior_shift(rng, gs):
    """equal length, same first and last node (and most nodes), one or two INTERIOR nodes moved by a fraction of a cell"""
    N = len(gs)
    g2 = np.array(gs, dtype=float).copy()
    for j in rng.sample(range(1, N - 1), 1 if N < 5 or rng.random() < 0.6 else 2):
        frac = rng.choice([0.5, 0.25, -0.25, 0.125])
        g2[j] = gs[j] + frac * ((gs[j + 1] - gs[j]) if frac > 0 else (gs[j] - gs[j - 1]))
    assert g2[0] == gs[0] and g2[-1] == gs[-1] and np.any(g2 != gs) and np.all(np.diff(g2) > 0)
    return g2, "interior-shift"


def gen_obs_grid(rng, gs, allow_none=True):
    """(grid_obs argument, class label)"""
    if len(gs) >= 4 and rng.random() < 0.07:
        return interior_shift(rng, gs)
    if len(gs) >= 3 and rng.random() < 0.22:
        return unsorted_obs_grid(rng, gs)
    r = rng.random()
    N = len(gs)
    if r < 0.18 and allow_none:
        return None, "none"
    if r < 0.30:
        return gs.copy(), "equal-copy"
    if r < 0.50:
        k = rng.randint(1, N - 1)
        idx = sorted(rng.sample(range(N), k))
        return gs[idx].copy(), "subset"
    if r < 0.70:
        k = rng.randint(1, N)
        pts = sorted(set(dy(rng, gs[0], gs[-1], 8) for _ in range(k)))
        pts = [x for x in pts if x not in set(gs.tolist())] or [(gs[0] + gs[1]) / 2]
        return np.array(pts), "off-node"
    if r < 0.88:
        k = rng.randint(2, N + 1)
        pts = sorted(set([dy(rng, gs[0], gs[-1], 8) for _ in range(k)] + [float(rng.choice(gs.tolist()))]))
        return np.array(pts), "mixed"
    # same length, different nodes
    g2 = gs.copy(); j = rng.randint(0, N - 2); g2[j] = (gs[j] + gs[j + 1]) / 2 if j > 0 else gs[0]
    if j == 0:
        g2[1] = (gs[1] + gs[2]) / 2 if N > 2 else g2[1]
    return g2, "same-length-different"


def gen_tobs(rng, ts):
    """(time_obs argument, driver token, class label)"""
    r = rng.random()
    T = float(ts[-1])
    nt = len(ts)
    if nt >= 4 and np.all(np.diff(ts) > 0) and rng.random() < 0.07:
        # as many observation times as time steps, same first and last time, interior time(s) moved: NOT 'all'
        v, _ = interior_shift(rng, ts)
        return v, "v:" + qv(v), "interior-shift-times"
    if r < 0.18:
        s = rng.choice(["final", "FINAL", "Final"]); return s, "str:" + s, "final"
    if r < 0.32:
        s = rng.choice(["all", "ALL", "All"]); return s, "str:" + s, "all"
    if r < 0.36:
        s = rng.choice(["every", "last", "finall"]); return s, "str:" + s, "bad-string"
    if r < 0.39:
        return None, "none", "none"
    if r < 0.47:
        return np.array([T]), "v:" + qv([T]), "explicit-final"
    if r < 0.53:
        k = rng.choice([2, 2, 3])
        return np.array([T] * k), "v:" + qv([T] * k), f"all-final-len{k}"
    if r < 0.56:
        return np.array([]), "v:_", "all-final-len0"
    if r < 0.72:
        k = rng.randint(1, nt)
        idx = sorted(rng.sample(range(nt), k))
        v = ts[idx]
        return v.copy(), "v:" + qv(v), "on-step" if not (k == 1 and idx[0] == nt - 1) else "explicit-final"
    if r < 0.86:
        k = rng.randint(1, 3)
        v = sorted(set(dy(rng, ts[0], ts[-1], 16) for _ in range(k)))
        v = [x for x in v if x not in set(ts.tolist())] or [(ts[0] + ts[1]) / 2 if nt > 1 else ts[0] + 0.5]
        return np.array(v), "v:" + qv(v), "off-step"
    if r < 0.93 or nt < 2:
        k = rng.randint(1, 3)
        v = sorted(set([dy(rng, ts[0], ts[-1], 16) for _ in range(k)] + [float(rng.choice(ts.tolist()))]))
        lab = "mixed-step"
        return np.array(v), "v:" + qv(v), lab
    # time lists with repeats (accepted by the spline when sorted) or in arbitrary order (the spline refuses them)
    idx = [rng.randrange(nt - 1) for _ in range(rng.randint(1, 3))]
    idx.append(idx[0])
    if r < 0.965:
        idx = sorted(idx); lab = "on-step-repeats-sorted"
    else:
        idx = sorted(set(idx + [nt - 1]), reverse=True); lab = "on-step-decreasing"
    v = [float(ts[i]) for i in idx]
    return np.array(v), "v:" + qv(v), lab


def expected_observation(gs, ts, U, go, tobs, interp_direct):
    """ORACLE reference for the pre-map observation: exact restriction at coinciding (node, time), scipy elsewhere.
    Returns ndarray (|go|, |tobs|) or None when it cannot be formed (interpolant refuses and some entry needs it)."""
    out = np.full((len(go), len(tobs)), np.nan)
    gsl, tsl = gs.tolist(), ts.tolist()
    need = False
    for a, x in enumerate(go):
        for b, t in enumerate(tobs):
            if x in gsl and t in tsl:
                out[a, b] = U[gsl.index(x), tsl.index(t)]
            else:
                need = True
    if need:
        if interp_direct is None:
            return None
        mask = np.isnan(out)
        out[mask] = interp_direct[mask]
    return out


def check_observe_time(ctx, cuqi, rng, ncases, bump):
    from cuqi.pde import TimeDependentLinearPDE
    cases, lines = [], []
    for c in range(ncases):
        N = rng.choice([4, 5, 6, 7]) if rng.random() < 0.93 else rng.choice([2, 3])
        nt = rng.choice([4, 5, 6, 8]) if rng.random() < 0.92 else rng.choice([1, 2, 3])
        hs = [rng.choice([0.25, 0.5, 1.0]) for _ in range(N - 1)]
        gs = np.concatenate([[dy(rng, -1, 1, 2)], np.zeros(N - 1)])
        for i in range(1, N):
            gs[i] = gs[i - 1] + hs[i - 1]
        ts = gen_times(rng, nt, rng.choice(["uniform", "nonuniform"]))
        go, gclass = gen_obs_grid(rng, gs) if N >= 3 else (None, "none")
        tobs, ttok, tclass = gen_tobs(rng, ts)
        if c % 6 == 0:           # make sure the direct branch with an equal copy and the final time is frequent
            go, gclass = (gs.copy(), "equal-copy") if c % 2 else (None, "none")
        grid_sol_none = rng.random() < 0.05
        if c < 3:                # always present: equal grids and time_obs = the final time repeated / no time at all
            go, gclass = (gs.copy(), "equal-copy") if c == 1 else (None, "none")
            T = float(ts[-1]); k = [2, 3, 0][c]
            tobs, ttok, tclass = np.array([T] * k), "v:" + qv([T] * k), f"all-final-len{k}"
            grid_sol_none = False
        if 3 <= c < 3 + 2 * len(TOL_GRIDS) or (c >= 40 and rng.random() < 0.10):
            # grids / times that differ by less than a tolerance-based comparison would notice: exact comparison is demanded
            kind = TOL_GRIDS[(c - 3) % len(TOL_GRIDS)] if c < 40 else None
            N = max(N, 4); nt = max(nt, 4); grid_sol_none = False
            if c % 2 == 1 or c >= 40 and rng.random() < 0.5:      # shifted observation grid, final time
                gs, go, nm, _, _ = tolerance_pair(rng, N, kind)
                gclass = "tolerance-shift-" + nm
                ts = gen_times(rng, nt, rng.choice(["uniform", "nonuniform"]))
                s_ = rng.choice(["final", "FINAL"]); tobs, ttok, tclass = s_, "str:" + s_, "final"
            else:                                                 # equal grids, observation time a hair before the final time
                nm, off, sp, sh = kind or rng.choice(TOL_GRIDS)
                gs = 0.5 * np.arange(N, dtype=float)
                ts = off + sp * np.arange(nt, dtype=float)
                tnear = float(ts[-1] - sh)
                assert np.allclose(ts[-1:], [tnear]) and tnear != ts[-1]
                go, gclass = (None, "none") if rng.random() < 0.5 else (gs.copy(), "equal-copy")
                tobs, ttok, tclass = np.array([tnear]), "v:" + qv([tnear]), "near-final-" + nm
        c1 = 3 + 2 * len(TOL_GRIDS) + 4
        if c1 <= c < c1 + 3:       # always present: same length and end nodes, interior node(s) moved; the final time; identity map
            N = max(N, 5); nt = max(nt, 4)
            gs = np.cumsum([0.0] + [rng.choice([0.5, 1.0]) for _ in range(N - 1)]); ts = gen_times(rng, nt, "nonuniform")
            go, gclass = interior_shift(rng, gs)
            grid_sol_none = False
            tobs, ttok, tclass = "final", "str:final", "final"
        if c1 + 3 <= c < c1 + 7:   # always present: equal grids; one observation time per time step, ends equal, interior moved / all shifted within allclose
            N = max(N, 4); nt = max(nt, 5); grid_sol_none = False
            gs = 0.5 * np.arange(N, dtype=float)
            go, gclass = (None, "none") if c % 2 else (gs.copy(), "equal-copy")
            if c - (c1 + 3) < 2:
                ts = gen_times(rng, nt, "nonuniform")
                v, _ = interior_shift(rng, ts); tobs, ttok, tclass = v, "v:" + qv(v), "interior-shift-times"
            else:
                ts, v, nm, _, _ = tolerance_pair(rng, nt, TOL_GRIDS[c % len(TOL_GRIDS)])
                tobs, ttok, tclass = v, "v:" + qv(v), "tolerance-shift-times-" + nm
        c0 = 3 + 2 * len(TOL_GRIDS)
        if c0 <= c < c0 + 4 and N >= 4:      # always present: observation nodes as a list (sorted repeats are accepted by the spline, other orders refused)
            go, gclass = unsorted_obs_grid(rng, gs, ["subset-repeats-sorted", "subset-repeats-sorted", "subset-decreasing", "subset-shuffled"][c - c0])
            grid_sol_none = False
            if c - c0 < 2:
                nt = max(nt, 4); ts = gen_times(rng, nt, "nonuniform")
                tobs, ttok, tclass = "final", "str:final", "final"
        if tclass == "all-final-len0" and (grid_sol_none or gclass not in ("none", "equal-copy")):
            # an array with a zero-length time axis has no faithful list representation on the interpolation branch
            tobs, ttok, tclass = np.array([float(ts[-1])]), "v:" + qv([float(ts[-1])]), "explicit-final"
        ndim = 3 if (rng.random() < 0.08 and not gclass.startswith("tolerance") and not tclass.startswith("near-final") and "shift-times" not in tclass) else 2
        odt = rng.choice(["int-U", "f32-U", "int-grids"]) if rng.random() < 0.12 else None
        if odt == "int-grids" and (gclass.startswith("tolerance") or tclass.startswith("near-final") or grid_sol_none):
            odt = "int-U"
        if odt == "int-grids":      # integer-valued nodes and times handed over as integer arrays
            gs = np.arange(N, dtype=float) + float(rng.randint(-2, 2)); ts = np.arange(nt, dtype=float)
            go, gclass = gen_obs_grid(rng, gs) if N >= 3 else (None, "none")
            tobs, ttok, tclass = gen_tobs(rng, ts)
            while tclass.startswith("all-final-len0"):
                tobs, ttok, tclass = gen_tobs(rng, ts)
        U = dym(rng, N, nt, -4, 4, 4)
        if odt in ("int-U", "f32-U"):
            U = np.round(U)
        if ndim == 3:
            U3 = np.stack([U, U + 1.0], axis=0)
        else:
            U3 = None
        no = N if go is None else len(go)
        omkind = rng.choice(OM_KINDS) if ndim == 2 else rng.choice(["id", "sq", "sc"])
        cases.append(dict(N=N, nt=nt, gs=gs, ts=ts, go=go, gclass=gclass, tobs=tobs, ttok=ttok, tclass=tclass, ndim=ndim, U=U, U3=U3,
                          omkind=omkind, grid_sol_none=grid_sol_none, no=no, odt=odt))
    # first pass: implementation + scipy directly (W), then one driver batch
    for cs in cases:
        gs = None if cs["grid_sol_none"] else cs["gs"]
        go = cs["go"]
        ts = cs["ts"]
        nrows_for_map = cs["no"]
        om, omtok = make_om(rng, cs["omkind"], nrows_for_map)
        cs["om"], cs["omtok"] = om, omtok
        # resolved time_obs (for W and the oracle); None if the constructor must refuse
        tob = cs["tobs"]
        if isinstance(tob, str):
            res = ts[-1:] if tob.lower() == "final" else ts if tob.lower() == "all" else None
        elif tob is None:
            res = None
        else:
            res = np.asarray(tob, dtype=float)
        cs["tres"] = res
        go_eff = go if go is not None else gs
        W, Wtok = None, "-"
        if res is not None and gs is not None and go_eff is not None and cs["ndim"] == 2:
            try:
                with quiet():
                    W = scipy.interpolate.RectBivariateSpline(gs, ts, cs["U"])(go_eff, res)
                W = np.asarray(W, dtype=float).reshape(len(go_eff), len(res))
                Wtok = qm(W) if len(W) else "-"
                if not np.isfinite(W).all():
                    W, Wtok = None, "err"
            except Exception as e:  # noqa
                W, Wtok = None, "err"
                cs["Werr"] = type(e).__name__
        cs["W"] = W
        gops = f"init:{grid_tok(gs)}:{grid_tok(go)}"
        lines.append(f"obst {gops} {qv(ts)} {cs['ttok']} {cs['ndim']} {qm(cs['U'])} {Wtok} {omtok}")
    outs = yield lines
    for cs, out in zip(cases, outs):
        gs = None if cs["grid_sol_none"] else cs["gs"]
        go, ts, U, om, res = cs["go"], cs["ts"], cs["U"], cs["om"], cs["tres"]
        desc = {"N": cs["N"], "grid_sol": None if gs is None else gs.tolist(), "grid_obs": None if go is None else go.tolist(), "time_steps": ts.tolist(),
                "time_obs": cs["tobs"] if isinstance(cs["tobs"], str) or cs["tobs"] is None else np.asarray(cs["tobs"]).tolist(),
                "ndim": cs["ndim"], "obs_map": cs["omtok"], "U": U.tolist(), "dtype_variant": cs.get("odt")}
        bump("tobs_class", cs["tclass"]); bump("gobs_class", cs["gclass"] + (":grid_sol=None" if gs is None else "")); bump("om", cs["omkind"])
        ctx.case("observe-time", desc)
        impl_err, got = None, None
        sol = cs["U3"] if cs["ndim"] == 3 else U
        odt = cs.get("odt")
        sol_in = sol.astype(np.int64) if odt == "int-U" else sol.astype(np.float32) if odt == "f32-U" else sol.copy()
        gs_in, go_in, ts_in, tobs_in = gs, go, ts, cs["tobs"]
        if odt == "int-grids":
            gs_in = gs.astype(np.int64); ts_in = ts.astype(np.int32)
            go_in = go.astype(np.int64) if go is not None and np.all(go == np.round(go)) else go
        gs_in = None if gs_in is None else gs_in.copy(); go_in = None if go_in is None else go_in.copy(); ts_in = ts_in.copy()
        tobs_in = tobs_in.copy() if isinstance(tobs_in, np.ndarray) else tobs_in
        before = snap(sol_in, gs_in, go_in, ts_in, tobs_in)
        try:
            with quiet():
                pde = TimeDependentLinearPDE(lambda p, t: None, ts_in, time_obs=tobs_in, grid_sol=gs_in, grid_obs=go_in, observation_map=om)
                got = pde.observe(sol_in)
            got = np.array(got, dtype=float)
        except Exception as e:  # noqa
            impl_err = type(e).__name__
        if snap(sol_in, gs_in, go_in, ts_in, tobs_in) != before:
            ctx.fail("TimeDependentLinearPDE.observe:caller-array-modified", desc, "solution, grids and times passed by the caller unchanged", "modified in place",
                     "observe modifies an array owned by the caller")
        if impl_err:
            bump("errors", "observe-time:" + impl_err)
        # classify for the key
        branch_m = out.split(" ")[0] if not out.startswith("err:") else "ctor"
        bump("obs_branch", "time:" + branch_m)
        if cs["tclass"].startswith("all-final-len"):
            key = f"TimeDependentLinearPDE.observe:direct-branch:time_obs-{cs['tclass']}" if branch_m == "direct" else f"TimeDependentLinearPDE.observe:{branch_m}:{cs['tclass']}:{cs['gclass']}"
        else:
            key = f"TimeDependentLinearPDE.observe:{branch_m}:{cs['tclass']}:{cs['gclass']}"
        # ---- oracle (implementation only)
        oracle_bad = False
        e2 = None
        if res is not None and cs["ndim"] == 2 and gs is not None:
            go_eff = go if go is not None else gs
            exp = expected_observation(gs, ts, U, go_eff, res, cs["W"])
            if exp is not None:
                try:
                    e2 = exp if om is None else np.asarray(om(exp), dtype=float)
                    if len(res) == 1:
                        e2 = e2.squeeze()
                except Exception:  # the map itself refuses this shape: nothing to demand
                    e2 = None
                if impl_err is None and e2 is not None and not arr_same(e2, got):
                    oracle_bad = True
                    ctx.fail(key, desc, "restriction at coinciding nodes/times, scipy interpolant elsewhere, then map, time axis dropped iff one time: " + short(e2),
                             short(got), "observation is not the solution restricted to the observation grid and times")
        if res is not None and cs["ndim"] == 3 and impl_err is None:
            # a 2-D-in-space solution can only be observed without interpolation: last time slice, then the map
            e3 = sol[..., -1]
            try:
                e3 = e3 if om is None else np.asarray(om(e3), dtype=float)
                if len(res) == 1:
                    e3 = e3.squeeze()
            except Exception:
                e3 = None
            if e3 is not None and not arr_same(e3, got):
                oracle_bad = True
                ctx.fail(key, desc, "last time slice " + short(e3), short(got), "direct observation of a higher-dimensional solution is not its last time slice")
        # ---- tie
        if out.startswith("err:"):
            if impl_err is None:
                ctx.disagree(key, desc, out, short(got), "model refuses (constructor), implementation returns")
            continue
        br, mo = out.split(" ")
        if cs["ndim"] == 3:
            want_err = (br == "refuse")
            if want_err != (impl_err is not None):
                ctx.disagree(key, desc, br, impl_err or short(got), "refusal of interpolation for a higher-dimensional solution differs")
            continue
        if mo.startswith("err:"):
            if impl_err is None:
                ctx.disagree(key, desc, mo, short(got), "model refuses, implementation returns")
            continue
        if impl_err is not None:
            ctx.disagree(key, desc, mo[:100], "err:" + impl_err, "implementation refuses, model returns")
            if e2 is not None:      # the demanded observation is well defined (grids present, scipy itself accepts the data)
                ctx.fail(key, desc, "the observation " + short(e2), "err:" + impl_err, "observe raises on a valid input")
            continue
        am = parse_arr(mo)
        if not arr_same(am, got):
            ctx.disagree(key, desc, short(am), short(got), "observation differs")


# ----------------------------------------------------------------------------------------------- E. observe (steady)
def check_observe_steady(ctx, cuqi, rng, ncases, bump):
    from cuqi.pde import SteadyStateLinearPDE
    cases, lines, qlines = [], [], []
    for c in range(ncases):
        N = rng.choice([3, 4, 5, 6, 8])
        gs = np.zeros(N); gs[0] = dy(rng, -1, 1, 2)
        for i in range(1, N):
            gs[i] = gs[i - 1] + rng.choice([0.25, 0.5, 1.0])
        go, gclass = gen_obs_grid(rng, gs)
        tolcase = c < len(TOL_GRIDS) or rng.random() < 0.10
        if tolcase:                # equal-length grids that a tolerance-based comparison would call equal
            N = max(N, 4)
            gs, go, nm, _, _ = tolerance_pair(rng, N, TOL_GRIDS[c] if c < len(TOL_GRIDS) else None)
            gclass = "tolerance-shift-" + nm
        if len(TOL_GRIDS) <= c < len(TOL_GRIDS) + len(UNSORTED_KINDS):     # always present: observation points in the order given, repeats repeated
            N = max(N, 4)
            gs = np.arange(N, dtype=float) * 0.5
            go, gclass = unsorted_obs_grid(rng, gs, UNSORTED_KINDS[c - len(TOL_GRIDS)])
        k0 = len(TOL_GRIDS) + len(UNSORTED_KINDS)
        if k0 <= c < k0 + 3:       # always present: same length and end nodes, interior node(s) moved
            N = max(N, 5)
            gs = np.cumsum([0.0] + [rng.choice([0.5, 1.0]) for _ in range(N - 1)])
            go, gclass = interior_shift(rng, gs)
            tolcase = True
        u = dyv(rng, N, -4, 4, 4)
        sdt = rng.choice(["int-u", "f32-u", "int-grid", "list-u"]) if rng.random() < 0.12 else None
        if sdt:
            u = np.round(u) + 9.0 * np.arange(N)      # integer-valued and distinct
        if len(set(u.tolist())) < N:
            u = u + 0.125 * np.arange(N)          # distinct nodal values: a permuted output is visible
        gops = [("init", gs, go)]
        if rng.random() < 0.3 and not tolcase:     # re-assign grids after construction
            g2, _ = gen_obs_grid(rng, gs, allow_none=False)
            gops.append(("obs", g2, None)); go_final = g2; gclass = "reassigned"
        else:
            go_final = go if go is not None else gs
        omkind = rng.choice(OM_KINDS)
        om, omtok = make_om(rng, omkind, len(go_final))
        equal_now = len(go_final) == len(gs) and bool(np.all(go_final == gs))
        W, Wtok = None, "-"
        try:
            with quiet():
                W = np.asarray(scipy.interpolate.interp1d(gs, u, kind="quadratic")(go_final), dtype=float)
            Wtok = qv(W)
        except Exception as e:  # noqa
            W, Wtok = None, "err"
        cases.append(dict(N=N, gs=gs, go=go, gops=gops, go_final=go_final, u=u, om=om, omtok=omtok, omkind=omkind, W=W, gclass=gclass, equal_now=equal_now, sdt=sdt))
        gtok = "|".join([f"init:{grid_tok(gs)}:{grid_tok(go)}"] + [f"{o}:{grid_tok(v)}" for o, v, _ in gops[1:]])
        lines.append(f"obss {gtok} {qv(u)} {Wtok} {omtok}")
        qlines.append(f"obsq {gtok} {qv(u)} {omtok}")
    allouts = yield lines + qlines        # session 3: qlines = the same cases with the model's own exact quadratic spline (no leaf data)
    outs, qouts = allouts[:len(lines)], allouts[len(lines):]
    spl = ctx.extra_cov.setdefault("c18_exact_spline", {"compared": 0, "both_refuse": 0, "interp_values": 0})
    for cs, out, qout in zip(cases, outs, qouts):
        gs, go, u, om = cs["gs"], cs["go"], cs["u"], cs["om"]
        desc = {"grid_sol": gs.tolist(), "grid_obs": None if go is None else go.tolist(), "then_grid_obs": cs["go_final"].tolist() if len(cs["gops"]) > 1 else None,
                "u": u.tolist(), "obs_map": cs["omtok"]}
        bump("gobs_class", "steady:" + cs["gclass"]); bump("om", cs["omkind"])
        ctx.case("observe-steady", desc)
        br, mo = out.split(" ")
        bump("obs_branch", "steady:" + br)
        key = f"SteadyStateLinearPDE.observe:{br}:{cs['gclass']}"
        impl_err, got = None, None
        sdt = cs.get("sdt")
        u_in = u.astype(np.int64) if sdt == "int-u" else u.astype(np.float32) if sdt == "f32-u" else [float(x) for x in u] if (sdt == "list-u" and om is None and cs["equal_now"]) else u.copy()
        gs_in = gs.astype(np.int64) if (sdt == "int-grid" and np.all(gs == np.round(gs))) else gs.copy()
        go_in = None if go is None else go.copy()
        before = snap(u_in, gs_in, go_in)
        try:
            with quiet():
                pde = SteadyStateLinearPDE(lambda p: None, grid_sol=gs_in, grid_obs=go_in, observation_map=om)
                for o, v, _ in cs["gops"][1:]:
                    pde.grid_obs = v
                got = np.array(pde.observe(u_in), dtype=float)
        except Exception as e:  # noqa
            impl_err = type(e).__name__
        if snap(u_in, gs_in, go_in) != before:
            ctx.fail("SteadyStateLinearPDE.observe:caller-array-modified", desc, "solution and grids passed by the caller unchanged", "modified in place",
                     "observe modifies an array owned by the caller")
        if impl_err:
            bump("errors", "observe-steady:" + impl_err)
        oracle_bad = False
        e2 = None
        if True:
            gsl = gs.tolist()
            exp = np.array([u[gsl.index(x)] if x in gsl else (cs["W"][a] if cs["W"] is not None else np.nan) for a, x in enumerate(cs["go_final"])])
            if not np.isnan(exp).any():
                try:
                    e2 = exp if om is None else np.asarray(om(exp), dtype=float)
                except Exception:
                    e2 = None
                if impl_err is None and e2 is not None and not arr_same(e2, got):
                    oracle_bad = True
                    ctx.fail(key, desc, "restriction at coinciding nodes, quadratic interpolant elsewhere, then map: " + short(e2), short(got),
                             "steady observation is not the solution restricted to the observation grid")
        # exact-spline model (interp1d(kind='quadratic') transcribed: sorting, knots, collocation, de Boor, bounds)
        qbr, qmo = qout.split(" ")
        if qmo.startswith("err:") != (impl_err is not None):
            ctx.disagree(key, desc, qmo[:100], ("err:" + impl_err) if impl_err else short(got), "exact quadratic-spline model and implementation differ in refusing the input")
        elif impl_err is None:
            spl["compared"] += 1
            if qbr == "interp":
                spl["interp_values"] += int(np.asarray(got).size)
            if not arr_same(parse_arr(qmo), got):
                ctx.disagree(key, desc, short(parse_arr(qmo)), short(got), "observation differs from the exact quadratic spline through the solution")
        else:
            spl["both_refuse"] += 1
        if mo.startswith("err:"):
            if impl_err is None:
                ctx.disagree(key, desc, mo, short(got), "model refuses, implementation returns")
            continue
        if impl_err is not None:
            ctx.disagree(key, desc, mo[:100], "err:" + impl_err, "implementation refuses, model returns")
            if e2 is not None:
                ctx.fail(key, desc, "the observation " + short(e2), "err:" + impl_err, "observe raises on a valid input")
            continue
        am = parse_arr(mo)
        if not arr_same(am, got):
            ctx.disagree(key, desc, short(am), short(got), "observation differs")


# ----------------------------------------------------------------------------------------------- F. PDEModel pipeline
def check_pipeline(ctx, cuqi, rng, ncases, bump):
    from cuqi.pde import SteadyStateLinearPDE, TimeDependentLinearPDE
    from cuqi.model import PDEModel
    from cuqi.geometry import Continuous1D, MappedGeometry
    cases, lines = [], []
    for c in range(ncases):
        steady = (c % 3 == 0)
        N = rng.choice([4, 5, 6])
        gs = np.arange(1, N + 1) * rng.choice([0.25, 0.5, 1.0])
        go, gclass = gen_obs_grid(rng, gs)
        if c % 10 == 9:
            gs, go, nm, _, _ = tolerance_pair(rng, N)
            gclass = "tolerance-shift-" + nm
        go_eff = gs if go is None else go
        skind = rng.choice(["default", "plain", "kw", "t1", "t2", "t3"])
        solver, kwargs, dk = make_solver(skind)
        omkind = rng.choice(["id", "sq", "sc", "left", "take"])
        om, omtok = make_om(rng, omkind, len(go_eff))
        mapped = rng.random() < 0.3
        if steady:
            flavour = rng.choice(["poisson", "source"])
            F = {"n": N}
            if flavour == "poisson":
                npar = N + 1; F.update(D=fd(N), E=np.eye(N + 1), b0=dyv(rng, N))
                x = np.array([dy(rng, 0.5, 3, 4) for _ in range(npar)])
            else:
                npar = N; F.update(A0=-laplace(N), b0=dyv(rng, N), B=np.eye(N)); x = dyv(rng, npar)
            cs = dict(kind="steady", F=F, x=x, gs=gs, go=go, go_eff=go_eff, solver=solver, kwargs=kwargs, dk=dk, om=om, omtok=omtok, N=N,
                      mapped=mapped, flavour=flavour, gclass=gclass, skind=skind, omkind=omkind, npar=npar)
        else:
            flavour = rng.choice(["heat-ic", "heat-source", "op-t", "ic-t"])
            F, npar = gen_time_family(rng, N, flavour)
            if F.get("A0") is not None:
                F["A0"] = laplace(N)       # keep forward Euler tame
            x = dyv(rng, npar)
            method = rng.choice(METHODS)
            nt = rng.choice([4, 5, 6])
            ts = gen_times(rng, nt, rng.choice(["uniform", "nonuniform", "blocks"]))
            ts = ts - ts[0]
            ts = ts / 4
            tobs, ttok, tclass = gen_tobs(rng, ts)
            while tclass in ("bad-string", "none") or tclass.startswith("all-final-len"):
                tobs, ttok, tclass = gen_tobs(rng, ts)
            if c < 14 or rng.random() < 0.25:     # (G4) the same recurrence on a re-scaled time axis (nanoseconds ... weeks)
                sigma = SIGMAS[c % len(SIGMAS)] if c < 14 else rng.choice(SIGMAS)
                F, ts = scale_time(F, ts, sigma)
                if isinstance(tobs, np.ndarray):
                    tobs = tobs * sigma; ttok = "v:" + qv(tobs)
                flavour = flavour + ":scaled"
            cs = dict(kind="time", F=F, x=x, gs=gs, go=go, go_eff=go_eff, solver=solver, kwargs=kwargs, dk=dk, om=om, omtok=omtok, N=N, mapped=mapped,
                      flavour=flavour, gclass=gclass, method=method, ts=ts, tobs=tobs, ttok=ttok, tclass=tclass, skind=skind, omkind=omkind, npar=npar)
        # (G1) the parameter handed to PDEModel.forward as int64 / float32 / python list / used itself as initial condition
        xv = None
        if 14 <= c < 26 or rng.random() < 0.15:
            xv = ["int-x", "f32-x", "list-x", "int-ic-alias"][c % 4] if c < 26 else rng.choice(["int-x", "f32-x", "list-x", "int-ic-alias"])
            cs["x"] = np.ceil(np.abs(cs["x"])) + 1.0 if cs["flavour"].startswith("poisson") else np.round(cs["x"]) + 1.0
            if xv == "list-x":
                cs["mapped"] = False
            if xv == "int-ic-alias" and not (cs["kind"] == "time" and cs["flavour"].startswith("heat-ic") and not cs["mapped"]):
                xv = "int-x"
        cs["xv"] = xv
        cases.append(cs)
    # implementation first (W is scipy called directly on the implementation's own solution)
    for cs in cases:
        F, x, gs, go = cs["F"], cs["x"], cs["gs"], cs["go"]
        fmap = (lambda v: 2.0 * v + 0.5) if cs["mapped"] else None
        xv = cs.get("xv")
        xin = x.astype(np.int64) if xv in ("int-x", "int-ic-alias") else x.astype(np.float32) if xv == "f32-x" else [float(v) for v in x] if xv == "list-x" else x.copy()
        xfun = fmap(x) if fmap else x
        cs["xfun"] = xfun
        tform = (lambda par, t, F=F: fam_eval(F, par, t)[:2] + (par,)) if xv == "int-ic-alias" else (lambda par, t, F=F: fam_eval(F, par, t))
        sform = lambda par, F=F: fam_eval(F, par, 0.0)[:2]
        if xv is None and rng.random() < 0.3:
            bm = rng.choice(["dense", "sparse"]) if (cs["kind"] == "time" or cs["skind"] in ("plain", "kw", "t1", "t2", "t3")) else "dense"
            tform = buffered_form(tform, cs["N"], bm); sform = buffered_steady_form(sform, cs["N"], bm)
            cs["flavour"] = cs["flavour"] + ":buffers"
        before = snap(xin, gs, go, cs.get("ts"), cs.get("tobs"))
        impl_err = None
        try:
            with quiet():
                if cs["kind"] == "steady":
                    pde = SteadyStateLinearPDE(sform, grid_sol=gs, grid_obs=go, observation_map=cs["om"],
                                               linalg_solve=cs["solver"], linalg_solve_kwargs=cs["kwargs"])
                else:
                    pde = TimeDependentLinearPDE(tform, cs["ts"], method=cs["method"], time_obs=cs["tobs"],
                                                 grid_sol=gs, grid_obs=go, observation_map=cs["om"], linalg_solve=cs["solver"], linalg_solve_kwargs=cs["kwargs"])
                dom = Continuous1D(cs["npar"])
                if fmap:
                    dom = MappedGeometry(dom, map=fmap)
                # range geometry: the declared size is irrelevant to _forward_func; fun2par of Continuous1D is the identity
                model = PDEModel(pde, Continuous1D(len(cs["go_eff"])), dom)
                y = model.forward(xin)
                y = np.array(y, dtype=float)
                cs["modified"] = snap(xin, gs, go, cs.get("ts"), cs.get("tobs")) != before
                # manual pipeline on a second, independent object state
                pde.assemble(xfun)
                sol, info = pde.solve()
                manual = np.asarray(pde.observe(sol), dtype=float)
            cs.update(y=y, sol=np.asarray(sol, dtype=float), manual=manual, pde=pde, model=model)
        except Exception as e:  # noqa
            impl_err = errname(e)
            cs["impl_err_msg"] = repr(e)[:200]
            bump("errors", "pipeline:" + impl_err)
        cs["impl_err"] = impl_err
        # W from scipy called directly
        Wtok = "-"
        cs["W"] = None
        if impl_err is None:
            try:
                with quiet():
                    if cs["kind"] == "steady":
                        W = np.asarray(scipy.interpolate.interp1d(gs, cs["sol"], kind="quadratic")(cs["go_eff"]), dtype=float)
                        Wtok = qv(W)
                    else:
                        tob = cs["tobs"]
                        res = cs["ts"][-1:] if isinstance(tob, str) and tob.lower() == "final" else cs["ts"] if isinstance(tob, str) else np.asarray(tob, dtype=float)
                        cs["tres"] = res
                        W = np.asarray(scipy.interpolate.RectBivariateSpline(gs, cs["ts"], cs["sol"])(cs["go_eff"], res), dtype=float)
                        Wtok = qm(W)
                cs["W"] = W
            except Exception:
                Wtok = "err"
        gtok = f"init:{grid_tok(gs)}:{grid_tok(go)}"
        if cs["kind"] == "steady":
            lines.append(f"pipes {cs['N']} {cs['dk']} {fam_tokens(F)} {qv(xfun)} {gtok} {Wtok} {cs['omtok']}")
        else:
            lines.append(f"pipet {cs['N']} {cs['method']} {cs['dk']} {qv(cs['ts'])} {fam_tokens(F)} {qv(xfun)} {gtok} {cs['ttok']} {Wtok} {cs['omtok']}")
    outs = yield lines
    for cs, out in zip(cases, outs):
        desc = {"kind": cs["kind"], "flavour": cs["flavour"], "N": cs["N"], "x": cs["x"].tolist(), "grid_sol": cs["gs"].tolist(),
                "grid_obs": None if cs["go"] is None else cs["go"].tolist(), "solver": cs["skind"], "obs_map": cs["omtok"], "mapped_domain": cs["mapped"],
                "parameter_passed_as": cs.get("xv")}
        if cs["kind"] == "time":
            desc.update(method=cs["method"], time_steps=cs["ts"].tolist(), time_obs=cs["tobs"] if isinstance(cs["tobs"], str) else np.asarray(cs["tobs"]).tolist())
        ctx.case("pdemodel-forward-" + cs["kind"], desc)
        bump("solver", "pipe:" + cs["skind"])
        key = f"PDEModel.forward:{cs['kind']}:{cs['flavour']}"
        if cs["impl_err"] is not None:
            if not out.startswith("err:"):
                ctx.disagree(key, desc, out[:100], cs["impl_err"] + " " + cs.get("impl_err_msg", ""), "implementation refuses, model returns")
                ctx.fail(key, desc, "forward output", cs["impl_err"], "PDEModel.forward raises on a valid input")
            continue
        y, manual = cs["y"], cs["manual"]
        oracle_bad = False
        if cs.get("modified"):
            ctx.fail(key + ":caller-array-modified", desc, "parameter, grids and times passed by the caller unchanged", "modified in place",
                     "PDEModel.forward modifies an array owned by the caller")
        # oracle 1: forward == observe(solve(assemble(par2fun x))[0]) on the implementation
        if not arr_same(manual, y, 1e-12):
            oracle_bad = True
            ctx.fail(key, desc, "observe(solve(assemble(x))[0]) = " + short(manual), short(y), "PDEModel.forward is not the assemble-solve-observe pipeline")
        # oracle 2: the solution it is built on satisfies the discrete equations
        if cs["kind"] == "steady":
            A, b, _ = fam_eval(cs["F"], cs["xfun"], 0.0)
            res = np.abs(A @ cs["sol"] - b).max() / (1.0 + np.abs(b).max() + np.abs(A).sum(axis=1).max() * np.abs(cs["sol"]).max())
        else:
            res, _ = time_residual(cs["F"], cs["xfun"], cs["ts"], cs["method"], cs["sol"])
        if not res <= TOL:
            oracle_bad = True
            ctx.fail(key, desc, "discrete equations satisfied", f"scaled residual {res:.3e}", "solution inside PDEModel.forward violates the discrete equations")
        # oracle 3: the output is that solution restricted to the observation grid/times (scipy's interpolant off the nodes), mapped, squeezed
        if cs["kind"] == "steady":
            gsl = cs["gs"].tolist()
            exp = np.array([cs["sol"][gsl.index(v)] if v in gsl else (cs["W"][a] if cs["W"] is not None else np.nan) for a, v in enumerate(cs["go_eff"])])
            one_time = False
        else:
            exp = expected_observation(cs["gs"], cs["ts"], cs["sol"], cs["go_eff"], cs["tres"], cs["W"]) if "tres" in cs else None
            one_time = "tres" in cs and len(cs["tres"]) == 1
        if exp is not None and not np.isnan(exp).any():
            try:
                e2 = exp if cs["om"] is None else np.asarray(cs["om"](exp), dtype=float)
                if one_time:
                    e2 = e2.squeeze()
            except Exception:
                e2 = None
            if e2 is not None and not arr_same(e2, y):
                oracle_bad = True
                ctx.fail(key, desc, "solution restricted to grid_obs/time_obs, mapped: " + short(e2), short(y), "PDEModel.forward is not the observation of the solution it computed")
        if out.startswith("err:"):
            ctx.disagree(key, desc, out, short(y), "model refuses, implementation returns")
            continue
        am = parse_arr(out)
        if not arr_same(am, y):
            ctx.disagree(key, desc, short(am), short(y), "forward output differs")


# ----------------------------------------------------------------------------------------------- G. gradient dispatch
def check_gradient(ctx, cuqi, rng, ncases):
    from cuqi.pde import SteadyStateLinearPDE, TimeDependentLinearPDE
    from cuqi.model import PDEModel
    from cuqi.geometry import Continuous1D
    cases, lines = [], []
    for c in range(ncases):
        N = rng.choice([4, 5, 6])
        npar = rng.randint(1, 4)
        steady = rng.random() < 0.5
        cap = ["g", "j", "gj", "n"][c % 4]
        gs = np.arange(N, dtype=float)
        go = gs[sorted(rng.sample(range(N), rng.randint(1, N)))] if rng.random() < 0.5 else None
        F = {"n": N}
        if steady:
            F.update(A0=-laplace(N), b0=dyv(rng, N), B=dym(rng, N, npar))
        else:
            F.update(A0=laplace(N), b0=dyv(rng, N), B=dym(rng, N, npar), C=dym(rng, N, npar))
        ts = np.array([0.0, 0.125, 0.25, 0.5])
        method = rng.choice(METHODS)
        idx = list(range(N)) if go is None else [gs.tolist().index(v) for v in go]
        # exact Jacobian of the (affine) forward map, from the discrete equations themselves
        if steady:
            Jfull = np.linalg.solve(F["A0"], F["B"])
        else:
            A = F["A0"]; Jk = F["C"].copy()
            for k in range(len(ts) - 1):
                dt = ts[k + 1] - ts[k]
                if method == "forward_euler":
                    Jk = (np.eye(N) + dt * A) @ Jk + dt * F["B"]
                else:
                    Jk = np.linalg.solve(np.eye(N) - dt * A, Jk + dt * F["B"])
            Jfull = Jk
        J = Jfull[idx, :]
        # when the PDE has both methods they may disagree: gradient_wrt_parameter takes precedence.
        #   c%8==2: the Jacobian method is off (the gradient method is exact: the oracle applies)
        #   c%8==6: the gradient method is off (tie only: the model output is whatever that method returns)
        wrong = cap == "gj" and c % 8 == 6
        jwrong = cap == "gj" and c % 8 == 2
        direction = dyv(rng, len(idx))
        if not np.any(direction):
            direction[0] = 1.0
        wrt = dyv(rng, npar)
        g = direction @ J
        gret = g + 1.0 if wrong else g
        Jret = J + 1.0 if jwrong else J
        cases.append(dict(N=N, npar=npar, steady=steady, cap=cap, gs=gs, go=go, F=F, ts=ts, method=method, J=Jret, direction=direction, wrt=wrt, gret=gret, wrong=wrong))
        lines.append(f"grad {cap} {len(idx)} {qv(direction)} {qm(Jret) if cap in ('j', 'gj') else '-'} {qv(gret) if cap in ('g', 'gj') else '-'}")
    outs = yield lines
    for cs, out in zip(cases, outs):
        F, cap = cs["F"], cs["cap"]
        desc = {"pde": "steady" if cs["steady"] else "time:" + cs["method"], "caps": cap, "N": cs["N"], "npar": cs["npar"], "direction": cs["direction"].tolist(),
                "wrt": cs["wrt"].tolist(), "grid_obs": None if cs["go"] is None else cs["go"].tolist(), "both_disagree": cs["wrong"]}
        ctx.case("pdemodel-gradient", desc)
        key = f"PDEModel.gradient:caps={cap}:{'steady' if cs['steady'] else 'time'}"
        base = SteadyStateLinearPDE if cs["steady"] else TimeDependentLinearPDE
        J, gret = cs["J"], cs["gret"]
        seen = []
        ns = {}
        if cap in ("g", "gj"):
            def gradient_wrt_parameter(self, direction, wrt, gret=gret, seen=seen):
                seen.append(("g", np.array(direction, dtype=float), np.array(wrt, dtype=float)))
                return gret.copy()
            ns["gradient_wrt_parameter"] = gradient_wrt_parameter
        if cap in ("j", "gj"):
            def jacobian_wrt_parameter(self, wrt, J=J, seen=seen):
                seen.append(("j", None, np.array(wrt, dtype=float)))
                return J.copy()
            ns["jacobian_wrt_parameter"] = jacobian_wrt_parameter
        cls = type("PDEWithGrad", (base,), ns)
        impl_err, got, y0 = None, None, None
        try:
            with quiet():
                if cs["steady"]:
                    pde = cls(lambda par, F=F: fam_eval(F, par, 0.0)[:2], grid_sol=cs["gs"], grid_obs=cs["go"])
                else:
                    pde = cls(lambda par, t, F=F: fam_eval(F, par, t), cs["ts"], method=cs["method"], grid_sol=cs["gs"], grid_obs=cs["go"])
                model = PDEModel(pde, Continuous1D(len(cs["direction"])), Continuous1D(cs["npar"]))
                got = np.asarray(model.gradient(cs["direction"], cs["wrt"]), dtype=float)
        except Exception as e:  # noqa
            impl_err = type(e).__name__
        # oracle: gradient = direction @ d forward / d x  (forward is affine here: central differences are exact up to rounding)
        oracle_bad = False
        if impl_err is None and not cs["wrong"]:
            with quiet():
                Jfd = np.column_stack([(np.asarray(model.forward(cs["wrt"] + e), dtype=float) - np.asarray(model.forward(cs["wrt"] - e), dtype=float)) / 2.0
                                       for e in np.eye(cs["npar"])])
            ref = cs["direction"] @ Jfd
            if not arr_same(ref, got, 1e-8):
                oracle_bad = True
                ctx.fail(key, desc, "direction @ Jacobian of forward = " + short(ref), short(got), "PDEModel.gradient is not the gradient of the assemble-solve-observe pipeline")
        if impl_err is None and seen:
            # the PDE's method must have been handed this direction / this point
            k0, d0, w0 = seen[0]
            if not arr_same(w0, cs["wrt"], 0.0) or (d0 is not None and not arr_same(d0, cs["direction"], 0.0)):
                oracle_bad = True
                ctx.fail(key, desc, "PDE method called with (direction, wrt) as given", f"{d0} {w0}", "PDEModel passes other arguments to the PDE's gradient method")
        if out.startswith("err:"):
            if impl_err is None:
                ctx.disagree(key, desc, out, short(got), "model refuses, implementation returns")
            elif impl_err != out[4:]:
                ctx.note(f"exception class differs (both refuse) in gradient: {out} vs {impl_err}")
            continue
        if impl_err is not None:
            ctx.disagree(key, desc, out[:100], "err:" + impl_err, "implementation refuses, model returns")
            ctx.fail(key, desc, "a gradient", "err:" + impl_err, "PDEModel.gradient raises although the PDE supplies gradient/Jacobian")
            continue
        gm = np.array([float(x) for x in pv(out)])
        if not arr_same(gm, got):
            ctx.disagree(key, desc, short(gm), short(got), "gradient differs from the dispatch rule")


# ----------------------------------------------------------------------------------------------- G1b. assemble/solve histories on ONE PDE object
def check_solve_histories(ctx, cuqi, rng, ncases, bump):
    """ONE TimeDependentLinearPDE (or SteadyStateLinearPDE) object: assemble(p1); solve(); assemble(p2); solve(); ... with
    re-assigned method / time grid (one-node, two-node, longer grids, grids sharing their first node with the previous one),
    the same parameter array modified in place, stray assemble_step(t) calls, solve() repeated.  After EVERY solve the stored
    levels must satisfy the recurrence for the parameter assembled last and the current grid/method (implementation-only
    residual oracle) and equal the exact model; every returned array is retained and re-verified at the end."""
    from cuqi.pde import SteadyStateLinearPDE, TimeDependentLinearPDE
    cov = ctx.extra_cov["c18"].setdefault("solve_history_ops", {})
    pending = []
    for c in range(ncases):
        steady = (c % 5 == 4)
        n = rng.randint(2, 4)
        def short_ts(t0=None):
            nt = [2, 2, 1, 3, 2, 5][c % 6] if rng.random() < 0.7 else rng.choice([1, 2, 3, 4, 6])
            t0 = (0.0 if rng.random() < 0.7 else dy(rng, -1, 1, 2)) if t0 is None else t0
            if nt >= 4 and rng.random() < 0.6:      # runs of equal steps
                return gen_times(rng, nt, rng.choice(["blocks", "uniform"])) * 0.5 + t0
            return np.cumsum([t0] + [rng.choice([0.0625, 0.125, 0.25]) for _ in range(nt - 1)])
        ts = None if steady else short_ts()
        if steady:
            flavour = "source"; npar = n
            F = {"n": n, "A0": -laplace(n), "b0": dyv(rng, n), "B": np.eye(n)}
        else:
            flavour = ["heat-ic", "heat-source", "ic-t", "op-t", "structure", "heat-source-t"][c % 6]
            if flavour == "structure":
                tl = ts if len(ts) > 1 else np.array([ts[0], ts[0] + 0.125])
                F, npar, flavour = gen_structure_family(rng, n, tl)
            else:
                F, npar = gen_time_family(rng, n, flavour)
                F["A0"] = laplace(n)
        method = METHODS[c % 2]
        skind = rng.choice(DEFAULTISH + ["plain", "t2"])
        solver, kwargs, dk = make_solver(skind)
        bm = rng.choice(["dense", "sparse"]) if rng.random() < 0.5 else None
        if bm == "sparse" and steady and skind not in ("plain", "t2"):
            bm = "dense"
        hform_s = lambda par, F=F: fam_eval(F, par, 0.0)[:2]
        hform_t = lambda par, t, F=F: fam_eval(F, par, t)
        if bm:
            hform_s = buffered_steady_form(hform_s, n, bm); hform_t = buffered_form(hform_t, n, bm)
            flavour = flavour + ":buffers-" + bm
        try:
            with quiet():
                if steady:
                    pde = SteadyStateLinearPDE(hform_s, linalg_solve=solver, linalg_solve_kwargs=kwargs)
                else:
                    pde = TimeDependentLinearPDE(hform_t, ts.copy(), method=method, linalg_solve=solver, linalg_solve_kwargs=kwargs)
        except Exception as e:  # noqa
            ctx.note(f"solve-history object could not be built: {type(e).__name__}")
            continue
        pref, pval = None, None
        hist, retained = [], []
        for step in range(rng.randint(5, 9)):
            r = rng.random()
            if pref is None:
                op = "assemble_new"
            elif r < 0.30:
                op = "solve"
            elif r < 0.55:
                op = "assemble_new"
            elif r < 0.67:
                op = "assemble_inplace"
            elif r < 0.77 and not steady:
                op = "set_method"
            elif r < 0.90 and not steady:
                op = "set_ts"
            elif r < 0.95 and not steady:
                op = "assemble_step"
            else:
                op = "solve"
            if hist and hist[-1].startswith("assemble") and op.startswith("assemble") and rng.random() < 0.6:
                op = "solve"
            cov[op] = cov.get(op, 0) + 1
            herr, u, info = None, None, None
            try:
                with quiet():
                    if op == "assemble_new":
                        pref = dyv(rng, npar); pval = pref.copy(); pde.assemble(pref)
                    elif op == "assemble_inplace":
                        pref[rng.randrange(npar)] += rng.choice([1.0, 0.5, -1.5]); pval = pref.copy(); pde.assemble(pref)
                    elif op == "set_method":
                        method = [m_ for m_ in METHODS if m_ != method][0]; pde.method = method
                    elif op == "set_ts":
                        ts = short_ts(t0=float(ts[0]) if rng.random() < 0.7 else None); pde.time_steps = ts.copy()
                    elif op == "assemble_step":
                        pde.assemble_step(float(rng.choice(ts.tolist())))
                    else:
                        u, info = pde.solve()
            except Exception as e:  # noqa
                herr = errname(e)
            hist.append(op)
            if op != "solve":
                continue
            desc = {"pde": "steady" if steady else "time", "flavour": flavour, "n": n, "solver": skind, "history": list(hist), "p": pval.tolist()}
            if not steady:
                desc.update(method=method, time_steps=ts.tolist())
            prev = next((h for h in reversed(hist[:-1]) if h != "assemble_new"), "none")
            key = (f"SteadyStateLinearPDE.solve:history:after-{prev}" if steady else
                   f"TimeDependentLinearPDE.solve:history:{method}:nt{min(len(ts), 3)}:after-{prev}")
            ctx.case("solve-history", desc)
            # which outcome does the pinned code have here? (backward Euler on a one-node grid dies on the unbound info)
            if steady:
                line = f"steady {n} {dk} {fam_tokens(F)} {npar} a:{qv(pval)}|s"
            else:
                line = f"time {n} {method} {dk} {qv(ts)} {fam_tokens(F)} {qv(pval)}"
            if herr is not None:
                pending.append((line, None, herr, key, desc, None))
                continue
            u = np.array(u, dtype=float)
            # ---- oracle (implementation only): discrete equations for the CURRENT parameter / grid / method
            if steady:
                A, b, _ = fam_eval(F, pval, 0.0)
                den = np.abs(b).max() + np.abs(A).sum(axis=1).max() * np.abs(u).max()
                res = float(np.abs(A @ u - b).max() / (den if den > 0 else 1.0)) if u.shape == (n,) else float("inf")
                where = 0
            else:
                res, where = time_residual(F, pval, ts, method, u)
            bad = not (res <= TOL)
            if bad:
                ctx.fail(key, desc, f"discrete equations for the parameter assembled last (scaled residual <= {TOL})",
                         f"scaled residual {res:.3e} at level {where}; u={short(u)}",
                         "solve() on a re-used PDE object does not solve the discrete equations of the current parameter/grid/method")
            retained.append((u_obj := u, u.copy()))
            pending.append((line, u, None, key, desc, bad))
        # (G8) retained outputs
        for kept, copy_ in retained:
            if not np.array_equal(kept, copy_):
                ctx.fail("PDE.solve:history:retained-output-overwritten", {"history": hist}, "arrays returned earlier unchanged", "overwritten by a later call",
                         "a later call overwrites a solution array returned earlier")
    outs = yield [p_[0] for p_ in pending]
    for (line, u, herr, key, desc, bad), out in zip(pending, outs):
        mo = out.split("|")[-1] if line.startswith("steady") else out
        if mo.startswith("err:"):
            if herr is None:
                if mo == "err:UnboundLocalError" and not bad:
                    ctx.note("implementation returns a correct solution where the pinned code raised UnboundLocalError (history)")
                else:
                    ctx.disagree(key, desc, mo, short(u), "model refuses, implementation returns")
            continue
        if herr is not None:
            ctx.disagree(key, desc, mo[:100], "err:" + herr, "implementation refuses, model returns")
            ctx.fail(key, desc, "a solution of the discrete equations", "err:" + herr, "solve() on a re-used PDE object raises on a valid input")
            continue
        toks = mo.split(" ")
        if line.startswith("steady"):
            um = np.array([float(x) for x in pv(toks[1])])
        else:
            rows = pm(toks[1])
            um = np.array([[float(x) for x in r] for r in rows], dtype=float).reshape(len(rows), -1).T
        if not arr_same(um, u):
            ctx.disagree(key, desc, short(um), short(u), "stored levels after this history differ from the exact recurrence")


# ----------------------------------------------------------------------------------------------- G2. call histories on ONE object
def check_histories(ctx, cuqi, rng, ncases, bump):
    """One PDE object and one PDEModel, a history of calls and re-configurations.  After every forward/gradient/observe the
    result must be that of the assemble-solve-observe pipeline for the CURRENT parameter value and the CURRENT configuration:
    the reference is a freshly constructed PDE object with that configuration (oracle) and the exact model (tie)."""
    from cuqi.pde import SteadyStateLinearPDE, TimeDependentLinearPDE
    from cuqi.model import PDEModel
    from cuqi.geometry import Continuous1D
    cov = ctx.extra_cov["c18"].setdefault("history_ops", {})
    pending = []      # (line, y, key, desc)
    for c in range(ncases):
        steady = (c % 3 == 0)
        N = rng.choice([4, 5, 6])
        gs = np.arange(1, N + 1) * rng.choice([0.25, 0.5, 1.0])
        F = {"n": N}
        if steady:
            flavour = rng.choice(["poisson", "source"])
            if flavour == "poisson":
                npar = N + 1; F.update(D=fd(N), E=np.eye(N + 1), b0=dyv(rng, N) + 3.0)
                newx = lambda: np.array([dy(rng, 0.5, 3, 4) for _ in range(npar)])
            else:
                npar = N; F.update(A0=-laplace(N), b0=dyv(rng, N), B=np.eye(N))
                newx = lambda: dyv(rng, npar)
        else:
            flavour = rng.choice(["heat-ic", "heat-source", "op-t", "ic-t"])
            F, npar = gen_time_family(rng, N, flavour)
            F["A0"] = laplace(N)
            newx = lambda: dyv(rng, npar)

        shortgrid = (not steady) and (c % 3 == 1)      # one-step / two-step time grids: only the no-interpolation branch is available

        def new_ts():
            nt = rng.choice([4, 5, 6]) if not shortgrid else [2, 2, 3, 2][c % 4]
            t = gen_times(rng, nt, rng.choice(["uniform", "nonuniform"]))
            return (t - t[0]) / 4

        def new_go():
            if shortgrid:
                return None
            g, _ = gen_obs_grid(rng, gs)
            return g

        def new_om(go):
            kind = rng.choice(["id", "sq", "sc", "take"])
            return make_om(rng, kind, len(gs if go is None else go))
        gs0 = gs
        cfg = {"go": new_go(), "method": rng.choice(METHODS), "ts": None if steady else new_ts(), "gs": gs}
        cfg["om"], cfg["omtok"] = new_om(cfg["go"])
        if not steady:
            tob, _, tcl = gen_tobs(rng, cfg["ts"])
            while tcl in ("bad-string", "none") or tcl.startswith("all-final-len"):
                tob, _, tcl = gen_tobs(rng, cfg["ts"])
            cfg["tobs_arg"] = "final" if shortgrid else tob
            if shortgrid:
                cfg["method"] = METHODS[(c // 3) % 2]

        def build(cfg, cls_s=SteadyStateLinearPDE, cls_t=TimeDependentLinearPDE):
            if steady:
                return cls_s(lambda par, F=F: fam_eval(F, par, 0.0)[:2], grid_sol=cfg["gs"], grid_obs=cfg["go"], observation_map=cfg["om"])
            return cls_t(lambda par, t, F=F: fam_eval(F, par, t), cfg["ts"], method=cfg["method"], time_obs=cfg["tobs_arg"],
                         grid_sol=cfg["gs"], grid_obs=cfg["go"], observation_map=cfg["om"])

        def fresh_forward(cfg, xv):
            c2 = dict(cfg)
            if not steady:
                c2["tobs_arg"] = cfg["tobs"]
            f_ = build(c2)
            f_.assemble(np.array(xv, dtype=float)); s_, _ = f_.solve()
            return np.asarray(f_.observe(s_), dtype=float)

        def fresh_jac(cfg, xv):
            """central-difference Jacobian of the pipeline of a FRESH object with configuration cfg"""
            return np.column_stack([(fresh_forward(cfg, xv + 0.25 * e) - fresh_forward(cfg, xv - 0.25 * e)).ravel() / 0.5 for e in np.eye(npar)])
        jac_calls = []

        def jacobian_wrt_parameter(self, wrt, cfg=cfg, jac_calls=jac_calls):      # reads the configuration current at call time
            jac_calls.append(np.array(wrt, dtype=float))
            return fresh_jac(cfg, np.array(wrt, dtype=float))
        SJ = type("SteadyJ", (SteadyStateLinearPDE,), {"jacobian_wrt_parameter": jacobian_wrt_parameter})
        TJ = type("TimeJ", (TimeDependentLinearPDE,), {"jacobian_wrt_parameter": jacobian_wrt_parameter})
        try:
            with quiet():
                pde = build(cfg, SJ, TJ)
                model = PDEModel(pde, Continuous1D(N), Continuous1D(npar))
                model_b = PDEModel(pde, Continuous1D(N), Continuous1D(npar))      # a second owner of the same PDE object
        except Exception as e:  # noqa
            ctx.note(f"history object could not be built: {type(e).__name__}")
            continue
        if not steady:
            cfg["tobs"] = np.asarray(pde._time_obs, dtype=float).copy()
        xref = None
        hist = []
        force_fwd = False
        nops = rng.randint(5, 10)
        for step in range(nops):
            r = rng.random()
            if xref is None or r < 0.16:
                op = "fwd_new"
            elif r < 0.36:
                op = "fwd_inplace"
            elif r < 0.50:
                op = "fwd_equal_copy"
            elif r < 0.58:
                op = "set_grid_obs"
            elif r < 0.65:
                op = "set_om"
            elif r < 0.73:
                op = "set_method" if not steady else "set_grid_obs"
            elif r < 0.80:
                op = "set_ts" if not steady else "set_om"
            elif r < 0.86:
                op = "set_tobs" if not steady else "manual"
            elif r < 0.91:
                op = "manual"
            elif r < 0.96:
                op = "grad"
            else:
                op = "assemble_other"
            if shortgrid and op in ("set_grid_obs", "set_tobs"):
                op = "fwd_new"
            if op in ("set_om", "set_grid_obs") and not shortgrid and rng.random() < 0.35:
                op = "set_grid_sol"
            if op in ("fwd_inplace", "fwd_equal_copy") and rng.random() < 0.2:
                op = "fwd_other_model"
            if force_fwd and xref is not None:
                op = rng.choice(["fwd_equal_copy", "fwd_new"]); force_fwd = False
            cov[op] = cov.get(op, 0) + 1
            y, xval, what = None, None, None
            herr = None
            try:
                with quiet():
                    if op == "fwd_new":
                        xref = newx(); xval = xref.copy(); y = model.forward(xref)
                    elif op == "fwd_inplace":
                        k = rng.randint(0, npar - 1)
                        xref[k] += rng.choice([1.0, 0.5, 2.0])          # the SAME ndarray, modified in place
                        xval = xref.copy(); y = model.forward(xref)
                    elif op == "fwd_equal_copy":
                        x2 = xref.copy(); xval = x2.copy(); y = model.forward(x2)
                    elif op == "fwd_other_model":
                        xref = newx(); xval = xref.copy(); y = model_b.forward(xref)
                    elif op == "set_grid_obs":
                        cfg["go"] = new_go(); pde.grid_obs = cfg["go"]
                        if cfg["omtok"].startswith("take") or cfg["omtok"].startswith("left"):
                            pass
                    elif op == "set_grid_sol":
                        # e.g. the mesh is moved/refined while the sensors stay: grid_obs keeps the nodes it had
                        if rng.random() < 0.6:          # the sensors sit on the current solution nodes ...
                            cfg["go"] = None; pde.grid_obs = None
                        if cfg["go"] is None:
                            cfg["go"] = np.array(cfg["gs"], dtype=float).copy()
                        newg = interior_shift(rng, gs0)[0] if rng.random() < 0.8 else gs0.copy()      # ... and the mesh moves
                        cfg["gs"] = newg; pde.grid_sol = newg
                        force_fwd = True
                    elif op == "set_om":
                        cfg["om"], cfg["omtok"] = new_om(cfg["go"]); pde.observation_map = cfg["om"]
                    elif op == "set_method":
                        cfg["method"] = [m for m in METHODS if m != cfg["method"]][0]; pde.method = cfg["method"]
                    elif op == "set_ts":
                        old = cfg["ts"]
                        t = new_ts()
                        if shortgrid and rng.random() < 0.5:
                            t = t[[0, -1]]                                                 # exactly one step
                        t = old[0] + (t - t[0]) * (old[-1] - old[0]) / (t[-1] - t[0])     # same span, other levels
                        t[-1] = old[-1]
                        cfg["ts"] = t; pde.time_steps = t
                    elif op == "set_tobs":
                        tob, _, tcl = gen_tobs(rng, cfg["ts"])
                        while isinstance(tob, str) or tob is None or tcl.startswith("all-final-len"):
                            tob, _, tcl = gen_tobs(rng, cfg["ts"])
                        cfg["tobs"] = np.asarray(tob, dtype=float); pde._time_obs = cfg["tobs"]
                    elif op == "manual":
                        xm = newx(); xval = xm.copy()
                        pde.assemble(xm); sol_m, _ = pde.solve(); y = pde.observe(sol_m)
                    elif op == "assemble_other":
                        pde.assemble(newx())        # leaves another parameter assembled; the next forward must not use it
                    elif op == "grad":
                        y0 = fresh_forward(cfg, xref)
                        if y0.ndim == 1 and len(y0) >= 1:
                            direction = dyv(rng, len(y0)); direction[0] += 1.0
                            del jac_calls[:]
                            g = np.asarray(model.gradient(direction, xref), dtype=float)
                            gref = direction @ fresh_jac(cfg, xref.copy())
                            gdesc = {"pde": "steady" if steady else "time", "flavour": flavour, "history": list(hist) + ["grad"], "x": xref.tolist(),
                                     "direction": direction.tolist(), "obs_map": cfg["omtok"]}
                            ctx.case("history-gradient", gdesc)
                            gkey = f"PDEModel.gradient:history:{'steady' if steady else 'time'}"
                            if not arr_same(gref, g, 1e-9) or not (jac_calls and np.array_equal(jac_calls[0], xref)):
                                ctx.fail(gkey, gdesc, "direction @ Jacobian of the current pipeline at the current parameter: " + short(gref), short(g),
                                         "gradient on a re-used object is not that of the pipeline for the current parameter and configuration")
            except Exception as e:  # noqa
                herr = type(e).__name__
            hist.append(op)
            if xval is None:
                if herr is not None and op != "grad":
                    raise RuntimeError(f"history op {op} raised {herr} (harness bug or a setter that refuses a valid value)")
                continue
            # ---- reference: a fresh object with the current configuration
            desc = {"pde": "steady" if steady else "time", "flavour": flavour, "N": N, "history": list(hist), "x": xval.tolist(), "grid_sol": np.asarray(cfg["gs"]).tolist(),
                    "grid_obs": None if cfg["go"] is None else np.asarray(cfg["go"]).tolist(), "obs_map": cfg["omtok"]}
            if not steady:
                desc.update(method=cfg["method"], time_steps=cfg["ts"].tolist(), time_obs=cfg["tobs"].tolist())
            last_reconf = next((h for h in reversed(hist[:-1]) if h.startswith("set_") or h in ("manual", "assemble_other")), "none")
            if any(h.startswith("fwd") for h in hist[:-1]):
                idx_prev_fwd = max(i for i, h in enumerate(hist[:-1]) if h.startswith("fwd") or h == "manual")
                since = [h for h in hist[idx_prev_fwd + 1:-1]]
                last_reconf = since[-1] if since else "none"
            key = f"PDEModel.forward:history:{'steady' if steady else 'time'}:{op}:after-{last_reconf}"
            ctx.case("history-" + ("steady" if steady else "time"), desc)
            rerr, ref, rsol = None, None, None
            try:
                with quiet():
                    c2 = dict(cfg)
                    if not steady:
                        c2["tobs_arg"] = cfg["tobs"]
                    fresh = build(c2)
                    fresh.assemble(xval.copy()); rsol, _ = fresh.solve(); ref = np.asarray(fresh.observe(rsol), dtype=float)
                    rsol = np.asarray(rsol, dtype=float)
            except Exception as e:  # noqa
                rerr = type(e).__name__
            if rerr is not None:
                if herr is None:
                    ctx.note(f"history call returns where a fresh object with the same configuration raises {rerr}: {hist}")
                continue
            if herr is not None:
                ctx.fail(key, desc, "output of the pipeline for the current parameter and configuration: " + short(ref), "err:" + herr,
                         "a call on a re-used object raises where a fresh object with the same configuration succeeds")
                continue
            y_obj = y
            y = np.array(y, dtype=float)
            # (G3) the caller may do what it likes with the returned array: later results must not depend on it
            try:
                if isinstance(y_obj, np.ndarray) and y_obj.flags.writeable:
                    y_obj += 1000.0
                if op == "manual" and isinstance(sol_m, np.ndarray):
                    sol_m += 1000.0
            except Exception:
                pass
            if not arr_same(ref, y, 1e-12):
                ctx.fail(key, desc, "pipeline for the CURRENT parameter/configuration (fresh object): " + short(ref), short(y),
                         "output of a re-used PDE/PDEModel object is not that of the assemble-solve-observe pipeline for the current parameter and configuration")
            # ---- tie: the exact model at the current configuration
            gsc = cfg["gs"]
            go_eff = gsc if cfg["go"] is None else np.asarray(cfg["go"], dtype=float)
            gtok = f"init:{grid_tok(gsc)}:{grid_tok(cfg['go'])}"
            try:
                with quiet():
                    if steady:
                        Wtok = qv(np.asarray(scipy.interpolate.interp1d(gsc, rsol, kind="quadratic")(go_eff), dtype=float))
                    else:
                        Wm = np.asarray(scipy.interpolate.RectBivariateSpline(gsc, cfg["ts"], rsol)(go_eff, cfg["tobs"]), dtype=float)
                        Wtok = qm(Wm)
            except Exception:
                Wtok = "err"
            if steady:
                line = f"pipes {N} plain {fam_tokens(F)} {qv(xval)} {gtok} {Wtok} {cfg['omtok']}"
            else:
                line = f"pipet {N} {cfg['method']} plain {qv(cfg['ts'])} {fam_tokens(F)} {qv(xval)} {gtok} v:{qv(cfg['tobs'])} {Wtok} {cfg['omtok']}"
            pending.append((line, y, key, desc))
    if ncases >= 30:
        missing = [o for o in ("fwd_new", "fwd_inplace", "fwd_equal_copy", "fwd_other_model", "set_grid_obs", "set_om", "set_method", "set_ts", "manual", "grad") if cov.get(o, 0) < 3]
        if missing:
            raise RuntimeError(f"history generator does not exercise {missing} (generator broken)")
    outs = yield [p_[0] for p_ in pending]
    for (line, y, key, desc), out in zip(pending, outs):
        if out.startswith("err:") or out == "bad-op":
            ctx.disagree(key, desc, out, short(y), "model refuses, implementation returns")
            continue
        if not arr_same(parse_arr(out), y):
            ctx.disagree(key, desc, short(parse_arr(out)), short(y), "output after this history differs from the exact pipeline at the current configuration")


# ----------------------------------------------------------------------------------------------- H. shipped test problems
def check_testproblems(ctx, cuqi, rng, thorough):
    from cuqi.testproblem import Poisson1D, Heat1D
    state = np.random.get_state()
    try:
        configs = []
        for dim in ([5, 9] if not thorough else [5, 9, 17, 12]):
            for obsmap in (None, "sub", "off", "shuf", "interior"):
                configs.append(("Poisson1D", dim, obsmap))
        for dim in ([4, 7] if not thorough else [4, 7, 15, 10]):
            for obsmap in (None, "sub", "off", "interior"):
                configs.append(("Heat1D", dim, obsmap))
        lines, cases = [], []
        for name, dim, obsmap in configs:
            np.random.seed(ctx.seed + 1800 + dim)
            if obsmap == "sub":
                gmap = lambda g: g[1::2] if len(g) > 2 else g[:1]
            elif obsmap == "off":
                gmap = lambda g: (g[:-1] + g[1:]) / 2
            elif obsmap == "interior":  # same length and end nodes as the solution grid, one interior node moved half a cell
                def gmap(g):
                    g2 = np.array(g, dtype=float).copy(); j = len(g2) // 2; g2[j] = (g2[j] + g2[j + 1]) / 2
                    return g2
            elif obsmap == "shuf":      # nodes in arbitrary order, one repeated, one off-node point in between
                gmap = lambda g: np.array([g[3], g[0], (g[1] + g[2]) / 2, g[2], g[3]])
            else:
                gmap = None
            desc = {"problem": name, "dim": dim, "observation_grid_map": obsmap}
            key = f"{name}.model:{obsmap or 'full'}"
            try:
                with quiet():
                    if name == "Poisson1D":
                        tp = Poisson1D(dim=dim, endpoint=1, observation_grid_map=gmap)
                    else:
                        tp = Heat1D(dim=dim, endpoint=1, max_time=0.02 if dim > 7 else 0.1, observation_grid_map=gmap)
                    model = tp.model
                    pde = model.pde
                    x = np.asarray(tp.exactSolution, dtype=float) + (1.0 if name == "Poisson1D" else 0.0)
                    y = np.asarray(model.forward(x), dtype=float)
                    pde.assemble(x)
                    sol, _ = pde.solve()
                    sol = np.asarray(sol, dtype=float)
                    manual = np.asarray(pde.observe(sol), dtype=float)
            except Exception as e:  # noqa
                if obsmap == "off" and dim <= 5:
                    ctx.note(f"{name}(dim={dim}, off-node grid) refused by scipy (too few nodes): {type(e).__name__}")
                    continue
                ctx.case("testproblem", desc)
                ctx.fail(key, desc, "a forward output", repr(e)[:200], "shipped PDE test problem raises")
                continue
            ctx.case("testproblem", desc)
            gs = np.asarray(pde.grid_sol, dtype=float); go = np.asarray(pde.grid_obs, dtype=float)
            if not arr_same(manual, y, 1e-12):
                ctx.fail(key, desc, "observe(solve(assemble(x))[0]) = " + short(manual), short(y), "test problem's model.forward is not the assemble-solve-observe pipeline of its PDE")
            # the observation is the final solution on the observation grid (exact on coinciding nodes)
            fin = sol if sol.ndim == 1 else sol[:, -1]
            gsl = gs.tolist()
            if np.asarray(y).shape != (len(go),):
                ctx.fail(key, desc, f"one value per observation point: shape ({len(go)},)", f"shape {np.asarray(y).shape}",
                         "test problem's observation does not have one entry per observation point")
            for a, v in enumerate(go.tolist() if np.asarray(y).shape == (len(go),) else []):
                if v in gsl and not close(float(np.asarray(y).ravel()[a]), float(fin[gsl.index(v)]), 1e-9):
                    ctx.fail(key, desc, f"y[{a}] = solution at node {v} = {fin[gsl.index(v)]}", float(np.asarray(y).ravel()[a]),
                             "test problem's observation at a coinciding node is not the solution value")
                    break
            if name == "Poisson1D":
                A, b = pde.PDE_form(x)
                n = len(b)
                # documented discretisation: A = Dx^T diag(x) Dx ; leaf: Dx recovered from the form at unit parameters is not needed,
                # the driver gets the assembled A as A0 (leaf) and the exact solve/observe are the model's
                F = {"n": n, "A0": np.asarray(A, dtype=float), "b0": np.asarray(b, dtype=float)}
                res = np.abs(A @ sol - b).max() / (1.0 + np.abs(b).max() + np.abs(A).sum(axis=1).max() * np.abs(sol).max())
                try:
                    W = np.asarray(scipy.interpolate.interp1d(gs, sol, kind="quadratic")(go), dtype=float); Wtok = qv(W)
                except Exception:
                    Wtok = "err"
                lines.append(f"pipes {n} plain {fam_tokens(F)} _ init:{grid_tok(gs)}:{grid_tok(go)} {Wtok} id")
                # the documented operator: D^T diag(x) D with the (N+1) x N difference matrix of spacing endpoint/N
                N = dim - 1
                Dref = np.vstack([np.eye(N)[0:1], -np.eye(N) + np.diag(np.ones(N - 1), 1)]) * N
                if not arr_same(Dref.T @ np.diag(x) @ Dref, A, 1e-12):
                    ctx.fail(key + ":operator", desc, "Dx^T diag(x) Dx", "differs", "Poisson1D operator is not the documented discretisation")
            else:
                ts = np.asarray(pde.time_steps, dtype=float)
                A, b, ic = pde.PDE_form(x, ts[0])
                A2, b2, ic2 = pde.PDE_form(x, ts[-1])
                n = len(b)
                F = {"n": n, "A0": np.asarray(A, dtype=float), "b0": np.asarray(b, dtype=float), "C": np.eye(n)}
                if not (np.array_equal(A, A2) and np.array_equal(b, b2) and np.array_equal(ic, x) and np.array_equal(ic2, x)):
                    ctx.fail(key + ":form", desc, "time-independent operator, zero source, ic = parameter", "differs", "Heat1D form is not the documented one")
                res, _ = time_residual(F, x, ts, pde.method, sol)
                try:
                    W = np.asarray(scipy.interpolate.RectBivariateSpline(gs, ts, sol)(go, ts[-1:]), dtype=float); Wtok = qm(W)
                except Exception:
                    Wtok = "err"
                lines.append(f"pipet {n} {pde.method} plain {qv(ts)} {fam_tokens(F)} {qv(x)} init:{grid_tok(gs)}:{grid_tok(go)} str:final {Wtok} id")
            cases.append((key, desc, y, res))
        outs = yield lines
        for (key, desc, y, res), out in zip(cases, outs):
            bad = False
            if not res <= TOL:
                bad = True
                ctx.fail(key, desc, "discrete equations satisfied", f"scaled residual {res:.3e}", "test problem's solution violates its discrete equations")
            if out.startswith("err:"):
                ctx.disagree(key, desc, out, short(y), "model refuses, implementation returns")
                continue
            am = parse_arr(out)
            if not arr_same(am, y, 1e-8):
                ctx.disagree(key, desc, short(am), short(y), "forward output of the shipped problem differs")
    finally:
        np.random.set_state(state)
