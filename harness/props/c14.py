"""C14 — chains are continuous, resumable from a checkpoint, and recorded faithfully.

Tie (model vs implementation):
  * `Toy(Sampler)`: a harness-defined integer sampler on the REAL base class `Sampler` run on random
    op programs (sample / warmup / save / load-into-fresh / load / reinitialize / bad set_state);
    every snapshot (stored samples, acceptance records, callback log, tuning calls, state
    dictionary) is compared exactly with `Driver/C14.lean` (toySpec);
  * every library sampler of the stateful interface: same programs, the transition outcomes are
    recorded from the implementation and the model (replaySpec) predicts storage, callback
    (sample, index) pairs, tuning-call positions/arguments and state after save/load/reinit;
  * every sampler of the stateless interface: stored chain and callback log against `legacySample`
    with the flags the AST translator reads from the source;
  * HybridGibbs / legacy Gibbs storage and tuning calls; `int(tune_freq*Nb)` float model.
Oracle (property itself, implementation only, run on every case): N-then-M == N+M bitwise for every
split position, checkpoint -> fresh sampler -> same continuation bitwise for every position, exact
lengths, consecutive states, x0 first (stateless), stored entries never altered, exactly one callback
per transition with (state, index), reinitialize == freshly initialised.
"""
import os, sys, io, json, tempfile, importlib.util, contextlib
import numpy as np
from harness.core import import_cuqi, quiet, q, REPO, VERIF


# ----------------------------------------------------------------------------- small utilities
class Ids:
    """identifiers of points by content"""
    def __init__(self):
        self.d = {}
    def __call__(self, x):
        k = np.asarray(x, dtype=float).tobytes()
        if k not in self.d:
            self.d[k] = len(self.d)
        return self.d[k]


def same(a, b):
    a = np.asarray(a, dtype=float); b = np.asarray(b, dtype=float)
    return a.shape == b.shape and np.array_equal(a, b, equal_nan=True)


def chains_equal(c1, c2):
    return len(c1) == len(c2) and all(same(x, y) for x, y in zip(c1, c2))


def first_diff(c1, c2):
    for i, (x, y) in enumerate(zip(c1, c2)):
        if not same(x, y):
            return i
    return min(len(c1), len(c2))


def reseed(s):
    np.random.seed(s)
    try:
        import scipy.linalg.interpolative as sli
        sli.seed("default")
    except Exception:
        pass


def mirror_failure(ctx, key, desc, prefix=None):
    """after the oracle ran for a model/implementation disagreement `key`: if it exhibited a failing
    input that is not a listed known finding, report it under the disagreement's own key as well
    (the framework pairs disagreements and failures by key)"""
    from harness.core import KnownMap
    known = KnownMap([k for k in ctx.known if k.get("status", "open") == "open"])
    for f in ctx.failures:
        if f["key"].startswith((prefix or key) + ":") and f["key"] != key and f["key"] not in known:
            ctx.fail(key, desc, f["demanded"], f["got"], f"{f['what']} [{f['key']}]")
            return True
    return False


def cols(arr, n):
    """columns of a sample array holding n states (dim-1 chains come back as a 1-D array)"""
    arr = np.asarray(arr, dtype=float)
    if arr.ndim == 1:
        arr = arr.reshape(1, -1) if arr.shape[0] == n else arr.reshape(-1, 1)
    return [arr[:, j] for j in range(arr.shape[1])]


def flat_equal(c1, c2):
    return len(c1) == len(c2) and all(same(np.ravel(x), np.ravel(y)) for x, y in zip(c1, c2))


def callback_forms():
    """(name, callable to hand to the sampler, function returning the (state, index) log) — callables that are valid
    but unusual: falsy objects (empty list subclass, __bool__ False, __len__ 0), bound method, functools.partial"""
    import functools

    class RecorderList(list):
        def __call__(self, s, i):
            self.append((np.array(s, dtype=float, copy=True), int(i)))

    class FalsyRecorder:
        def __init__(self): self.log = []
        def __bool__(self): return False
        def __call__(self, s, i): self.log.append((np.array(s, dtype=float, copy=True), int(i)))

    class LenZeroRecorder:
        def __init__(self): self.log = []
        def __len__(self): return 0
        def __call__(self, s, i): self.log.append((np.array(s, dtype=float, copy=True), int(i)))

    class Holder:
        def __init__(self): self.log = []
        def method(self, s, i): self.log.append((np.array(s, dtype=float, copy=True), int(i)))

    def plain(log, s, i):
        log.append((np.array(s, dtype=float, copy=True), int(i)))

    r1, r2, r3, h, pl = RecorderList(), FalsyRecorder(), LenZeroRecorder(), Holder(), []
    return [("empty-list-subclass", r1, lambda: list(r1)), ("bool-false-object", r2, lambda: r2.log),
            ("len-zero-object", r3, lambda: r3.log), ("bound-method", h.method, lambda: h.log),
            ("functools.partial", functools.partial(plain, pl), lambda: pl)]


def clean_batch_dir(ckpath):
    d = os.path.join(os.path.dirname(ckpath), "batches")
    os.makedirs(d, exist_ok=True)
    for f in os.listdir(d):
        os.remove(os.path.join(d, f))
    return d + "/"


def read_batch_files(bdir):
    """list (one entry per file, in file-name order) of the list of states the file holds"""
    out = []
    for f in sorted(os.listdir(bdir)):
        if f.endswith(".npz"):
            with np.load(os.path.join(bdir, f)) as z:
                arr = np.asarray(z["samples"])
            out.append([np.array(row, dtype=float) for row in arr.reshape(arr.shape[0], -1)] if arr.size else [])
    return out


def x0_variants(dim):
    """(name, start as given, the same numbers as float64)"""
    pat = [3, -2, 1, 0, 2, -1]
    ints = [pat[i % 6] for i in range(dim)]
    bits = [1 - (i % 2) for i in range(dim)]
    V = [("int64", np.array(ints, dtype=np.int64)), ("int32", np.array(ints, dtype=np.int32)),
         ("float32", np.array(ints, dtype=np.float32)), ("bool", np.array(bits, dtype=bool)),
         ("list-of-int", list(ints)),
         ("int8", np.array(ints, dtype=np.int8)), ("uint8", np.array([abs(t) for t in ints], dtype=np.uint8)),
         ("float16", np.array(ints, dtype=np.float16))]
    # G7: same float64 numbers, other array properties
    f = np.array(ints, dtype=np.float64)
    strided = np.empty(2 * dim); strided[::2] = f; strided[1::2] = 99.0
    ro = f.copy(); ro.setflags(write=False)
    V += [("float64-strided-view", strided[::2]), ("float64-reversed-view", f[::-1].copy()[::-1]),
          ("float64-readonly", ro), ("float64-fortran-column", np.asfortranarray(f.reshape(-1, 1))[:, 0])]
    return [(n, v, np.array(v, dtype=np.float64)) for n, v in V]


def advance_private_rng(k):
    """the fresh sampler that loads a checkpoint is constructed at some other position of scipy's
    private (Fortran) generator than the original one was"""
    try:
        import scipy.linalg.interpolative as sli
        sli.rand(3 * k)
    except Exception:
        pass


def parse_snapshot(s):
    out = {}
    for part in s.split(";"):
        k, _, v = part.partition("=")
        out[k] = v
    return out


def load_translator():
    spec = importlib.util.spec_from_file_location("c14_tables", os.path.join(VERIF, "harness", "translate", "c14_tables.py"))
    mod = importlib.util.module_from_spec(spec)
    spec.loader.exec_module(mod)
    return mod


class _Bar:
    def __init__(self, it): self.it = it
    def __iter__(self): return iter(self.it)
    def set_postfix_str(self, *a, **k): pass


def _tqdm(it, *a, **k):
    return _Bar(it)


# ----------------------------------------------------------------------------- main
def run(ctx):
    cuqi = import_cuqi()
    import cuqi.experimental.mcmc as M
    import cuqi.experimental.mcmc._sampler as S_mod
    import cuqi.experimental.mcmc._gibbs as G_mod
    S_mod.tqdm = _tqdm
    G_mod.tqdm = _tqdm
    thorough = ctx.tier == "thorough"
    rng = ctx.rng
    saved_np_state = np.random.get_state()
    tmpdir = tempfile.mkdtemp(prefix="c14_")
    ckpath = os.path.join(tmpdir, "ck.pkl")
    ctx.trusted += ["pickle round trip of numpy arrays (save_checkpoint/load_checkpoint)",
                    "harness/translate/c14_tables.py (AST -> Generated/C14Tables.lean)",
                    "numpy global RandomState get_state/set_state as 'the same random stream'"]
    ctx.assumptions += ["chains are compared bitwise (np.array_equal)",
                        "for library samplers the transition outcomes fed to the model are recorded from the implementation (leaf data); "
                        "the model decides storage, indices, callbacks, tuning calls, checkpoints",
                        "scipy.linalg.interpolative's private generator is reset at the start of every run but not before the "
                        "construction of the fresh sampler that loads a checkpoint"]
    try:
        with quiet():
            _run(ctx, cuqi, M, thorough, rng, ckpath)
    finally:
        np.random.set_state(saved_np_state)
        try:
            import shutil
            shutil.rmtree(tmpdir, ignore_errors=True)
        except Exception:
            pass


def _run(ctx, cuqi, M, thorough, rng, ckpath):
    Sampler = M.Sampler
    seed = ctx.seed

    # ========================================================================= Toy on the real base class
    class Script:
        def __init__(self, vals):
            self.vals, self.pos = list(vals), 0
        def next(self):
            if self.pos < len(self.vals):
                v = self.vals[self.pos]; self.pos += 1
                return v
            return None

    class Toy(Sampler):
        _STATE_KEYS = Sampler._STATE_KEYS.union({'scale', 'eps_bar'})
        def __init__(self, target=None, scale=1, script=None, **kw):
            super().__init__(target, **kw)
            self.initial_scale = scale
            self.script = script
        def _initialize(self):
            self.scale = self.initial_scale
            self.eps_bar = "unset"
        def validate_target(self):
            pass
        def step(self):
            d = self.script.next()
            if d is None:
                return 0
            prop = self.current_point + self.scale * d
            if d % 2 == 0:
                self.current_point = prop
                return 1
            u = self.script.next()
            if u is None:
                self.script.pos = len(self.script.vals)
                return 0
            if u <= self.eps_bar:
                self.current_point = prop
                return 1
            return 0
        def tune(self, skip_len, update_count):
            self.scale = self.scale + int(sum(self._acc[-skip_len:])) + update_count
            self.eps_bar = self.eps_bar + 1
        def _pre_sample(self):
            if self.eps_bar == "unset":
                self.eps_bar = self.scale
        def _pre_warmup(self):
            if self.eps_bar == "unset":
                self.eps_bar = 1

    dummy_targets = {d: cuqi.distribution.Gaussian(np.zeros(d), 1) for d in (1, 2, 3)}
    TFS = [0.1, 0.25, 0.3, 0.5, 1.0, 0.05, 0.7]

    def fmt_point(x):
        v = [int(t) for t in np.asarray(x).ravel()]
        return ":".join(str(t) for t in v) if v else "e"

    def fmt_val(v):
        if v is None:
            return "N"
        if isinstance(v, str):
            return "U" if v == "unset" else "?"
        if isinstance(v, np.ndarray):
            return fmt_point(v)
        return str(int(v))

    def cj(xs):
        xs = list(xs)
        return ",".join(xs) if xs else "_"

    def gen_program(api=False):
        ops, saved = [], False
        for _ in range(rng.randint(3, 9)):
            r = rng.random()
            if api and rng.random() < 0.15:
                ops.append(rng.choice(["init", "init", "loadtype", "loadpart"]))
                continue
            if r < 0.30:
                if rng.random() < 0.35:
                    ops.append(("b", rng.randint(0, 7), rng.choice([1, 1, 2, 3, 4, 9])))
                else:
                    ops.append(f"s{rng.randint(0, 6)}")
            elif r < 0.50:
                ops.append(("w", rng.randint(0, 9), rng.choice(TFS)))
            elif r < 0.62:
                ops.append("save"); saved = True
            elif r < 0.72 and saved:
                ops.append("load")
            elif r < 0.78 and saved:
                ops.append("loadsame")
            elif r < 0.86:
                ops.append("reinit")
            elif r < 0.90:
                # a key that is no attribute at all, or an attribute of the sampler that is not a state key
                ops.append(rng.choice(["badload", "badload:initial_point", "badload:_samples", "badload:_acc", "badload:_is_initialized"]))
            else:
                ops.append("get")
        ops.append("get")
        return ops

    def op_str(op):
        if isinstance(op, str):
            return op
        return f"s{op[1]}b{op[2]}" if op[0] == "b" else f"w{op[1]}@{q(op[2])}"

    def run_program_impl(mk, ops, snapshot, fmt_pt=None):
        """execute an op program on the implementation; `mk(events, tunes)` builds a fresh sampler
        whose callback/tune calls are logged into the shared lists; returns list of snapshot strings"""
        events, tunes, out = [], [], []
        s = mk(events, tunes)
        for i, op in enumerate(ops):
            try:
                if op == "get":
                    out.append(snapshot(s, events, tunes))
                elif op == "save":
                    s.save_checkpoint(ckpath)
                elif op == "load":
                    f = mk(events, tunes)
                    f.load_checkpoint(ckpath)
                    s = f
                elif op == "loadsame":
                    s.load_checkpoint(ckpath)
                elif isinstance(op, str) and op.startswith("badload"):
                    import pickle
                    bad = ckpath + ".bad"
                    bkey = op.split(":")[1] if ":" in op else "not_a_state_key"
                    with open(bad, "wb") as fh:
                        pickle.dump({"metadata": {"sampler_type": s.__class__.__name__}, "state": {bkey: getattr(s, bkey, 0)}}, fh)
                    try:
                        s.load_checkpoint(bad)
                        out.append("accepted")
                    except ValueError:
                        if not s._is_initialized:
                            raise      # `_ensure_initialized()` itself refused (configuration rejected): the op fails as a whole
                        out.append("refused")
                elif op == "reinit":
                    s.reinitialize()
                elif op == "init":
                    was_init = bool(s._is_initialized)
                    try:
                        s.initialize()
                        out.append("ok")
                    except ValueError:
                        # which refusal it is follows from the situation, not from the wording of the message
                        out.append("E:already" if was_init else "E:unset")
                elif op in ("loadtype", "loadpart"):
                    import pickle
                    bad = ckpath + ".bad"
                    st_ = ({"metadata": {"sampler_type": "SomeOtherSampler"}, "state": {"current_point": 0}} if op == "loadtype" else
                           {"metadata": {"sampler_type": s.__class__.__name__}, "state": {"scale": 9, "not_a_state_key": 0}})
                    with open(bad, "wb") as fh:
                        pickle.dump(st_, fh)
                    was_init = bool(s._is_initialized)
                    try:
                        s.load_checkpoint(bad)
                        out.append("ok")
                    except ValueError:
                        if not s._is_initialized:
                            raise      # `_ensure_initialized()` itself refused (configuration rejected): the op fails as a whole
                        out.append("E:type" if op == "loadtype" else "E:key")
                elif isinstance(op, tuple) and op[0] == "b":
                    bdir = clean_batch_dir(ckpath)
                    s.sample(op[1], batch_size=op[2], sample_path=bdir)
                    files = read_batch_files(bdir)
                    out.append("F=" + ("|".join(cj(fmt_pt(x) for x in f) for f in files) if files else "_"))
                elif isinstance(op, tuple):
                    s.warmup(op[1], tune_freq=op[2])
                else:
                    s.sample(int(op[1:]))
            except Exception as e:
                return f"err:{i}", repr(e)[:200]
        return "#".join(out) if out else "_", None

    def wrap_tune(s, tunes):
        orig = s.tune
        def tune(skip_len, update_count):
            tunes.append((len(s._samples), int(skip_len), int(update_count)))
            return orig(skip_len, update_count)
        s.tune = tune

    n_toy = 400 if thorough else 120
    lines, cases = [], []
    api_hist = {"init": 0, "loadtype": 0, "loadpart": 0, "badload": 0, "reinit": 0, "x0=None": 0, "scale=None": 0}
    for k in range(n_toy):
        dim = rng.choice([1, 2, 3])
        x0 = [rng.randint(-3, 3) for _ in range(dim)]
        scale = rng.randint(1, 3)
        stream = [rng.randint(-4, 6) for _ in range(90)]
        api = k % 3 == 2          # a third of the programs exercise the guards / error branches of the base class
        ops = gen_program(api)
        if api and rng.random() < 0.3:
            x0 = None             # no initial point given: np.ones(dim)
        if api and rng.random() < 0.12:
            scale = None          # `_validate_initialization` rejects the configuration
        for o in ops:
            if isinstance(o, str) and o.split(":")[0] in api_hist:
                api_hist[o.split(":")[0]] += 1
        api_hist["x0=None"] += int(x0 is None); api_hist["scale=None"] += int(scale is None)
        lines.append(f"exp toy {'N%d' % dim if x0 is None else ':'.join(map(str, x0))} {'N' if scale is None else scale} {';'.join(op_str(o) for o in ops)} {','.join(map(str, stream))}")
        cases.append((dim, x0, scale, stream, ops))
    ctx.extra_cov["base_class_api_ops"] = api_hist
    # float model of the tuning interval
    ti_cases = [(tf, nb) for tf in TFS + [0.2, 0.15, 0.35, 0.9, 1e-3] for nb in list(range(0, 41)) + [100, 1000, 12345]]
    for tf, nb in ti_cases:
        lines.append(f"ti {q(tf)} {nb}")
    # Samples.burnthin(Nb, Nt) on the returned object (how the stateful interface discards burn-in) vs `burnthin`
    bt_cases = [(n, nb, nt) for n in (1, 2, 3, 5, 8, 12) for nb in range(0, n + 2) for nt in (0, 1, 2, 3, 5, n, n + 1)]
    for n, nb, nt in bt_cases:
        lines.append(f"bt {n} {nb} {nt}")
    outs = ctx.lean.drive(lines)
    bt_outs = outs[n_toy + len(ti_cases):]
    bt_hist = {"kept": 0, "refused": 0}
    for (n, nb, nt), out in zip(bt_cases, bt_outs):
        ctx.case("burnthin-tie", {"Ns": n, "Nb": nb, "Nt": nt}, nontrivial=False)
        try:
            r_ = cuqi.samples.Samples(np.arange(n, dtype=float).reshape(1, n)).burnthin(nb, nt)
            impl = ",".join(str(int(v)) for v in np.ravel(r_.samples)) or "_"
            bt_hist["kept"] += 1
        except ValueError:
            impl = "err"; bt_hist["refused"] += 1
        if impl != out:
            key = "samples:burnthin"
            ctx.disagree(key, {"Ns": n, "Nb": nb, "Nt": nt}, out, impl, "Samples.burnthin differs from the model")
            if out != "err" and impl != "err":
                # the property on the implementation: the last states once Nb are discarded, every Nt-th, in order
                ctx.fail(key, {"Ns": n, "Nb": nb, "Nt": nt}, f"indices {list(range(nb, n, nt))}", impl, "burnthin does not return the recorded states after the burn-in, thinned as requested")
    ctx.extra_cov["burnthin_tie"] = bt_hist

    def toy_snapshot(s, events, tunes):
        init = bool(s._is_initialized)
        smp = getattr(s, "_samples", None) or []
        acc = getattr(s, "_acc", None) or []
        st = [("current_point", getattr(s, "current_point", None)), ("scale", getattr(s, "scale", None)), ("eps_bar", getattr(s, "eps_bar", None))]
        return ("S=" + cj(fmt_point(x) for x in smp) + ";A=" + cj(str(int(a)) for a in acc)
                + ";E=" + cj(f"{fmt_point(x)}@{i}" for x, i in events)
                + ";T=" + cj(f"{a}/{b}/{c}" for a, b, c in tunes)
                + ";K=" + cj(f"{k}={fmt_val(v)}" for k, v in st) + ";I=" + ("1" if init else "0"))

    def toy_factory(dim, x0, scale, script):
        def mk(events, tunes):
            cb = lambda x, i: events.append((np.array(x, copy=True), int(i)))
            s = Toy(dummy_targets[dim], scale=scale, script=script, initial_point=None if x0 is None else np.array(x0, dtype=np.int64), callback=cb)
            wrap_tune(s, tunes)
            return s
        return mk

    for (dim, x0, scale, stream, ops), out in zip(cases, outs[:n_toy]):
        desc = {"sampler": "Toy(Sampler)", "x0": x0, "scale": scale, "ops": [op_str(o) for o in ops], "stream": stream[:24]}
        ctx.case("base-class-program", desc)
        script = Script(stream)
        got, err = run_program_impl(toy_factory(dim, x0, scale, script), ops, toy_snapshot, fmt_point)
        if got != out:
            key = "exp:Sampler(base):program"
            ctx.disagree(key, desc, out[:400], (got + (" " + err if err else ""))[:400], "base-class record keeping differs from the model")
            # property oracle on the real base class with this toy configuration
            script_f = lambda: Script(stream)
            x0o, sco = (x0 if x0 is not None else [1] * dim), (scale if scale is not None else 1)
            oracle_stateful(ctx, cuqi, key, "Toy", lambda cb, sc=None: Toy(dummy_targets[dim], scale=sco, script=sc, initial_point=np.array(x0o, dtype=np.int64), callback=cb),
                            6, 3, 0.5, ckpath, seed, script_factory=script_f)
            mirror_failure(ctx, key, desc)
    for (tf, nb), out in zip(ti_cases, outs[n_toy:n_toy + len(ti_cases)]):
        ctx.case("tune-interval", {"tune_freq": tf, "Nb": nb}, nontrivial=False)
        want = max(int(tf * nb), 1)
        if out != str(want):
            ctx.disagree("exp:Sampler(base):tune-interval", {"tune_freq": tf, "Nb": nb}, out, want, "float model of int(tune_freq*Nb)")
    # always run the property oracle on the toy sampler for a few configurations (cheap)
    for k in range(6 if not thorough else 30):
        dim = rng.choice([1, 2]); x0 = [rng.randint(-2, 2) for _ in range(dim)]; scale = rng.randint(1, 3)
        stream = [rng.randint(-4, 6) for _ in range(200)]
        N = rng.randint(1, 8); K = rng.choice([0, 0, 3, 7]); tf = rng.choice(TFS)
        ctx.case("oracle-stateful", {"sampler": "Toy", "N": N, "K": K, "tf": tf})
        oracle_stateful(ctx, cuqi, "exp:Sampler(base)", "Toy",
                        lambda cb, sc=None, dim=dim, x0=x0, scale=scale: Toy(dummy_targets[dim], scale=scale, script=sc, initial_point=np.array(x0, dtype=np.int64), callback=cb),
                        N, K, tf, ckpath, seed, script_factory=lambda stream=stream: Script(stream))

    # ========================================================================= library samplers, stateful interface
    reseed(1000 + seed)
    T = build_targets(cuqi)
    configs = stateful_configs(cuqi, M, T)
    tr = load_translator()
    exp_tables, base_tables = tr.experimental_tables(REPO)
    leg_tables = {t["name"]: t for t in tr.legacy_tables(REPO)}
    table_names = {t["name"] for t in exp_tables}
    public = [n for n in dir(M) if isinstance(getattr(M, n), type) and issubclass(getattr(M, n), Sampler)
              and n not in ("Sampler", "ProposalBasedSampler")]
    covered = {c["cls"] for c in configs}
    for n in public:
        if n not in covered:
            ctx.note(f"stateful sampler class {n} has no configuration in the harness")
        if n not in table_names:
            ctx.note(f"stateful sampler class {n} missing from the generated tables")
    ctx.extra_cov["stateful_classes"] = sorted(public)

    Nmax = 12 if not thorough else 40
    rlines, rmeta = [], []
    for cfg in configs:
        name, mk = cfg["name"], cfg["mk"]
        reps = 1 if not thorough else 4
        for rep in range(reps):
            for K in ((0, 5) if not thorough else (0, 5, 20)):
                N = Nmax if cfg.get("fast", True) else max(4, Nmax // 2)
                tf = 0.1 if rep == 0 else rng.choice(TFS)
                desc = {"sampler": name, "N": N, "warmup": K, "tune_freq": tf, "rep": rep}
                ctx.case("oracle-stateful", desc)
                oracle_stateful(ctx, cuqi, f"exp:{name}", cfg["cls"], mk, N, K, tf, ckpath, seed + 17 * rep)
        # replay tie: programs with recorded outcomes
        for rep in range(2 if not thorough else 6):
            ops = gen_program()
            ids = Ids()
            steplog = []
            def mk2(events, tunes, mk=mk, ids=ids, steplog=steplog):
                cb = lambda x, i: events.append((ids(x), int(i)))
                s = mk(cb)
                wrap_tune(s, tunes)
                orig = s.step
                def step():
                    acc = orig()
                    steplog.append((ids(s.current_point), int(np.sum(acc) > 0)))
                    return acc
                s.step = step
                return s
            def snap(s, events, tunes, ids=ids):
                smp = getattr(s, "_samples", None) or []
                acc = getattr(s, "_acc", None) or []
                cp = getattr(s, "current_point", None)
                return ("S=" + cj(str(ids(x)) for x in smp) + ";A=" + str(len(acc))
                        + ";E=" + cj(f"{x}@{i}" for x, i in events) + ";T=" + cj(f"{a}/{b}/{c}" for a, b, c in tunes)
                        + ";K=current_point=" + ("N" if cp is None else str(ids(cp))) + ";I=" + ("1" if s._is_initialized else "0"))
            reseed(seed + 31 * rep)
            probe = mk(None)
            probe._ensure_initialized() if hasattr(probe, "_ensure_initialized") else None
            x0id = ids(probe.initial_point)
            reseed(seed + 31 * rep)
            got, err = run_program_impl(mk2, ops, snap, lambda x, ids=ids: str(ids(x)))
            stream = [v for pair in steplog for v in pair]
            rlines.append(f"exp replay {x0id} _ {';'.join(op_str(o) for o in ops)} {cj(map(str, stream))}")
            rmeta.append((name, [op_str(o) for o in ops], got, err))
    routs = ctx.lean.drive(rlines)
    for (name, ops, got, err), out in zip(rmeta, routs):
        desc = {"sampler": name, "ops": ops}
        ctx.case("replay-program", desc)
        ok = True
        if got.startswith("err") or out.startswith("err"):
            ok = got == out
        else:
            gs, ms = got.split("#"), out.split("#")
            ok = len(gs) == len(ms)
            for g, m in zip(gs, ms):
                if g in ("refused", "accepted") or m in ("refused", "accepted") or g.startswith("F=") or m.startswith("F="):
                    ok = ok and g == m
                    continue
                gd, md = parse_snapshot(g), parse_snapshot(m)
                md["A"] = str(0 if md["A"] == "_" else len(md["A"].split(",")))
                ok = ok and gd == md
        if not ok:
            key = f"exp:{name}:program"
            ctx.disagree(key, desc, out[:400], (got + (" " + err if err else ""))[:400], "record keeping of the sampler differs from the model")
            cfg = [c for c in configs if c["name"] == name][0]
            oracle_stateful(ctx, cuqi, key, cfg["cls"], cfg["mk"], 6, 3, 0.5, ckpath, seed)
            mirror_failure(ctx, key, desc)

    # ========================================================================= stateless interface
    import cuqi.sampler as L
    lcfgs = legacy_configs(cuqi, L, T)
    llines, lmeta = [], []
    NN = [(1, 0), (2, 0), (5, 0), (4, 3), (11, 2), (1, 1), (10, 0), (12, 5), (0, 0), (0, 2)]
    if thorough:
        NN += [(20, 7), (30, 0), (25, 25), (3, 9)]
    adapt_hist = {}
    for cfg in lcfgs:
        tab = leg_tables.get(cfg["cls"], {})
        meth = cfg["method"]
        tagm = "sample" if meth == "sample" else "adapt"
        view = bool(tab.get(tagm + "PassesView")) and bool(tab.get("updateStoresThroughArg"))
        cbflag = int(tab.get(tagm + "Callbacks", 0)) >= 1
        # adaptive entry points: lengths whose adaptation interval int(0.1*N) is 2, 3, 4 (with N <= 19 it is 1 and
        # "at every adaptation step" coincides with "at every transition")
        NN_cfg = NN + ([(23, 4), (31, 0), (40, 10)] if meth == "sample_adapt" else [])
        for (N, Nb) in NN_cfg:
            if not cfg["accepts"](N, Nb):
                continue
            desc = {"sampler": cfg["name"], "method": meth, "N": N, "Nb": Nb}
            if meth == "sample_adapt":
                adapt_hist[int(0.1 * N)] = adapt_hist.get(int(0.1 * N), 0) + 1
            ctx.case("legacy-run", desc, nontrivial=(N + Nb >= 2))
            res = run_legacy(cfg, N, Nb, seed)
            keyb = f"legacy:{cfg['name']}:{meth}"
            if res["error"] is not None:
                if N + Nb == 0:
                    llines.append(f"leg {int(view)} {int(cbflag)} {N} {Nb} 0 _"); lmeta.append((keyb, desc, "err"))
                else:
                    ctx.note(f"legacy {cfg['name']}.{meth}({N},{Nb}) raised {res['error'][:100]}")
                continue
            oracle_legacy(ctx, keyb, desc, res, N, Nb)
            if res["outs"] is None or len(res["outs"]) != N + Nb - 1:
                continue
            ids = Ids()
            x0id = ids(res["x0"])
            outs_ids = [ids(o) for o in res["outs"]]
            impl = "C=" + cj(str(ids(c)) for c in res["chain"]) + ";E=" + cj(f"{ids(x)}@{i}" for x, i in res["events"])
            llines.append(f"leg {int(view)} {int(cbflag)} {N} {Nb} {x0id} {cj(map(str, outs_ids))}")
            lmeta.append((keyb, desc, impl))
    # callbacks that are valid but unusual callables (falsy objects, bound methods, partials), with and without burn-in
    for cfg in lcfgs:
        for (N, Nb) in ([(11, 2)] if cfg["accepts"](11, 2) else []) + ([(4, 0)] if cfg["accepts"](4, 0) else []) + ([(23, 4)] if cfg["method"] == "sample_adapt" else []):
            keyb = f"legacy:{cfg['name']}:{cfg['method']}"
            for fname, fcb, flog in callback_forms():
                desc = {"sampler": cfg["name"], "method": cfg["method"], "N": N, "Nb": Nb, "callback": fname}
                ctx.case("legacy-callback-form", desc)
                try:
                    reseed(seed + 3)
                    s_ = cfg["mk"](fcb)
                    out = getattr(s_, cfg["method"])(N, Nb)
                    lg = flog()
                    arr = np.asarray(out.samples, dtype=float)
                except Exception as e:
                    ctx.fail(keyb + ":callback", desc, "callable callback accepted", repr(e)[:120], "a callable callback object makes the run raise")
                    continue
                if [i for _, i in lg] != list(range(1, N + Nb)):
                    ctx.fail(keyb + ":callback", desc, f"one call per transition, indices 1..{N + Nb - 1}", [i for _, i in lg][:20],
                             "a callable callback object is not invoked for every state produced by a transition")
    # G8/G5 on the stateless interface: the Samples returned by a first call are unchanged by a second call on the
    # same sampler object; `Nb` by keyword = positional
    for cfg in lcfgs:
        N, Nb = (11, 2) if cfg["accepts"](11, 2) else (5, 0)
        keyb = f"legacy:{cfg['name']}:{cfg['method']}"
        desc = {"sampler": cfg["name"], "method": cfg["method"], "ops": [f"r1 = {cfg['method']}({N},{Nb})", f"r2 = {cfg['method']}({N}, Nb={Nb})", "re-verify r1"]}
        ctx.case("legacy-retained", desc)
        try:
            reseed(seed + 3)
            s_ = cfg["mk"](None)
            r1 = getattr(s_, cfg["method"])(N, Nb)
            snap1 = np.array(r1.samples, copy=True)
            reseed(seed + 3)
            r2 = getattr(s_, cfg["method"])(N, Nb=Nb)
            snap2 = np.array(r2.samples, copy=True)
            reseed(seed + 4)
            getattr(s_, cfg["method"])(N, Nb)
        except Exception as e:
            ctx.note(f"{keyb}: repeated call raised {repr(e)[:100]}")
            continue
        if not np.array_equal(r1.samples, snap1) or not np.array_equal(r2.samples, snap2):
            ctx.fail(keyb + ":retained", desc, "Samples returned earlier are unchanged by later calls", "changed", "a chain handed out earlier was altered by a later call")
    # G1/G2 on the stateless interface: start given as int64 / int32 / float32->skipped / bool / list
    for cfg in lcfgs:
        N, Nb = (11, 2) if cfg["accepts"](11, 2) else (5, 0)
        keyb = f"legacy:{cfg['name']}:{cfg['method']}"
        try:
            base = cfg["mk"](None)
            d0 = len(np.atleast_1d(base.x0))
        except Exception:
            continue
        for vname, given, as_float in x0_variants(d0):
            if vname in ("float32", "float16"):
                continue
            desc = {"sampler": cfg["name"], "method": cfg["method"], "N": N, "Nb": Nb, "x0": vname, "values": [float(t) for t in as_float]}
            ctx.case("legacy-dtype", desc)
            res = {}
            for tag, xv in (("float64", as_float), ("given", given)):
                cfg2 = dict(cfg)
                snap = np.array(xv, copy=True) if isinstance(xv, np.ndarray) else list(xv)
                def mk(cb, xv=xv, cfg=cfg):
                    s_ = cfg["mk"](cb)
                    s_.x0 = xv
                    return s_
                cfg2["mk"] = mk
                r = run_legacy(cfg2, N, Nb, seed)
                r["snap_ok"] = (np.array_equal(xv, snap) and (not isinstance(xv, np.ndarray) or xv.dtype == snap.dtype))
                res[tag] = r
            if res["float64"]["error"] is not None:
                continue
            if res["given"]["error"] is not None:
                msg = f"{keyb}: x0 given as {vname} is refused ({res['given']['error'][:80]}) while its float64 version is accepted"
                if msg not in ctx.notes:
                    ctx.note(msg)
                continue
            if not chains_equal(res["given"]["chain"], res["float64"]["chain"]):
                ctx.fail(f"{keyb}:dtype-chain:{vname}", desc, "chain equal to the run started from the float64 version of the same numbers",
                         f"first difference at {first_diff(res['given']['chain'], res['float64']['chain'])}", "the dtype of x0 changes the recorded chain")
            if not res["given"]["snap_ok"]:
                ctx.fail(f"{keyb}:caller-array", desc, "x0 passed by the caller is not modified", "modified", "sampling modified the caller's x0")
    louts = ctx.lean.drive(llines)
    for (keyb, desc, impl), out in zip(lmeta, louts):
        ctx.case("legacy-tie", desc, nontrivial=False)
        if impl != out:
            # junk columns never survive (every column is written); ids of the model are the same ids
            ctx.disagree(keyb + ":tie", desc, out[:300], impl[:300], "stored chain / callback log differ from the model with the flags read from the source")
            # the oracle already ran on this case (oracle_legacy): a property failure carries its own key;
            # re-assert under the tie key when the oracle found something for this case
            for f in list(ctx.failures):
                if f["case"] == desc and f["key"].startswith(keyb) and not f["key"].endswith(":tie"):
                    ctx.fail(keyb + ":tie", desc, f["demanded"], f["got"], f["what"])
                    break
    ctx.extra_cov["stateless_configs"] = sorted({c["name"] + "." + c["method"] for c in lcfgs})
    ctx.extra_cov["legacy_adaptation_interval_hist"] = {str(k): v for k, v in sorted(adapt_hist.items())}

    # ========================================================================= Gibbs samplers
    gibbs_checks(ctx, cuqi, M, L, T, thorough, seed)


# ----------------------------------------------------------------------------- targets / configurations
def build_targets(cuqi):
    T = {}
    def deconv(dim, **kw):
        return cuqi.testproblem.Deconvolution1D(dim=dim, **kw)
    T["post4"] = deconv(4).posterior
    T["post6"] = deconv(6).posterior
    A, y_data, info = deconv(6, phantom='square').get_components()
    x = cuqi.implicitprior.RegularizedGaussian(0.5 * np.ones(6), 0.1, constraint="nonnegativity")
    y = cuqi.distribution.Gaussian(A @ x, 0.001)
    T["reg6"] = cuqi.distribution.JointDistribution(x, y)(y=y_data)
    x = cuqi.distribution.LMRF(0, 0.1, geometry=6)
    y = cuqi.distribution.Gaussian(A @ x, 0.001)
    T["lmrf6"] = cuqi.distribution.JointDistribution(x, y)(y=y_data)
    T["gauss3"] = cuqi.distribution.Gaussian(np.arange(3) * 1.0, 1.0)
    T["gauss2c"] = cuqi.distribution.Gaussian(np.zeros(2), np.array([[1.0, -0.7], [-0.7, 1.0]]))
    # two likelihoods
    A1, d1, _ = deconv(6, phantom='square').get_components()
    A2, d2, _ = deconv(6, phantom='square').get_components()
    x = cuqi.distribution.Gaussian(0.5 * np.ones(6), 0.1)
    y1 = cuqi.distribution.Gaussian(A1 @ x, 0.001)
    y2 = cuqi.distribution.Gaussian(A2 @ x, 0.001)
    T["multi6"] = cuqi.distribution.JointDistribution(x, y1, y2)(y1=d1, y2=d2)
    # conjugate pairs
    yg = cuqi.distribution.Gaussian(np.zeros(10), lambda s: 1 / s, name='y')
    sg = cuqi.distribution.Gamma(1, 1e-4, name='s')
    T["conj"] = cuqi.distribution.Posterior(yg.to_likelihood(np.arange(10) * 0.1), sg)
    xl = cuqi.distribution.LMRF(0, lambda s: 1 / s, geometry=10, name='x')
    sl = cuqi.distribution.Gamma(1, 1e-4, name='s')
    T["conjapprox"] = cuqi.distribution.Posterior(xl.to_likelihood(np.arange(10) * 0.1), sl)
    # hierarchical problem for the Gibbs samplers (variable names are inferred from the local names)
    def hier():
        A, y_obs, _ = deconv(8, phantom='square').get_components()
        d = cuqi.distribution.Gamma(1, 1e-4)
        l = cuqi.distribution.Gamma(1, 1e-4)
        x = cuqi.distribution.GMRF(np.zeros(8), lambda d: d)
        y = cuqi.distribution.Gaussian(A, lambda l: 1 / l)
        return cuqi.distribution.JointDistribution(d, l, x, y)(y=y_obs)
    T["gibbs"] = hier()
    T["gibbs_factory"] = hier
    # UserDefined with gradient (accepts everything needing logd+gradient)
    mu = np.array([0.5, -1.0])
    T["user2"] = cuqi.distribution.UserDefinedDistribution(dim=2, logpdf_func=lambda x: -0.5 * float(np.sum((x - mu) ** 2)),
                                                           gradient_func=lambda x: -(x - mu))
    return T


def stateful_configs(cuqi, M, T):
    C = []
    def add(name, cls, mk, fast=True):
        C.append({"name": name, "cls": cls, "mk": mk, "fast": fast})
    add("MH:posterior", "MH", lambda cb: M.MH(T["post4"], scale=0.05, callback=cb))
    add("MH:gaussian", "MH", lambda cb: M.MH(T["gauss3"], scale=0.8, initial_point=np.array([1.0, -1.0, 0.5]), callback=cb))
    add("MH:userdefined", "MH", lambda cb: M.MH(T["user2"], scale=0.5, callback=cb))
    add("CWMH:posterior", "CWMH", lambda cb: M.CWMH(T["post4"], scale=0.05, callback=cb))
    add("CWMH:vector-scale", "CWMH", lambda cb: M.CWMH(T["gauss2c"], scale=np.array([0.5, 1.0]), callback=cb))
    add("PCN:posterior", "PCN", lambda cb: M.PCN(T["post4"], scale=0.1, callback=cb))
    add("ULA:posterior", "ULA", lambda cb: M.ULA(T["post4"], scale=0.0001, callback=cb))
    add("ULA:userdefined", "ULA", lambda cb: M.ULA(T["user2"], scale=0.1, callback=cb))
    add("MALA:posterior", "MALA", lambda cb: M.MALA(T["post4"], scale=0.001, callback=cb))
    add("MALA:gaussian", "MALA", lambda cb: M.MALA(T["gauss3"], scale=0.5, callback=cb))
    add("NUTS:posterior", "NUTS", lambda cb: M.NUTS(T["post4"], max_depth=3, callback=cb), fast=False)
    add("NUTS:step_size", "NUTS", lambda cb: M.NUTS(T["gauss3"], max_depth=3, step_size=0.3, callback=cb))
    add("LinearRTO:posterior", "LinearRTO", lambda cb: M.LinearRTO(T["post6"], callback=cb))
    add("LinearRTO:multiple-likelihoods", "LinearRTO", lambda cb: M.LinearRTO(T["multi6"], callback=cb))
    add("RegularizedLinearRTO:stepsize=automatic", "RegularizedLinearRTO", lambda cb: M.RegularizedLinearRTO(T["reg6"], maxit=30, callback=cb), fast=False)
    add("RegularizedLinearRTO:stepsize=fixed", "RegularizedLinearRTO", lambda cb: M.RegularizedLinearRTO(T["reg6"], maxit=30, stepsize=1e-3, callback=cb), fast=False)
    add("UGLA:lmrf", "UGLA", lambda cb: M.UGLA(T["lmrf6"], callback=cb))
    add("Direct:gaussian", "Direct", lambda cb: M.Direct(T["gauss3"], callback=cb))
    add("Conjugate:gaussian-gamma", "Conjugate", lambda cb: M.Conjugate(T["conj"], callback=cb))
    add("ConjugateApprox:lmrf-gamma", "ConjugateApprox", lambda cb: M.ConjugateApprox(T["conjapprox"], callback=cb))
    return C


def legacy_configs(cuqi, L, T):
    C = []
    ge2 = lambda N, Nb: True
    def add(name, cls, method, mk, accepts=ge2):
        C.append({"name": name, "cls": cls, "method": method, "mk": mk, "accepts": accepts})
    adapt_ok = lambda N, Nb: int(0.1 * N) >= 1
    x3 = np.array([1.0, -1.0, 0.5])
    add("MH", "MH", "sample", lambda cb: L.MH(T["gauss3"], scale=0.8, x0=x3, callback=cb))
    add("MH", "MH", "sample_adapt", lambda cb: L.MH(T["gauss3"], scale=0.8, x0=x3, callback=cb), adapt_ok)
    add("CWMH", "CWMH", "sample", lambda cb: L.CWMH(T["gauss2c"], scale=0.7, x0=np.array([0.5, -0.5]), callback=cb))
    add("CWMH", "CWMH", "sample_adapt", lambda cb: L.CWMH(T["gauss2c"], scale=0.7, x0=np.array([0.5, -0.5]), callback=cb), adapt_ok)
    add("pCN", "pCN", "sample", lambda cb: L.pCN(T["post4"], scale=0.1, callback=cb))
    add("pCN", "pCN", "sample_adapt", lambda cb: L.pCN(T["post4"], scale=0.1, callback=cb), adapt_ok)
    add("ULA", "ULA", "sample", lambda cb: L.ULA(T["user2"], scale=0.1, callback=cb))
    add("MALA", "MALA", "sample", lambda cb: L.MALA(T["user2"], scale=0.5, callback=cb))
    add("NUTS:adapt", "NUTS", "sample", lambda cb: L.NUTS(T["gauss3"], max_depth=3, callback=cb), lambda N, Nb: Nb > 0 or N + Nb == 0)
    add("NUTS:fixed", "NUTS", "sample", lambda cb: L.NUTS(T["gauss3"], max_depth=3, adapt_step_size=0.3, callback=cb))
    add("LinearRTO", "LinearRTO", "sample", lambda cb: L.LinearRTO(T["post6"], callback=cb))
    add("RegularizedLinearRTO", "RegularizedLinearRTO", "sample", lambda cb: L.RegularizedLinearRTO(T["reg6"], maxit=30, stepsize=1e-3, callback=cb))
    add("UGLA", "UGLA", "sample", lambda cb: L.UGLA(T["lmrf6"], callback=cb))
    return C


# ----------------------------------------------------------------------------- oracle: stateful interface
def oracle_stateful(ctx, cuqi, keyb, clsname, mk, N, K, tf, ckpath, seed, script_factory=None):
    """the property on the implementation: returns True if everything held.
    `mk(cb)` (library samplers; random stream = numpy global state) or `mk(cb, script)` (Toy)."""
    ok = True
    desc = {"sampler": keyb, "N": N, "warmup": K, "tune_freq": tf}
    scripted = script_factory is not None

    def new(cb):
        if scripted:
            return mk(cb, None)
        return mk(cb)

    def start(cb):
        """seeded construction"""
        if scripted:
            sc = script_factory()
            s = mk(cb, sc)
            return s, sc
        reseed(seed)
        return mk(cb), None

    def get_rs(sc):
        return sc.pos if scripted else np.random.get_state()

    def set_rs(sc, st, s=None):
        if scripted:
            s.script = type(sc)(sc.vals); s.script.pos = st
        else:
            np.random.set_state(st)

    def chain(s):
        return [np.array(x, dtype=float, copy=True) for x in s._samples]

    def fail(aspect, demanded, got, what, extra=None):
        nonlocal ok
        ok = False
        d = dict(desc)
        if extra:
            d.update(extra)
        ctx.fail(f"{keyb}:{aspect}", d, demanded, got, what)

    # ---- reference run with full recording
    events, steplog = [], []
    cb = lambda x, i: events.append((np.array(x, dtype=float, copy=True), int(i)))
    try:
        a, sc = start(cb)
        orig = a.step
        def step():
            acc = orig()
            steplog.append(np.array(a.current_point, dtype=float, copy=True))
            return acc
        a.step = step
        if K:
            a.warmup(K, tune_freq=tf)
        a.sample(N)
    except Exception as e:
        ctx.note(f"{keyb}: reference run raised {repr(e)[:120]}")
        return True
    ref = chain(a)
    # lengths
    try:
        ncol = a.get_samples().samples.shape[-1] if (K + N) > 0 else 0
    except Exception as e:
        ncol = repr(e)[:60]
    if len(ref) != K + N or (K + N > 0 and ncol != K + N) or len(a._acc) != K + N + 1:
        fail("length", f"{K + N} stored states (+1 initial acceptance record)", [len(ref), ncol, len(a._acc)], "recorded chain does not have the requested length")
    # consecutive states of one chain, in order
    if len(steplog) != K + N:
        fail("transitions", K + N, len(steplog), "number of transitions differs from the number requested")
    elif not chains_equal(ref, steplog):
        fail("consecutive", "i-th stored state = state after the i-th transition", f"first difference at {first_diff(ref, steplog)}",
             "stored chain is not the sequence of consecutive states")
    # callback exactly once per transition with (state, index)
    if [i for _, i in events] != list(range(K + N)):
        fail("callback", f"indices 0..{K + N - 1} once each", [i for _, i in events][:20], "callback not invoked exactly once per transition with its index")
    elif not chains_equal([x for x, _ in events], steplog):
        fail("callback", "callback receives the state produced by the transition", f"first difference at {first_diff([x for x, _ in events], steplog)}",
             "callback state differs from the state produced by the transition")
    # entries never altered by later transitions: copies taken at callback time vs final storage
    if len(events) == len(ref) and not chains_equal([x for x, _ in events], ref):
        fail("immutable", "stored entry unchanged since it was recorded", f"entry {first_diff([x for x, _ in events], ref)} changed",
             "a stored entry was altered by a later transition")

    # ---- callback log over multi-stage op sequences (warm-up on a non-empty chain, after sampling,
    #      after loading a checkpoint into a fresh sampler): demanded index = position of the state
    #      in the recorded chain of the sampler object that produced it, state = the chain entry there
    a_, b_ = max(1, min(4, N // 2 + 1)), max(2, min(5, N // 2 + 2))
    sequences = [
        [("w", a_), ("w", b_)],
        [("s", a_), ("w", b_), ("s", 2)],
        [("w", a_), "save", "load", ("w", b_)],
        [("s", 2), "save", "load", ("w", b_), ("s", 1)],
    ]
    for ops in sequences:
        opnames = [o if isinstance(o, str) else f"{'warmup' if o[0] == 'w' else 'sample'}({o[1]})" for o in ops]
        try:
            ev = []
            mkcb = lambda log: (lambda x, i: log.append((np.array(x, dtype=float, copy=True), int(i))))
            s, sc = start(mkcb(ev))
            objs = [(s, ev)]
            for o in ops:
                if o == "save":
                    s.save_checkpoint(ckpath)
                elif o == "load":
                    ev = []
                    f = new(mkcb(ev))
                    if scripted:
                        f.script = sc
                    f.load_checkpoint(ckpath)
                    s = f
                    objs.append((s, ev))
                elif o[0] == "w":
                    s.warmup(o[1], tune_freq=tf)
                else:
                    s.sample(o[1])
        except Exception as e:
            ctx.note(f"{keyb}: op sequence {opnames} raised {repr(e)[:120]}")
            continue
        for which, (obj, log) in enumerate(objs):
            stored = chain(obj)
            idx = [i for _, i in log]
            if idx != list(range(len(stored))):
                fail("callback", f"one call per stored state with its index in the chain: 0..{len(stored) - 1}", idx[:30],
                     "callback not invoked exactly once per transition with the state's index in the chain",
                     {"ops": opnames, "sampler_object": which})
                break
            if not chains_equal([x for x, _ in log], stored):
                fail("callback", "callback state = chain entry at the index passed", f"first difference at {first_diff([x for x, _ in log], stored)}",
                     "callback state differs from the recorded chain entry at that index", {"ops": opnames, "sampler_object": which})
                break

    # ---- batching: `sample(n, batch_size=b, sample_path=…)` must leave chain, callback indices and
    #      get_samples() exactly as the run without batching; files = the slices of this call's states
    import inspect
    n1 = max(1, N - N // 3)
    for b in sorted({0, 1, 3, n1, N + 2, max(2, n1 - 1)}):
        dsc = {"batch_size": b, "ops": [f"warmup({K})" if K else "-", f"sample({n1}, batch_size={b})", "get_samples()", f"sample({N - n1})", "get_samples()"]}
        try:
            evb = []
            s, scb = start(lambda x, i: evb.append((np.array(x, dtype=float, copy=True), int(i))))
            if K:
                s.warmup(K, tune_freq=tf)
            bdir = clean_batch_dir(ckpath)
            s.sample(n1, batch_size=b, sample_path=bdir)
            files = read_batch_files(bdir)
            mid = np.array(s.get_samples().samples, dtype=float, copy=True) if K + n1 > 0 else np.zeros((0, 0))
            s.sample(N - n1)
            fin = np.array(s.get_samples().samples, dtype=float, copy=True) if K + N > 0 else np.zeros((0, 0))
            cbch = chain(s)
        except Exception as e:
            fail("batch", "batched sampling runs", repr(e)[:160], "sample with batch_size raised", dsc)
            continue
        if not chains_equal(cbch, ref):
            fail("batch", "stored chain identical to the run without batching", f"{len(cbch)} stored states, first difference at {first_diff(cbch, ref)}",
                 "batching changes the recorded chain", dsc)
        if K + n1 > 0 and not flat_equal(cols(mid, K + n1), ref[:K + n1]):
            fail("batch", f"get_samples() after the batched call returns all {K + n1} states in order", list(mid.shape), "get_samples() after batching loses or reorders states", dsc)
        if K + N > 0 and not flat_equal(cols(fin, K + N), ref):
            fail("batch", f"get_samples() returns all {K + N} states in order", list(fin.shape), "get_samples() after batching and further sampling loses or reorders states", dsc)
        if [i for _, i in evb] != list(range(K + N)):
            fail("batch", f"callback indices 0..{K + N - 1}", [i for _, i in evb][:30], "callback indices drift when batching", dsc)
        want_files = [ref[K + j * b: K + (j + 1) * b] for j in range(n1 // b)] if b > 0 else []
        if len(files) != len(want_files) or any(not flat_equal(f, w) for f, w in zip(files, want_files)):
            fail("batch", f"{len(want_files)} files holding consecutive slices of {b} states", f"{len(files)} files", "batch files do not hold the corresponding slices of the chain", dsc)

    # ---- G1/G2/G3: start given as int64 / int32 / float32 / bool / list: the recorded and returned chain are the
    #      float64 states actually visited and equal the run from the float64 version of the same numbers;
    #      the caller's start array is not modified; the array returned by get_samples() is not aliased to the history
    try:
        probe = new(None)
        dim0 = int(probe.dim)
    except Exception:
        dim0 = None
    if dim0 and K == 0:
        Nd = min(N, 8)
        search_cache = {}

        def run_from(x0v, sd):
            evd = []
            s, scd = start(lambda x, i, evd=evd: evd.append((np.array(x, dtype=float, copy=True), int(i))))
            snap0 = np.array(x0v, copy=True) if isinstance(x0v, np.ndarray) else list(x0v)
            s.initial_point = x0v
            if not scripted:
                reseed(sd)
            s.sample(Nd)
            got = np.array(s.get_samples().samples, dtype=float, copy=True)
            return chain(s), got, evd, s, x0v, snap0

        for vname, given, as_float in x0_variants(dim0):
            if scripted and vname == "list-of-int":
                continue   # the harness' own Toy.step adds arrays
            # pick a random stream under which the first transition is rejected and a later one accepted
            # (the first recorded state is then the start object itself), if the sampler rejects at all
            ckey = tuple(float(t) for t in as_float)
            if ckey not in search_cache:
                sd, ref64 = seed + 2, None
                for j in range(1 if scripted else 6):
                    try:
                        r64 = run_from(as_float, seed + 2 + j)
                    except Exception as e:
                        break
                    acc = [float(np.sum(a)) for a in r64[3]._acc[1:]]
                    hit = bool(acc and acc[0] == 0 and any(a > 0 for a in acc[1:]))
                    if ref64 is None or hit:
                        ref64, sd = r64, seed + 2 + j
                    if hit or (acc and all(a > 0 for a in acc)):
                        break   # found, or this sampler never rejects
                search_cache[ckey] = (sd, ref64)
            sd, ref64 = search_cache[ckey]
            if ref64 is None:
                continue   # this start is not acceptable to the sampler at all
            acc64 = [float(np.sum(a)) for a in ref64[3]._acc[1:]]
            dsc = {"initial_point": vname, "values": [float(t) for t in as_float], "ops": [f"sample({Nd})", "get_samples()"],
                   "first_transition_rejected": bool(acc64 and acc64[0] == 0)}
            try:
                ch, got, evd, s, x0v, snap0 = run_from(given, sd)
            except Exception as e:
                msg = f"{keyb}: start given as {vname} is refused ({repr(e)[:100]}) while its float64 version is accepted"
                if msg not in ctx.notes:
                    ctx.note(msg)
                continue
            visited = [x for x, _ in evd]
            if not flat_equal(cols(got, len(visited)), visited):
                fail("dtype-returned", "get_samples() returns the float64 states the chain visited",
                     f"first difference at column {first_diff([np.ravel(c) for c in cols(got, len(visited))], [np.ravel(v) for v in visited])}",
                     "returned samples are not the states visited (dtype of the start leaks into the sample array)", dsc)
            if not chains_equal(ch, visited):
                fail("dtype-returned", "stored chain = states handed to the callback", f"first difference at {first_diff(ch, visited)}", "stored chain differs from the visited states", dsc)
            if vname not in ("float32", "float16") and not chains_equal(ch, ref64[0]):
                # integers / booleans are exact in float64 and promote in every float operation: a difference means
                # a state buffer allocated with the start's dtype (float32 legitimately computes in lower precision)
                fail(f"dtype-chain:{vname}", "chain equal to the run started from the float64 version of the same numbers", f"first difference at {first_diff(ch, ref64[0])}",
                     "the dtype of the initial point changes the chain (states truncated into a buffer of the start's dtype)", dsc)
            if isinstance(x0v, np.ndarray) and not (x0v.dtype == snap0.dtype and np.array_equal(x0v, snap0)):
                fail("caller-array", "initial_point array passed by the caller is not modified", "modified", "sampling modified the caller's initial_point array", dsc)
            if isinstance(x0v, list) and x0v != snap0:
                fail("caller-array", "initial_point list passed by the caller is not modified", "modified", "sampling modified the caller's initial_point", dsc)
            # returned array not aliased to the history
            try:
                out1 = s.get_samples().samples
                keep = np.array(out1, dtype=float, copy=True)
                out1[...] = 12345.0
                again = np.array(s.get_samples().samples, dtype=float)
                if not np.array_equal(again, keep):
                    fail("alias", "get_samples() output independent of the history", "history changed by writing into the returned array",
                         "the array returned by get_samples() aliases the stored chain", dsc)
            except Exception:
                pass

    # ---- callbacks that are valid but unusual callables (falsy objects, bound methods, partials) are invoked like any other
    if K == 0:
        nfc = min(N, 3)
        for fname, fcb, flog in callback_forms():
            try:
                s, scc = start(fcb)
                s.sample(nfc)
                lg = flog()
                if [i for _, i in lg] != list(range(nfc)) or not chains_equal([x for x, _ in lg], chain(s)):
                    fail("callback", f"callback invoked once per transition with (state, index), indices 0..{nfc - 1}", [i for _, i in lg],
                         "a callable callback object is not invoked for every transition", {"callback": fname, "ops": [f"sample({nfc})"]})
            except Exception as e:
                fail("callback", "callable callback accepted", repr(e)[:120], "a callable callback object makes the run raise", {"callback": fname})
        # burn-in / thinning of the returned Samples = the last states of the recorded chain, thinned
        try:
            smp = a.get_samples()
            for (bn, bt) in [(0, 1), (1, 1), (1, 2), (2, 3), (0, 4), (N - 1, 1), (0, N)]:
                want = ref[bn::bt]
                gotc = cols(smp.burnthin(bn, bt).samples, len(want)) if len(want) else []
                if len(want) and not flat_equal(gotc, want):
                    fail("burnthin", f"the recorded states [{bn}::{bt}] ({len(want)} states)", f"{len(gotc)} states", "burnthin does not return the recorded states after the burn-in, thinned as requested",
                         {"Nb": bn, "Nt": bt})
                    break
        except Exception as e:
            msg = f"{keyb}: burnthin raised {repr(e)[:100]}"
            if msg not in ctx.notes:
                ctx.note(msg)

    # ---- G8 retained outputs: everything handed out (get_samples(), get_state(), get_history()) is snapshotted when
    #      returned and re-verified after all later calls; G5: `callback` re-assigned between calls, `initial_point`
    #      re-assigned followed by reinitialize()
    try:
        if K != 0 and not scripted:
            raise StopIteration
        kept = []   # (what, object, snapshot)
        def keep(what, arrs):
            kept.append((what, arrs, [np.array(a, copy=True) for a in arrs]))
        ev1, ev2 = [], []
        s, scr = start(lambda x, i: ev1.append((np.array(x, dtype=float, copy=True), int(i))))
        a1, b1 = max(1, N // 3), max(1, N // 4)
        s.sample(a1)
        keep("get_samples() after sample(a)", [s.get_samples().samples])
        st = s.get_state()["state"]
        keep("get_state() after sample(a)", [v for v in st.values() if isinstance(v, np.ndarray)])
        keep("stored chain entries after sample(a)", list(s._samples))
        s.callback = lambda x, i: ev2.append((np.array(x, dtype=float, copy=True), int(i)))
        s.warmup(b1, tf)                      # positional tune_freq
        keep("get_samples() after warmup(b)", [s.get_samples().samples])
        s.sample(Ns=b1)                        # keyword Ns
        keep("get_samples() after sample(b)", [s.get_samples().samples])
        dsc = {"ops": [f"sample({a1})", "get_samples()", "get_state()", "callback re-assigned", f"warmup({b1})", "get_samples()", f"sample({b1})", "get_samples()", "re-verify everything returned"]}
        for what, arrs, snaps in kept:
            if any(not (np.asarray(a).shape == sn.shape and np.array_equal(np.asarray(a), sn, equal_nan=True)) for a, sn in zip(arrs, snaps)):
                fail("retained", "objects returned earlier are unchanged by later calls", what, "an array handed out earlier was altered by a later call", dsc)
                break
        if [i for _, i in ev1] != list(range(a1)) or [i for _, i in ev2] != list(range(a1, a1 + 2 * b1)):
            fail("callback", f"first callback gets indices 0..{a1 - 1}, the re-assigned one {a1}..{a1 + 2 * b1 - 1}", [[i for _, i in ev1], [i for _, i in ev2]],
                 "after re-assigning `callback` the transitions are not reported once each to the current callback", dsc)
        elif not chains_equal([x for x, _ in ev1 + ev2], chain(s)):
            fail("callback", "callback states = recorded chain", "differs", "callback state differs from the chain entry at the index passed", dsc)
        # initial_point re-assigned, then reinitialize: behaves as a sampler constructed with that initial point
        dim1 = int(s.dim)
        newx0 = np.array([(2, -1, 1, 0, 3, -2)[i % 6] for i in range(dim1)], dtype=float)
        if clsname in ("Conjugate", "ConjugateApprox"):
            newx0 = np.abs(newx0) + 1.0
        s.initial_point = newx0.copy()
        if not scripted:
            reseed(seed + 11)
        else:
            s.script = script_factory()
        s.reinitialize()
        s.sample(min(N, 4))
        f2, scf2 = start(None)
        f2.initial_point = newx0.copy()
        if not scripted:
            reseed(seed + 11)
        f2.sample(min(N, 4))
        if clsname != "NUTS" and not chains_equal(chain(s), chain(f2)):   # NUTS: max_depth reset is the listed finding
            fail("reassigned-initial-point", "initial_point re-assigned + reinitialize() = sampler constructed with that initial point",
                 f"first difference at {first_diff(chain(s), chain(f2))}", "a re-assigned initial_point is not honoured after reinitialize",
                 {"ops": ["sample", "initial_point = new", "reinitialize()", f"sample({min(N, 4)})"]})
    except StopIteration:
        pass
    except Exception as e:
        msg = f"{keyb}: retained-output / re-assignment sequence raised {repr(e)[:120]}"
        if msg not in ctx.notes:
            ctx.note(msg)

    # ---- split and checkpoint at every position
    for p in range(N + 1):
        try:
            b, scb = start(None)
            if K:
                b.warmup(K, tune_freq=tf)
            b.sample(p)
            rs = get_rs(scb)
            b.save_checkpoint(ckpath)
            b.sample(N - p)
            cb_chain = chain(b)
        except Exception as e:
            fail("split", "N then M runs", repr(e)[:120], "split run raised", {"position": p})
            continue
        if not chains_equal(cb_chain, ref):
            fail("split", "sample(p); sample(N-p) == sample(N) bitwise", f"position {p}: first difference at index {first_diff(cb_chain, ref)}",
                 "drawing N then M differs from drawing N+M from the same random stream", {"position": p})
        try:
            advance_private_rng(p + 1)
            c = new(None)
            c.load_checkpoint(ckpath)
            set_rs(scb, rs, c)
            c.sample(N - p)
            cc = chain(c)
        except Exception as e:
            fail("resume", "fresh sampler loads the checkpoint and continues", repr(e)[:120], "resume raised", {"position": p})
            continue
        tail = ref[K + p:]
        if not chains_equal(cc, tail):
            fail("resume", "fresh sampler after load_checkpoint continues with the transitions of the uninterrupted run",
                 f"position {p}: first difference at continuation index {first_diff(cc, tail)}",
                 "checkpoint/resume into a freshly constructed sampler of the same configuration diverges", {"position": p})

    # ---- reinitialize returns to the constructed configuration: a sampler that was run and is then re-initialised
    #      under some random stream must have the state, history, constructor configuration and subsequent chain of
    #      a freshly constructed sampler of the same configuration initialised under that same stream (nothing is
    #      reseeded between (re)initialisation and the sampling that follows, so a difference in the random numbers
    #      the initialisation consumes shows as well)
    try:
        import copy as _copy
        nre = min(N, 4)

        def restream(s_):
            if scripted:
                s_.script = script_factory()
            else:
                reseed(seed + 23)

        f, scf = start(None)
        restream(f)
        f.initialize()
        st_f = _copy.deepcopy(f.get_state()["state"]); hist_f = _copy.deepcopy(f.get_history()["history"]); cfg_f = _copy.deepcopy(_ctor_config(f))
        f.sample(nre); cf = chain(f)
        g, scg = start(None)
        if K:
            g.warmup(K, tune_freq=tf)
        g.sample(min(N, 3))
        restream(g)
        g.reinitialize()
        st_g = _copy.deepcopy(g.get_state()["state"]); hist_g = _copy.deepcopy(g.get_history()["history"]); cfg_g = _copy.deepcopy(_ctor_config(g))
        bad = [k for k in st_f if not _val_equal(st_f[k], st_g.get(k, "<missing>"))] + [k for k in st_g if k not in st_f]
        badh = [k for k in hist_f if not _hist_equal(hist_f[k], hist_g.get(k, "<missing>"))]
        # constructor parameters as read back from the sampler: after reinitialize = after initialize of a fresh one
        badc = [k for k in cfg_f if k in cfg_g and not _val_equal(cfg_f[k], cfg_g[k])]
        alld = sorted(set(bad) | set(badc))
        opsd = {"ops": [f"warmup({K})" if K else "-", f"sample({min(N, 3)})", "reseed", "reinitialize()", f"sample({nre})",
                        "vs freshly constructed: reseed, initialize(), sample"]}
        if "max_depth" in alld and clsname == "NUTS":
            # the listed finding (its own key); neutralised so that anything else still shows
            fail("reinitialize:max_depth", "constructor value of max_depth after reinitialize", {"fresh": repr(cfg_f.get("max_depth")), "reinitialized": repr(cfg_g.get("max_depth"))},
                 "reinitialize does not return max_depth to the value the sampler was constructed with", opsd)
            alld = [k for k in alld if k != "max_depth"]
            g.max_depth = f.max_depth
        if alld or badh:
            fail("reinitialize", "state, history and constructor configuration of a freshly initialised sampler",
                 {"state_or_config_differing": alld, "history_keys_differing": badh,
                  "values(fresh, reinitialized)": {k: [repr(cfg_f.get(k, st_f.get(k)))[:60], repr(cfg_g.get(k, st_g.get(k)))[:60]] for k in alld[:4]}},
                 "reinitialize does not return the sampler to its constructed configuration", opsd)
        g.sample(nre); cg = chain(g)
        if not (alld or badh) and not chains_equal(cg, cf):
            fail("reinitialize", "re-initialised sampler behaves as a freshly constructed one initialised from the same random stream",
                 f"first difference at {first_diff(cg, cf)}", "chain after reinitialize differs from a fresh sampler's", opsd)
    except Exception as e:
        ctx.note(f"{keyb}: reinitialize check raised {repr(e)[:120]}")
    return ok


def _ctor_config(s):
    """constructor parameters (names from the __init__ signatures along the MRO) as read back from the sampler object;
    only plain values (None, numbers, strings, numpy arrays) — targets, callbacks, proposals and other objects are skipped"""
    import inspect
    out = {}
    for cls in type(s).__mro__:
        init = cls.__dict__.get("__init__")
        if init is None:
            continue
        try:
            names = list(inspect.signature(init).parameters)
        except (TypeError, ValueError):
            continue
        for n in names:
            if n in ("self", "target", "callback", "kwargs", "args", "script") or n in out:
                continue
            try:
                v = getattr(s, n)
            except Exception:
                continue
            if v is None or isinstance(v, (bool, int, float, str, np.integer, np.floating, np.ndarray)):
                out[n] = v
    return out


def _val_equal(a, b):
    if isinstance(b, str) and b == "<missing>":
        return False
    if isinstance(a, str) or isinstance(b, str) or a is None or b is None:
        return type(a) == type(b) and a == b
    try:
        return same(a, b)
    except Exception:
        return a == b


def _hist_equal(a, b):
    if isinstance(b, str):
        return False
    if len(a) != len(b):
        return False
    return all(_val_equal(x, y) for x, y in zip(a, b))


# ----------------------------------------------------------------------------- stateless interface
def run_legacy(cfg, N, Nb, seed):
    events = []
    cb = lambda x, i: events.append((np.array(x, dtype=float, copy=True), int(i)))
    res = {"error": None, "events": events, "outs": None}
    try:
        reseed(seed + 3)
        s = cfg["mk"](cb)
        res["x0"] = np.array(s.x0, dtype=float, copy=True)
        outs = None
        if hasattr(s, "single_update"):
            outs = []
            orig = s.single_update
            def su(*a, **k):
                r = orig(*a, **k)
                outs.append(np.array(r[0], dtype=float, copy=True))
                return r
            s.single_update = su
        out = getattr(s, cfg["method"])(N, Nb)
        if hasattr(out, "samples"):
            arr = np.asarray(out.samples, dtype=float)
            chain = [arr[:, j].copy() for j in range(arr.shape[1])]
        else:   # N+Nb == 1: a bare array / scalar is returned
            arr = np.atleast_1d(np.asarray(out, dtype=float))
            chain = [arr.copy()] if arr.size else []
        res["chain"] = chain
        if outs is None:
            # no transition hook in this class: the callback copies are the only record of the transitions
            outs = [x for x, _ in events] if len(events) == max(N + Nb - 1, 0) else None
            res["outs_from_callback"] = True
        res["outs"] = outs
    except Exception as e:
        res["error"] = repr(e)[:200]
    return res


def oracle_legacy(ctx, keyb, desc, res, N, Nb):
    Ns = N + Nb
    chain, events, outs, x0 = res["chain"], res["events"], res["outs"], res["x0"]
    if len(chain) != N:
        ctx.fail(keyb + ":length", desc, N, len(chain), "recorded chain does not have the requested length")
    # exactly one callback per transition with (state, index)
    idx = [i for _, i in events]
    if idx != list(range(1, Ns)):
        ctx.fail(keyb + ":callback", desc, f"one call per transition, indices 1..{Ns - 1}", idx[:20],
                 "callback not invoked exactly once for every state produced by a transition")
    elif outs is not None and not res.get("outs_from_callback") and not chains_equal([x for x, _ in events], outs):
        ctx.fail(keyb + ":callback", desc, "callback receives the state produced by the transition", "differs",
                 "callback state differs from the transition's result")
    if Nb == 0 and N >= 1 and len(chain) >= 1 and not same(chain[0], x0):
        ctx.fail(keyb + ":stored-chain", desc, "chain begins with the initial point", "first stored state differs from x0",
                 "stored chain does not begin with the initial point")
    if outs is not None and len(outs) == Ns - 1:
        want = ([x0] + list(outs))[Nb:]
        if len(want) == len(chain) and not chains_equal(want, chain):
            ctx.fail(keyb + ":stored-chain", desc, "drop Nb (x0 :: states produced by the transitions)", f"first difference at stored index {first_diff(want, chain)}",
                     "stored chain is not the consecutive states of the run (an entry was altered after it was recorded)")


# ----------------------------------------------------------------------------- Gibbs samplers
def gibbs_checks(ctx, cuqi, M, L, T, thorough, seed):
    target = T["gibbs"]
    N = 6 if not thorough else 14
    par_names = None

    # ---- HybridGibbs
    def leaf_joint():
        # an unobserved leaf x | s that is sampled exactly (Direct) and a hyper-parameter s
        s_ = cuqi.distribution.Gaussian(1, 1, name="s")
        x_ = cuqi.distribution.Gaussian(lambda s: s * np.ones(3), 0.5, geometry=3, name="x")
        return cuqi.distribution.JointDistribution(x_, s_)

    def mk_h(kind):
        if kind == "rto-conjugate":
            strat = {'x': M.LinearRTO(maxit=15), 'd': M.Conjugate(), 'l': M.Conjugate()}
        elif kind == "mh-conjugate":
            strat = {'x': M.MH(scale=0.05), 'd': M.Conjugate(), 'l': M.Conjugate()}
        elif kind == "direct-mh":
            return M.HybridGibbs(leaf_joint(), {"s": M.MH(initial_point=np.array([0.5]), scale=0.5), "x": M.Direct(initial_point=np.zeros(3))})
        elif kind == "direct-pcn":
            return M.HybridGibbs(leaf_joint(), {"s": M.PCN(initial_point=np.array([0.5]), scale=0.5), "x": M.Direct(initial_point=np.zeros(3))},
                                 num_sampling_steps={"s": 2, "x": 1})
        elif kind == "direct-direct":
            return M.HybridGibbs(leaf_joint(), {"s": M.MH(initial_point=np.array([0.5]), scale=0.5), "x": M.Direct()},
                                 num_sampling_steps={"x": 2})
        # several inner steps per sweep on accept/reject block samplers (scales chosen so that both outcomes are frequent)
        elif kind == "mh3-cwmh2":
            return M.HybridGibbs(leaf_joint(), {"s": M.MH(initial_point=np.array([0.5]), scale=1.5), "x": M.CWMH(initial_point=np.zeros(3), scale=1.0)},
                                 num_sampling_steps={"s": 3, "x": 2})
        elif kind == "pcn3-mala2":
            return M.HybridGibbs(leaf_joint(), {"s": M.PCN(initial_point=np.array([0.5]), scale=0.9), "x": M.MALA(initial_point=np.zeros(3), scale=0.6)},
                                 num_sampling_steps={"s": 3, "x": 2})
        elif kind == "mh-nuts":
            return M.HybridGibbs(leaf_joint(), {"s": M.MH(initial_point=np.array([0.5]), scale=0.8), "x": M.NUTS(initial_point=np.zeros(3), max_depth=3)},
                                 num_sampling_steps={"s": 2, "x": 1})
        elif kind == "mh3-mh2":
            s_ = cuqi.distribution.Gaussian(1, 1, name="s")
            d_ = cuqi.distribution.Uniform(1, 100, name="d")
            x_ = cuqi.distribution.Gaussian(lambda s: s, lambda d: 1 / d, geometry=1, name="x")
            jt = cuqi.distribution.JointDistribution(x_, d_, s_)(x=np.array([1.3]))
            return M.HybridGibbs(jt, {"d": M.MH(initial_point=np.array([3.0]), scale=1.0), "s": M.MH(initial_point=np.array([3.0]), scale=1.0)},
                                 num_sampling_steps={"d": 3, "s": 2})
        return M.HybridGibbs(target, strat)

    def hchain(s):
        names = s.par_names
        n = len(s.samples[names[0]])
        return [np.concatenate([np.asarray(s.samples[p][i], dtype=float).ravel() for p in names]) for i in range(n)]

    hlines, hmeta = [], []
    inner_cov = {}
    for kind in ("rto-conjugate", "mh-conjugate", "direct-mh", "direct-pcn", "direct-direct", "mh3-cwmh2", "pcn3-mala2", "mh3-mh2", "mh-nuts"):
        for K in (0, 3):
            keyb = f"gibbs:HybridGibbs:{kind}"
            desc = {"sampler": "HybridGibbs", "blocks": kind, "N": N, "warmup": K}
            ctx.case("oracle-gibbs", desc)
            try:
                reseed(seed + 7); a = mk_h(kind)
                sweeps = []
                orig = a.step
                # block samplers' transitions recorded for the replay-block model (driver op `hgr`)
                bids, blog = Ids(), []
                bx0 = [bids(np.ravel(np.asarray(a.samplers[p].initial_point, dtype=float))) for p in a.par_names]
                for p in a.par_names:
                    def bstep(sp_=a.samplers[p], o_=a.samplers[p].step, bids=bids, blog=blog):
                        acc_ = o_()
                        blog.append((bids(np.ravel(np.asarray(sp_.current_point, dtype=float))), int(np.any(acc_))))
                        return acc_
                    a.samplers[p].step = bstep
                points, pat = [], inner_cov.setdefault(kind, {"sweeps": 0, "earlier_accepted_last_rejected": 0, "all_rejected": 0, "last_accepted": 0})
                def step(a=a, orig=orig, sweeps=sweeps, points=points, pat=pat):
                    orig()
                    sweeps.append(np.concatenate([np.asarray(a.current_samples[p], dtype=float).ravel() for p in a.par_names]))
                    # the states the block samplers are actually in after the sweep
                    points.append(np.concatenate([np.asarray(a.samplers[p].current_point, dtype=float).ravel() for p in a.par_names]))
                    pat["sweeps"] += 1
                    for p in a.par_names:
                        ns_ = a.num_sampling_steps[p]
                        inner = [bool(np.any(x)) for x in a.samplers[p]._acc[-ns_:]] if ns_ > 0 else []
                        if ns_ > 1 and inner:
                            pat["earlier_accepted_last_rejected" if (any(inner[:-1]) and not inner[-1]) else "last_accepted" if inner[-1] else "all_rejected"] += 1
                a.step = step
                tunes = []
                otune = a.tune
                def tune(skip_len, update_count, a=a, otune=otune, tunes=tunes):
                    tunes.append((len(a.samples[a.par_names[0]]), int(skip_len), int(update_count)))
                    return otune(skip_len, update_count)
                a.tune = tune
                if K:
                    a.warmup(K, tune_freq=0.5)
                a.sample(N)
                ref = hchain(a)
            except Exception as e:
                ctx.note(f"{keyb}: reference run raised {repr(e)[:160]}")
                continue
            if len(ref) != K + N:
                ctx.fail(keyb + ":length", desc, K + N, len(ref), "recorded chain does not have the requested length")
            if len(sweeps) == len(ref) and not chains_equal(ref, sweeps):
                ctx.fail(keyb + ":consecutive", desc, "i-th stored state = state after the i-th sweep", f"first difference at {first_diff(ref, sweeps)}",
                         "stored Gibbs chain is not the sequence of consecutive states (an entry was altered later)")
            if len(points) == len(ref) and not chains_equal(ref, points):
                ctx.fail(keyb + ":consecutive", {**desc, "num_sampling_steps": {p: int(a.num_sampling_steps[p]) for p in a.par_names}, "random_seed": seed + 7},
                         "i-th stored entry of every parameter = current_point of its block sampler after the i-th sweep (the state the transitions produced)",
                         f"first difference at sweep {first_diff(ref, points)}",
                         "the recorded Gibbs chain lists values that are not the states produced by the block samplers' transitions")
            try:
                names_ = a.par_names
                nrows = len(a.samples[names_[0]])
                bi = lambda v: str(bids(np.ravel(np.asarray(v, dtype=float))))
                impl_r = ("C=" + "|".join(bi(a.current_samples[p]) for p in names_)
                          + ";S=" + (",".join("|".join(bi(a.samples[p][i]) for p in names_) for i in range(nrows)) or "_")
                          + ";T=" + (",".join(f"{a_}/{b_}/{c_}" for a_, b_, c_ in tunes) or "_")
                          + ";B=" + ",".join(f"{len(a.samplers[p]._acc)}/{bi(a.samplers[p].current_point)}" for p in names_))
                blocks_ = ";".join(f"{x0_}|{int(isinstance(a.samplers[p], M.NUTS))}|{int(a.num_sampling_steps[p])}" for x0_, p in zip(bx0, names_))
                hlines.append(f"hgr {blocks_} {('w%d@1/2;' % K) if K else ''}s{N};get {','.join(f'{i_},{c_}' for i_, c_ in blog) or '_'}")
                hmeta.append((keyb, {**desc, "model": "replay blocks"}, impl_r))
            except Exception as e:
                ctx.note(f"{keyb}: replay-block line not built: {repr(e)[:120]}")
            ids = Ids()
            hlines.append(f"hg {('w%d@1/2;' % K) if K else ''}s{N} {','.join(str(ids(x)) for x in sweeps) or '_'}")
            hmeta.append((keyb, desc, "S=" + (",".join(str(ids(x)) for x in ref) or "_") + ";T=" + (",".join(f"{a_}/{b_}/{c_}" for a_, b_, c_ in tunes) or "_")))
            # burn-in / thinning of the joint samples object: the documented way to discard the warm-up here
            try:
                js = a.get_samples()
                for (bn, bt) in [(0, 1), (K, 1), (1, 2), (K, 2), (2, 3), (0, 4), (K + N - 1, 1), (0, K + N)]:
                    for form in ("positional", "keyword"):
                        out = js.burnthin(bn, bt) if form == "positional" else js.burnthin(Nb=bn, Nt=bt)
                        for pn in a.par_names:
                            want = np.asarray(js[pn].samples)[..., bn::bt]
                            gotb = np.asarray(out[pn].samples)
                            if gotb.shape != want.shape or not np.array_equal(gotb, want):
                                ctx.fail(keyb + ":burnthin", {**desc, "Nb": bn, "Nt": bt, "form": form, "parameter": pn},
                                         f"samples[:, {bn}::{bt}] ({want.shape[-1]} states)", f"{gotb.shape[-1] if gotb.ndim else 0} states",
                                         "burnthin of the joint samples does not return the last states after the burn-in, thinned as requested")
                                raise StopIteration
            except StopIteration:
                pass
            except Exception as e:
                ctx.note(f"{keyb}: joint burnthin raised {repr(e)[:120]}")
            # repeated phases on one object: warmup -> sample -> warmup -> sample, each split vs unsplit sampling phase
            try:
                reseed(seed + 8); c1 = mk_h(kind); c1.warmup(2, tune_freq=0.5); c1.sample(3); c1.warmup(2, 0.5); c1.sample(3)
                reseed(seed + 8); c2 = mk_h(kind); c2.warmup(2, tune_freq=0.5); c2.sample(1); c2.sample(2); c2.warmup(2, 0.5); c2.sample(2); c2.sample(1)
                if not chains_equal(hchain(c1), hchain(c2)) or len(hchain(c1)) != 10:
                    ctx.fail(keyb + ":split", {**desc, "ops": ["warmup(2)", "sample(1)", "sample(2)", "warmup(2)", "sample(2)", "sample(1)"]},
                             "same chain as warmup(2); sample(3); warmup(2); sample(3) from the same stream", f"first difference at {first_diff(hchain(c1), hchain(c2))}",
                             "Gibbs chain is not continuous across a split (repeated phases)")
            except Exception as e:
                ctx.note(f"{keyb}: repeated phases raised {repr(e)[:120]}")
            for p in range(N + 1):
                reseed(seed + 7); b = mk_h(kind)
                if K:
                    b.warmup(K, tune_freq=0.5)
                b.sample(p); b.sample(N - p)
                cb_chain = hchain(b)
                if not chains_equal(cb_chain, ref):
                    ctx.fail(keyb + ":split", {**desc, "position": p}, "sample(p); sample(N-p) == sample(N) bitwise",
                             f"position {p}: first difference at {first_diff(cb_chain, ref)}", "Gibbs chain is not continuous across a split")
    ctx.extra_cov["hybrid_inner_step_patterns"] = inner_cov
    # ---- legacy Gibbs
    def mk_l():
        return L.Gibbs(target, {'x': L.LinearRTO, ('d', 'l'): L.Conjugate})

    def lchain(samples_dict, names):
        n = samples_dict[names[0]].samples.shape[1]
        return [np.concatenate([np.asarray(samples_dict[p].samples[:, i], dtype=float).ravel() for p in names]) for i in range(n)]

    for Nb in (0, 2):
        keyb = "gibbs:Gibbs(legacy)"
        desc = {"sampler": "Gibbs(legacy)", "N": N, "Nb": Nb}
        ctx.case("oracle-gibbs", desc)
        try:
            reseed(seed + 9); a = mk_l()
            names = a.par_names
            sweeps = []
            orig = a.step
            def step(cur, a=a, orig=orig, sweeps=sweeps):
                r = orig(cur)
                sweeps.append(np.concatenate([np.asarray(r[p], dtype=float).ravel() for p in a.par_names]))
                return r
            a.step = step
            ref = lchain(a.sample(N, Nb), names)
        except Exception as e:
            ctx.note(f"{keyb}: reference run raised {repr(e)[:160]}")
            continue
        if len(ref) != N:
            ctx.fail(keyb + ":length", desc, N, len(ref), "recorded chain does not have the requested length")
        if len(sweeps) != N + Nb:
            ctx.fail(keyb + ":burnin", desc, f"{Nb} + {N} sweeps: the chain is the last {N} states once {Nb} burn-in states are discarded", f"{len(sweeps)} sweeps",
                     "the number of transitions is not burn-in + requested length (the burn-in discarded is not the one requested)")
        if len(sweeps) == N + Nb and not chains_equal(ref, sweeps[Nb:]):
            ctx.fail(keyb + ":consecutive", desc, "stored states = states after the sweeps, burn-in dropped", f"first difference at {first_diff(ref, sweeps[Nb:])}",
                     "stored Gibbs chain is not the sequence of consecutive states")
        if Nb == 0:
            ids = Ids()
            hlines.append(f"gl s{N} 0 {','.join(str(ids(x) + 1) for x in sweeps)}")
            hmeta.append((keyb, desc, "S=" + ",".join(str(ids(x) + 1) for x in ref)))
        for p in range(N + 1):
            kp = keyb + (":split0" if p == 0 else ":split")
            try:
                reseed(seed + 9); b = mk_l()
                b.sample(p, Nb)
                cb_chain = lchain(b.sample(N - p), names)
            except Exception as e:
                ctx.fail(kp, {**desc, "position": p}, "sample(p); sample(N-p) == sample(N)", repr(e)[:120],
                         "drawing N then M raises where N+M at once succeeds")
                if p == 0 and Nb == 0:
                    hlines.append(f"gl s0;s{N} 0 _"); hmeta.append((kp, {**desc, "position": 0}, "err"))
                continue
            if not chains_equal(cb_chain, ref):
                ctx.fail(kp, {**desc, "position": p}, "sample(p); sample(N-p) == sample(N) bitwise",
                         f"position {p}: first difference at {first_diff(cb_chain, ref)}", "Gibbs chain is not continuous across a split")
    # ---- G8/G2/G1 for the Gibbs samplers: every chain handed out is re-verified after later calls; user-set
    #      init_point arrays (float / int, shared by two samplers) are not modified and give the same chain
    def snap_dict(d):
        return {k: np.array(v.samples, copy=True) for k, v in d.items()}

    def dict_same(d, sn):
        return all(np.asarray(d[k].samples).shape == sn[k].shape and np.array_equal(d[k].samples, sn[k]) for k in sn)

    keyb = "gibbs:Gibbs(legacy)"
    desc = {"sampler": "Gibbs(legacy)", "ops": ["r1 = sample(3)", "r2 = sample(2)", "r3 = sample(1)", "re-verify r1, r2"]}
    ctx.case("gibbs-retained", desc)
    try:
        reseed(seed + 9); g = mk_l()
        r1 = g.sample(3); s1 = snap_dict(r1)
        r2 = g.sample(2); s2 = snap_dict(r2)
        r3 = g.sample(1)
        if not dict_same(r1, s1) or not dict_same(r2, s2):
            ctx.fail(keyb + ":retained", desc, "chains returned by earlier calls are unchanged by later calls",
                     "first returned chain altered" if not dict_same(r1, s1) else "second returned chain altered",
                     "a later transition overwrote an entry of a chain handed out earlier")
        # the continuation's own record still starts with the first call's states
        if not all(np.array_equal(r3[k].samples[:, :3], s1[k]) for k in s1):
            ctx.fail(keyb + ":retained", desc, "the cumulative chain begins with the states of the first call", "differs", "recorded states were altered by later transitions")
    except Exception as e:
        ctx.note(f"{keyb}: retained sequence raised {repr(e)[:140]}")
    chains_by_kind = {}
    for kind in ("float64", "int64"):
        desc = {"sampler": "Gibbs(legacy)", "init_point": kind, "ops": ["density.init_point = user arrays", "g1.sample(3); g1.sample(2)", "g2 (same target, same arrays).sample(3)"]}
        ctx.case("gibbs-init-point", desc)
        try:
            reseed(2000 + seed)
            tgt = T["gibbs_factory"]()
            dt = np.float64 if kind == "float64" else np.int64
            user = {"d": np.array([2], dtype=dt), "l": np.array([3], dtype=dt), "x": np.array([1, 0, 2, -1, 0, 1, 3, 0], dtype=dt)}
            snaps = {k: v.copy() for k, v in user.items()}
            for k, v in user.items():
                tgt.get_density(k).init_point = v
            reseed(seed + 9)
            g1 = L.Gibbs(tgt, {'x': L.LinearRTO, ('d', 'l'): L.Conjugate})
            c1 = lchain(g1.sample(3), g1.par_names)
            g1.sample(2)
            reseed(seed + 9)
            g2 = L.Gibbs(tgt, {'x': L.LinearRTO, ('d', 'l'): L.Conjugate})
            c2 = lchain(g2.sample(3), g2.par_names)
            chains_by_kind[kind] = c1
            if any(not (user[k].dtype == snaps[k].dtype and np.array_equal(user[k], snaps[k])) for k in user):
                ctx.fail(keyb + ":caller-array", desc, "user-set init_point arrays are not modified", {k: user[k].tolist() for k in user if not np.array_equal(user[k], snaps[k])},
                         "sampling wrote into the caller's init_point array")
            if not chains_equal(c1, c2):
                ctx.fail(keyb + ":caller-array", desc, "a second sampler sharing the init_point arrays draws the same chain from the same stream",
                         f"first difference at {first_diff(c1, c2)}", "the first sampler's run changed what the second sampler starts from")
        except Exception as e:
            ctx.note(f"{keyb}: init_point ({kind}) sequence raised {repr(e)[:140]}")
    if len(chains_by_kind) == 2 and not chains_equal(chains_by_kind["float64"], chains_by_kind["int64"]):
        ctx.fail(keyb + ":dtype-chain:int64", {"sampler": "Gibbs(legacy)", "init_point": "int64 vs float64"}, "same chain from integer and float init_point of equal value",
                 f"first difference at {first_diff(chains_by_kind['float64'], chains_by_kind['int64'])}", "the dtype of init_point changes the chain")
    # HybridGibbs: retained get_samples(), caller-owned initial_point of the block samplers
    keyb = "gibbs:HybridGibbs"
    desc = {"sampler": "HybridGibbs", "ops": ["sample(3)", "r1 = get_samples()", "warmup(2)", "r2 = get_samples()", "sample(2)", "re-verify r1, r2, initial points"]}
    ctx.case("gibbs-retained", desc)
    try:
        reseed(seed + 7)
        x0 = np.array([1.0, 0, 2, -1, 0, 1, 3, 0]); d0 = np.array([2.0]); x0s, d0s = x0.copy(), d0.copy()
        hg = M.HybridGibbs(target, {'x': M.LinearRTO(maxit=15, initial_point=x0), 'd': M.Conjugate(initial_point=d0), 'l': M.Conjugate()})
        hg.sample(3); r1 = hg.get_samples(); s1 = snap_dict(r1)
        hg.warmup(2); r2 = hg.get_samples(); s2 = snap_dict(r2)
        hg.sample(2); r3 = hg.get_samples()
        if not dict_same(r1, s1) or not dict_same(r2, s2):
            ctx.fail(keyb + ":retained", desc, "chains returned earlier are unchanged by later calls", "altered", "a later transition overwrote an entry of a chain handed out earlier")
        if not all(np.array_equal(np.asarray(r3[k].samples)[..., :3], s1[k]) for k in s1):
            ctx.fail(keyb + ":retained", desc, "the chain begins with the states recorded first", "differs", "recorded states were altered by later transitions")
        if not (np.array_equal(x0, x0s) and np.array_equal(d0, d0s)):
            ctx.fail(keyb + ":caller-array", desc, "initial_point arrays of the block samplers are not modified", "modified", "sampling wrote into the caller's initial_point array")
    except Exception as e:
        ctx.note(f"{keyb}: retained sequence raised {repr(e)[:140]}")
    # ---- legacy Gibbs.sample(Ns, Nb) in full (warm-up array, refusal of a second warm-up, IndexError after an empty
    #      first call): random programs of calls on one object vs `gibbsLegacyFull`
    glf_cov = {"calls": 0, "with_warmup": 0, "errV": 0, "errI": 0, "zero_length": 0}
    progs = [[(2, 2), (1, 0), (1, 1), (0, 0)], [(0, 2), (1, 0)], [(0, 0), (2, 0)], [(3, 0), (0, 3), (2, 0)]]
    for _ in range(6 if not thorough else 40):
        pr = []
        for j in range(ctx.rng.randint(2, 4)):
            pr.append((ctx.rng.choice([0, 1, 1, 2, 3, 4]), ctx.rng.choice([0, 0, 1, 2, 3]) if j == 0 or ctx.rng.random() < 0.25 else 0))
        progs.append(pr)
    for pr in progs:
        desc = {"sampler": "Gibbs(legacy)", "ops": [f"sample({n}, {b})" for n, b in pr]}
        ctx.case("legacy-gibbs-program", desc)
        try:
            reseed(seed + 9); g = mk_l()
            names = g.par_names
            sweeps = []
            orig = g.step
            def step(cur, g=g, orig=orig, sweeps=sweeps):
                r = orig(cur)
                sweeps.append(np.concatenate([np.asarray(r[p], dtype=float).ravel() for p in g.par_names]))
                return r
            g.step = step
            res = []
            for (n, b) in pr:
                glf_cov["calls"] += 1; glf_cov["with_warmup"] += int(b > 0); glf_cov["zero_length"] += int(n == 0)
                try:
                    r = g.sample(n, b)
                    w = g.samples_warmup
                    res.append((lchain(r, names), None if b == 0 else
                                [np.concatenate([np.asarray(w[p][:, i], dtype=float).ravel() for p in names]) for i in range(w[names[0]].shape[1])]))
                except IndexError:
                    res.append("errI"); glf_cov["errI"] += 1
                except ValueError:
                    res.append("errV"); glf_cov["errV"] += 1
        except Exception as e:
            ctx.note(f"gibbs:Gibbs(legacy): program {desc['ops']} raised {repr(e)[:140]}")
            continue
        ids = Ids()
        stream = [ids(x) + 1 for x in sweeps]
        fm = lambda c: ",".join(str(ids(x) + 1) for x in c) or "_"
        impl = "#".join(r if isinstance(r, str) else f"C={fm(r[0])};W={'-' if r[1] is None else fm(r[1])}" for r in res)
        hlines.append(f"glf {';'.join(f's{n}b{b}' for n, b in pr)} 0 {','.join(map(str, stream)) or '_'}")
        hmeta.append(("gibbs:Gibbs(legacy):program", desc, impl))
    ctx.extra_cov["legacy_gibbs_programs"] = glf_cov
    # ---- the inside of HybridGibbs: the real class on harness-defined block samplers vs Model/C14_gibbs.lean
    from harness.props import c14_gibbs as HT
    ht_classes = HT.make_classes(M)
    ht_cfgs = [HT.gen_config(ctx.rng) for _ in range(60 if not thorough else 400)]
    ht_lines = [HT.line_of(c) for c in ht_cfgs]
    houts_all = ctx.lean.drive(hlines + ht_lines)
    houts, ht_outs = houts_all[:len(hlines)], houts_all[len(hlines):]
    ht_cov = {"blocks": {}, "nuts_blocks": 0, "default_initial_point": 0, "num_sampling_steps": {}, "already_initialized": 0, "ops": {"s": 0, "w": 0}}
    for cfg_, out in zip(ht_cfgs, ht_outs):
        desc = {"sampler": "HybridGibbs(ToyBlock)", "blocks": [{k: v for k, v in b.items()} for b in cfg_["blocks"]],
                "ops": [HT.op_str(o) for o in cfg_["ops"]], "stream": cfg_["stream"][:30]}
        ctx.case("hybrid-toy-program", desc)
        ht_cov["blocks"][str(len(cfg_["blocks"]))] = ht_cov["blocks"].get(str(len(cfg_["blocks"])), 0) + 1
        for b in cfg_["blocks"]:
            ht_cov["nuts_blocks"] += int(b["nuts"]); ht_cov["default_initial_point"] += int(b["x0"] is None); ht_cov["already_initialized"] += int(b["preinit"])
            ht_cov["num_sampling_steps"][str(b["nsteps"])] = ht_cov["num_sampling_steps"].get(str(b["nsteps"]), 0) + 1
        for o in cfg_["ops"]:
            if o != "get":
                ht_cov["ops"]["w" if isinstance(o, tuple) else "s"] += 1
        got, err = HT.run_impl(cuqi, M, ht_classes, cfg_)
        if got != out:
            key = "gibbs:HybridGibbs:toy-blocks:program"
            ctx.disagree(key, desc, out[:500], (got + (" " + err if err else ""))[:500], "HybridGibbs on toy block samplers differs from the model of HybridGibbs.step / sample / warmup")
            HT.oracle(cuqi, M, ht_classes, cfg_, lambda aspect, demanded, gotv, what, extra=None, desc=desc, key=key:
                      ctx.fail(key, {**desc, **(extra or {}), "aspect": aspect}, demanded, gotv, what))
    ctx.extra_cov["hybrid_toy_programs"] = ht_cov
    for (keyb, desc, impl), out in zip(hmeta, houts):
        ctx.case("gibbs-tie", desc, nontrivial=False)
        if impl != out:
            tkey = keyb + (":tie" if not keyb.endswith("split0") else "")
            ctx.disagree(tkey, desc, out[:200], impl[:200], "Gibbs storage / tuning calls differ from the model")
            if tkey != keyb:
                mirror_failure(ctx, tkey, desc, prefix=(keyb[:-len(":program")] if keyb.endswith(":program") else keyb))
